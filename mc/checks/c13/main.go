// C13 — requests larger than MaxRequestLength are never processed. Exhaustive enumeration of
// limit x body size x transport x length declaration against real servers on ephemeral loopback endpoints:
//
//	truthful  the real hprose client of every client/server pairing submits a valid call of exactly the size
//	          (L-1, L, L+1, 4L, 1 MiB, 4 MiB): at or below the limit the call works and the function ran exactly
//	          once, above it the caller gets core.ErrRequestEntityTooLarge (large refusals are repeated, because
//	          which error the caller sees is decided by a race inside the client);
//	absent    HTTP/1.1 chunked bodies (raw socket, net/http client with ContentLength -1, fasthttp client with a
//	          body stream), raw bodies without any length, websocket messages fragmented into frames that are each
//	          within the limit;
//	smaller   frames / datagrams / HTTP messages that declare less than they carry;
//	larger    frames / datagrams / HTTP messages that declare more than they carry (then the sender half-closes).
//
// Oracle: a counting IO plugin, a counting invoke plugin and a counting published function record every request
// they see; none of them may ever see a request longer than the limit, and requests within the limit whose
// framing is well formed are processed exactly once.
package main

import (
	"bytes"
	"context"
	"encoding/json"
	"fmt"
	"io"
	"log"
	"net/http"
	"os"
	"strconv"
	"strings"
	"sync"
	"time"

	"github.com/hprose/hprose-golang/v3/rpc/core"
	"github.com/valyala/fasthttp"
	"verif/lib/report"
	"verif/lib/shard"
	"verif/mc/netlab"
)

const ID = "C13"

const udpCapacity = 65499

const slack = 10 * time.Second

const trialsLarge = 12 // repetitions of a refusal whose request does not fit the socket buffers

// ---- scenarios ----

type Scenario struct {
	Decl     string `json:"decl"` // truthful | absent | smaller | larger
	Link     string `json:"link"` // truthful: client/server pairing; else the server cell the raw peer talks to
	Via      string `json:"via"`  // client | raw-chunked | raw-no-length | nethttp-chunked | fasthttp-stream | raw-fragmented | raw
	Limit    int    `json:"limit"`
	Size     int    `json:"size"`     // bytes of request body actually sent
	Declared int    `json:"declared"` // misdeclared variants: the length the framing announces
	Chunk    int    `json:"chunk"`    // chunk / fragment size for the absent variants
}

func (s Scenario) String() string { b, _ := json.Marshal(s); return string(b) }

// links of this check: netlab's pairings plus the net/http client against a fasthttp server that streams bodies.
type link struct {
	netlab.Link
	FastStreaming bool
}

func linkByName(n string) (link, bool) {
	if n == "http-faststream" {
		return link{netlab.Link{Name: n, Server: "fasthttp", Client: "http"}, true}, true
	}
	l, ok := netlab.LinkByName(n)
	return link{l, false}, ok
}

func truthfulLinks() []string {
	var out []string
	for _, l := range netlab.Links {
		out = append(out, l.Name)
	}
	return append(out, "http-faststream")
}

var rawCells = []string{"tcp", "unix", "udp", "ws", "ws-fastsrv", "http", "http-fastsrv", "http-faststream"}

func framing(cell string) string {
	switch cell {
	case "tcp", "unix":
		return "socket"
	case "udp":
		return "udp"
	case "ws", "ws-fastsrv":
		return "ws"
	}
	return "http"
}

func limits(thorough bool) []int {
	if thorough {
		return []int{8, 9, 64, 255, 1024, 4096, 65499, 65536, 1 << 20}
	}
	return []int{8, 64, 1024}
}

func sizes(l int, thorough bool) []int {
	s := []int{l - 1, l, l + 1, 4 * l, 1 << 20, 4 << 20}
	if thorough {
		s = append(s, 2*l, l+2, l+16, 65499, 65500, 65536, 16<<20)
	}
	seen := map[int]bool{}
	var out []int
	for _, x := range s {
		if x >= 7 && !seen[x] {
			seen[x] = true
			out = append(out, x)
		}
	}
	return out
}

func enumerate(group string, thorough bool) []Scenario {
	f := strings.Split(group, "/")
	decl, cell := f[0], f[1]
	fr := framing(cell)
	var out []Scenario
	for _, l := range limits(thorough) {
		for _, sz := range sizes(l, thorough) {
			base := Scenario{Decl: decl, Link: cell, Limit: l, Size: sz}
			add := func(via string, declared, chunk int) {
				s := base
				s.Via, s.Declared, s.Chunk = via, declared, chunk
				out = append(out, s)
			}
			if (cell == "udp") && sz > udpCapacity {
				continue // one datagram cannot carry it (and the real UDP client dies on it: property C12)
			}
			if lk, ok := linkByName(cell); ok && lk.Server == "fasthttp" && sz > 4<<20 {
				continue // above fasthttp.Server's own default MaxRequestBodySize the library answers before hprose is asked
			}
			switch decl {
			case "truthful":
				add("client", sz, 0)
			case "absent":
				switch fr {
				case "http":
					add("raw-chunked", -1, sz)      // the whole body in one chunk
					add("raw-chunked", -1, (l+1)/2) // every chunk within the limit
					add("raw-no-length", -1, 0)     // neither Content-Length nor Transfer-Encoding
					add("nethttp-chunked", -1, 0)   // net/http client, ContentLength = -1
					add("fasthttp-stream", -1, 0)   // fasthttp client, SetBodyStream(r, -1)
				case "ws":
					add("raw-fragmented", -1, (l+1)/2) // every fragment within the limit
					add("raw-fragmented", -1, l)
				}
			case "smaller":
				for _, d := range []int{0, 1, l - 1, l} {
					if d < sz {
						add("raw", d, 0)
					}
				}
			case "larger":
				ds := []int{sz + 1, 2 * sz, l + 1, 65535, 1 << 20, 0x7fffffff}
				seen := map[int]bool{}
				for _, d := range ds {
					if d <= sz || seen[d] {
						continue
					}
					if fr == "udp" && d > 65535 {
						continue
					}
					if fr == "ws" && d > 1<<30 {
						continue
					}
					seen[d] = true
					add("raw", d, 0)
				}
			}
		}
	}
	return out
}

func groups() []string {
	var g []string
	for _, l := range truthfulLinks() {
		g = append(g, "truthful/"+l)
	}
	for _, d := range []string{"absent", "smaller", "larger"} {
		for _, c := range rawCells {
			g = append(g, d+"/"+c)
		}
	}
	return g
}

// ---- requests of an exact size ----

// buildCall returns a well-formed hprose call of exactly size bytes (size >= 7): the name is made as long as
// needed (the service publishes a missing-method handler, so every name is a published function), optionally
// followed by an empty argument list.
func buildCall(size int) []byte {
	encName := func(n int) string {
		switch n {
		case 0:
			return "e"
		case 1:
			return "uf"
		}
		return "s" + strconv.Itoa(n) + `"` + strings.Repeat("f", n) + `"`
	}
	for _, args := range []string{"", "a{}"} {
		// total = 1 (C) + len(encName(n)) + len(args) + 1 (z)
		for n := size - 2 - len(args) - 12; n <= size; n++ {
			if n < 0 {
				continue
			}
			if 2+len(args)+len(encName(n)) == size {
				return []byte("C" + encName(n) + args + "z")
			}
		}
	}
	return nil
}

// ---- instrumented service ----

type seen struct {
	Who  string `json:"who"` // io | invoke | func
	Size int    `json:"size"`
}

type counters struct {
	mu   sync.Mutex
	list []seen
	cur  int // size of the request currently in the IO plugin (requests are handled one at a time in a scenario)
}

func (c *counters) add(who string, size int) {
	c.mu.Lock()
	c.list = append(c.list, seen{who, size})
	c.mu.Unlock()
}

func (c *counters) take() []seen {
	c.mu.Lock()
	defer c.mu.Unlock()
	l := c.list
	c.list = nil
	return l
}

func newService(limit int, c *counters) *core.Service {
	svc := core.NewService()
	svc.MaxRequestLength = limit
	svc.AddMissingMethod(func(name string, args []interface{}) ([]interface{}, error) {
		c.add("func", len(name))
		return []interface{}{len(name)}, nil
	})
	svc.Use(func(ctx context.Context, request []byte, next core.NextIOHandler) ([]byte, error) {
		c.add("io", len(request))
		return next(ctx, request)
	})
	svc.Use(func(ctx context.Context, name string, args []interface{}, next core.NextInvokeHandler) ([]interface{}, error) {
		c.add("invoke", len(name))
		return next(ctx, name, args)
	})
	return svc
}

// reference: what an unlimited service answers to the call (computed in process, no transport).
func reference(call []byte) []byte {
	var c counters
	svc := newService(0x7fffffff, &c)
	resp, _ := svc.Handle(core.WithContext(context.Background(), core.NewServiceContext(svc)), call)
	return append([]byte{}, resp...)
}

// ---- results ----

type viol struct {
	Sig  string   `json:"sig"`
	What string   `json:"what"`
	Sc   Scenario `json:"sc"`
	N    int      `json:"n"`
}

type result struct {
	Evals    int64            `json:"evals"`
	Distinct int64            `json:"distinct"`
	Viol     []viol           `json:"viol"`
	Counters map[string]int64 `json:"counters"`
	Samples  []string         `json:"samples"`
	Infra    []string         `json:"infra"`
	Notes    []string         `json:"notes"`
}

func variantOf(sc Scenario) string {
	switch sc.Decl {
	case "truthful":
		return "truthful"
	case "absent": // who produced the encoding is not part of the failing cell
		switch sc.Via {
		case "raw-no-length":
			return "no-length"
		case "raw-fragmented":
			return "fragmented"
		}
		return "chunked"
	}
	return "declared-" + sc.Decl + "-than-actual"
}

func (r *result) violate(sc Scenario, what, detail string) {
	r.violateCell(sc, sc.Link, what, detail)
}

// family groups the pairings by the code that frames and refuses requests.
func family(linkName string) string {
	switch linkName {
	case "tcp", "unix":
		return "socket"
	case "ws", "ws-fastsrv":
		return "websocket"
	case "udp", "mock":
		return linkName
	}
	return "http"
}

func (r *result) violateCell(sc Scenario, cell, what, detail string) {
	sig := fmt.Sprintf("C13|%s|%s|%s", cell, variantOf(sc), what)
	for i := range r.Viol {
		if r.Viol[i].Sig == sig {
			r.Viol[i].N++
			return
		}
	}
	r.Viol = append(r.Viol, viol{Sig: sig, What: detail, Sc: sc, N: 1})
}

func (r *result) note(s string) {
	if len(r.Notes) < 5 {
		r.Notes = append(r.Notes, s)
	}
}

// ---- executor ----

type executor struct {
	res    *result
	limit  int
	cell   string
	cnt    *counters
	svc    *core.Service
	srv    *netlab.Server
	seenK  map[string]bool
	replay bool
}

func (x *executor) close() {
	if x.srv != nil {
		x.srv.Close()
		x.srv = nil
	}
}

func (x *executor) open(sc Scenario, lk link, inline bool) error {
	x.close()
	x.cnt = &counters{}
	x.svc = newService(sc.Limit, x.cnt)
	srv, err := netlab.StartServer(lk.Server, x.svc, netlab.ServerOptions{InlinePool: inline, FastStreaming: lk.FastStreaming})
	if err != nil {
		return err
	}
	x.srv, x.limit, x.cell = srv, sc.Limit, sc.Link
	return nil
}

func showSeen(l []seen) string {
	b, _ := json.Marshal(l)
	if len(b) > 200 {
		return string(b[:200]) + "..."
	}
	return string(b)
}

// above reports what saw a request longer than the limit.
func above(l []seen, limit int) (who []string, size int) {
	over := false
	for _, s := range l {
		if s.Who == "io" {
			over = s.Size > limit
			if over {
				size = s.Size
			}
		}
		if over {
			who = append(who, s.Who)
		}
	}
	return
}

// sawOtherThan lists who saw a request whose size is not the probes' size.
func sawOtherThan(l []seen, probe int) (who []string) {
	other := false
	for _, s := range l {
		if s.Who == "io" {
			other = s.Size != probe
		}
		if other {
			who = append(who, s.Who)
		}
	}
	return
}

func (x *executor) run(sc Scenario) {
	x.res.Evals++
	lk, ok := linkByName(sc.Link)
	if !ok {
		x.res.Infra = append(x.res.Infra, "unknown link "+sc.Link)
		return
	}
	k := fmt.Sprintf("%s|%s|%s|%d|%d|%d|%d", sc.Decl, sc.Link, sc.Via, sc.Limit, sc.Size, sc.Declared, sc.Chunk)
	if !x.seenK[k] {
		x.seenK[k] = true
		x.res.Distinct++
	}
	call := buildCall(sc.Size)
	if call == nil {
		x.res.Infra = append(x.res.Infra, fmt.Sprintf("no call of size %d", sc.Size))
		return
	}
	if sc.Via == "client" {
		x.truthful(sc, lk, call)
		return
	}
	x.raw(sc, lk, call)
}

func errClass(err error) string {
	s := err.Error()
	for _, k := range []string{"broken pipe", "connection reset", "EOF", "timeout", "deadline", "closed"} {
		if strings.Contains(s, k) {
			return k
		}
	}
	if len(s) > 60 {
		s = s[:60]
	}
	return s
}

// truthful: the real client of the pairing submits the call.
func (x *executor) truthful(sc Scenario, lk link, call []byte) {
	want := reference(call)
	trials := 1
	if sc.Size > sc.Limit && sc.Size >= 64<<10 {
		trials = trialsLarge
		if x.replay {
			trials = 300 // the outcome is a race inside the client: a replay tries much harder than the sweep
		}
	}
	other := map[string]int{}
	retries := 0
	for t := 0; t < trials; t++ {
		if err := x.open(sc, lk, false); err != nil {
			x.res.Infra = append(x.res.Infra, err.Error())
			return
		}
		cli := netlab.NewClient(lk.Client, x.srv.URL(lk.Client), 60*time.Second)
		resp, err := netlab.Request(cli, call)
		netlab.CloseClient(cli)
		if lk.Server == "nethttp" || lk.Server == "fasthttp" {
			x.srv.Quiesce(slack)
		}
		x.close()
		log := x.cnt.take()
		if who, size := above(log, sc.Limit); len(who) > 0 {
			x.res.violate(sc, "processed-above-limit", fmt.Sprintf("limit %d: a %d-byte request was seen by %v (log %s)", sc.Limit, size, who, showSeen(log)))
		}
		if sc.Size <= sc.Limit {
			nf := 0
			for _, s := range log {
				if s.Who == "func" {
					nf++
				}
			}
			switch {
			case err != nil && err != core.ErrRequestEntityTooLarge && retries < 4:
				retries++ // an error other than a refusal (a timeout on a loaded machine, a lost datagram): run the scenario again before judging
				t--
			case err != nil:
				x.res.violate(sc, "refused-within-limit", fmt.Sprintf("limit %d, %d-byte request: %v", sc.Limit, sc.Size, err))
			case !bytes.Equal(resp, want) || nf != 1:
				x.res.violate(sc, "not-processed-normally-within-limit", fmt.Sprintf("limit %d, %d-byte request: response %q (want %q), function ran %d times", sc.Limit, sc.Size, resp, want, nf))
			default:
				x.res.Counters["processed_within_limit"]++
			}
		} else {
			switch {
			case err == core.ErrRequestEntityTooLarge:
				x.res.Counters["refused_with_too_large_error"]++
			case err == nil:
				x.res.violate(sc, "no-error-above-limit", fmt.Sprintf("limit %d, %d-byte request: caller got response %q and no error", sc.Limit, sc.Size, resp))
			default:
				other[errClass(err)]++
			}
		}
	}
	if len(other) > 0 {
		// Which error the caller sees after a large refusal is decided by a race (the peer's write error against the
		// refusal already waiting to be read), so which pairings show it varies from run to run: the cell is the
		// transport family, the pairing is named in the text.
		x.res.violateCell(sc, family(sc.Link), "large-refusal|caller-error-is-not-request-too-large",
			fmt.Sprintf("%s: limit %d, %d-byte request refused, but in %v of %d trials the caller did not get ErrRequestEntityTooLarge", sc.Link, sc.Limit, sc.Size, other, trials))
	}
	if len(x.res.Samples) < 2 {
		x.res.Samples = append(x.res.Samples, sc.String())
	}
}

var sentinelCall = buildCall(7) // "Cufa{}z": within every limit of the space

// raw: a raw peer (or a plain HTTP client with an undeclared length) sends the call with the prescribed framing.
func (x *executor) raw(sc Scenario, lk link, call []byte) {
	fr := framing(sc.Link)
	var lastErr string
	for attempt := 0; attempt < 5; attempt++ {
		if err := x.open(sc, lk, true); err != nil {
			lastErr = err.Error()
			continue
		}
		host := x.srv.Addr
		wellFormedWithin := false // a well-formed request within the limit: must be processed
		var w []byte
		settled := true
		var err error
		switch {
		case sc.Via == "nethttp-chunked":
			req, _ := http.NewRequest("POST", "http://"+host+"/", io.NopCloser(bytes.NewReader(call)))
			req.ContentLength = -1
			tr := &http.Transport{}
			resp, e := (&http.Client{Transport: tr, Timeout: 60 * time.Second}).Do(req)
			if e == nil {
				io.Copy(io.Discard, resp.Body)
				resp.Body.Close()
			}
			tr.CloseIdleConnections()
			wellFormedWithin = sc.Size <= sc.Limit
		case sc.Via == "fasthttp-stream":
			req, resp := fasthttp.AcquireRequest(), fasthttp.AcquireResponse()
			req.Header.SetMethod("POST")
			req.SetRequestURI("http://" + host + "/")
			req.SetBodyStream(bytes.NewReader(call), -1)
			c := &fasthttp.Client{}
			c.DoTimeout(req, resp, 60*time.Second)
			c.CloseIdleConnections()
			fasthttp.ReleaseRequest(req)
			fasthttp.ReleaseResponse(resp)
			wellFormedWithin = sc.Size <= sc.Limit
		default:
			switch fr {
			case "socket":
				w = netlab.SocketFrame(sc.Declared, 7, call)
			case "udp":
				w = netlab.UDPDatagram(sc.Declared, 7, call)
			case "ws":
				msg := append(netlab.WSPrefix(7), call...)
				mask := []byte{0, 0, 0, 0}
				if sc.Via == "raw-fragmented" {
					for off, first := 0, true; off < len(msg); first = false {
						end := off + sc.Chunk
						if end > len(msg) {
							end = len(msg)
						}
						op := byte(0)
						if first {
							op = 2
						}
						w = append(w, netlab.WSFrame(end == len(msg), op, end-off, msg[off:end], mask)...)
						off = end
					}
					wellFormedWithin = sc.Size <= sc.Limit
				} else {
					w = netlab.WSFrame(true, 2, sc.Declared+4, msg, mask)
				}
			case "http":
				switch sc.Via {
				case "raw-chunked":
					w = netlab.HTTPRequest(host, -1, true, sc.Chunk, call)
					wellFormedWithin = sc.Size <= sc.Limit
				case "raw-no-length":
					w = netlab.HTTPRequest(host, -1, false, 0, call)
				default:
					w = netlab.HTTPRequest(host, sc.Declared, false, 0, call)
				}
			}
			_, settled, err = netlab.RawExchange(x.srv, fr == "ws", w,
				func(try int) []byte { return netlab.UDPDatagram(len(sentinelCall), uint16(0x7000+try), sentinelCall) },
				func(d []byte) bool {
					if len(d) < 8 {
						return false
					}
					_, idx, _, ok := netlab.ParseUDPHeader(d[:8])
					return ok && idx >= 0x7000 && idx < 0x7005
				}, slack)
		}
		if err != nil || !settled {
			lastErr = fmt.Sprintf("exchange did not settle within %v: %v", slack, err)
			continue
		}
		if lk.Server == "nethttp" || lk.Server == "fasthttp" {
			x.srv.Quiesce(slack)
		}
		x.close()
		log := x.cnt.take()
		if who, size := above(log, sc.Limit); len(who) > 0 {
			x.res.violate(sc, "processed-above-limit",
				fmt.Sprintf("limit %d: %d bytes were sent (declared %d, chunk %d); a %d-byte request was seen by %v", sc.Limit, sc.Size, sc.Declared, sc.Chunk, size, who))
		} else if who := sawOtherThan(log, len(sentinelCall)); fr == "udp" && sc.Decl == "smaller" && sc.Size > sc.Limit && len(who) > 0 {
			// a datagram is one message: its body is what arrived, whatever its header declares. One that carries
			// more than the limit must not be processed, not even the part its header admits to (the settle
			// probes of the harness are the only other traffic; they have a size of their own)
			x.res.violate(sc, "oversize-datagram-processed-in-part",
				fmt.Sprintf("limit %d: a datagram with a %d-byte body declaring %d bytes was sent; it was not dropped: %s", sc.Limit, sc.Size, sc.Declared, showSeen(log)))
		} else if sc.Decl == "absent" && sc.Via != "raw-no-length" && sc.Size > sc.Limit && len(log) > 0 {
			// (an HTTP request with neither Content-Length nor chunked coding has an empty body by definition: the
			// bytes after its head are not part of it, so raw-no-length is excluded)
			// one well-formed message without a declared length whose body exceeds the limit: it must be refused
			// as a whole; a plugin or function that sees a prefix of it has seen the request
			x.res.violate(sc, "processed-truncated",
				fmt.Sprintf("limit %d: one %d-byte request without a declared length was sent (chunk %d); it was not refused but cut: %s", sc.Limit, sc.Size, sc.Chunk, showSeen(log)))
		} else {
			x.res.Counters["nothing_above_limit_seen"]++
		}
		if wellFormedWithin {
			n := 0
			for _, s := range log {
				if s.Who == "func" && s.Size > 0 {
					n++
				}
			}
			ioOK := false
			for _, s := range log {
				if s.Who == "io" && s.Size == sc.Size {
					ioOK = true
				}
			}
			if !ioOK || n < 1 {
				x.res.violate(sc, "refused-within-limit", fmt.Sprintf("limit %d: a well-formed %d-byte request without a declared length was not processed (log %s)", sc.Limit, sc.Size, showSeen(log)))
			} else {
				x.res.Counters["processed_within_limit"]++
			}
		}
		if len(x.res.Samples) < 2 {
			x.res.Samples = append(x.res.Samples, sc.String())
		}
		return
	}
	x.res.Infra = append(x.res.Infra, sc.String()+": "+lastErr)
}

// ---- worker / coordinator ----

func runJob(j netlab.Job, thorough bool) result {
	res := result{Counters: map[string]int64{}}
	var scs []Scenario
	lo := j.Lo
	if j.One != nil {
		var s Scenario
		if err := json.Unmarshal(j.One, &s); err != nil {
			res.Infra = append(res.Infra, "bad scenario: "+err.Error())
			return res
		}
		scs, lo = []Scenario{s}, 0
	} else {
		all := enumerate(j.Group, thorough)
		if j.Hi > len(all) || j.Lo > j.Hi {
			res.Infra = append(res.Infra, fmt.Sprintf("job range [%d,%d) outside group %s (%d)", j.Lo, j.Hi, j.Group, len(all)))
			return res
		}
		scs = all[j.Lo:j.Hi]
	}
	x := &executor{res: &res, seenK: map[string]bool{}, replay: j.One != nil}
	for i, sc := range scs {
		netlab.Journal(j.ID, lo+i, sc)
		x.run(sc)
	}
	x.close()
	return res
}

func firstLines(s string, n int) string {
	var keep []string
	for _, l := range strings.Split(strings.TrimSpace(s), "\n") {
		if strings.TrimSpace(l) == "" {
			continue
		}
		keep = append(keep, l)
		if len(keep) == n {
			break
		}
	}
	return strings.Join(keep, " / ")
}

func main() {
	thorough := report.Tier() == "thorough"
	netlab.Init()
	log.SetOutput(io.Discard) // net/http logs stray answers of a server that did not read a refused body
	if shard.IsWorker() {
		shard.Serve(func(raw json.RawMessage) interface{} {
			var j netlab.Job
			json.Unmarshal(raw, &j)
			return runJob(j, thorough)
		})
	}
	// self-test of the request builder: every size of the space has a call, and an unlimited service runs it once
	for _, l := range limits(thorough) {
		for _, sz := range sizes(l, thorough) {
			c := buildCall(sz)
			if len(c) != sz || !bytes.HasPrefix(reference(c), []byte("R")) {
				fmt.Fprintf(os.Stderr, "INFRASTRUCTURE ERROR: no valid call of size %d (%q -> %q)\n", sz, trunc(c), trunc(reference(c)))
				os.Exit(2)
			}
		}
	}
	var jobs []netlab.Job
	space := map[string]int{}
	replaying := len(os.Args) > 2 && os.Args[1] == "--replay"
	if replaying {
		_, raw := report.LoadReplay(os.Args[2])
		var s Scenario
		if err := json.Unmarshal(raw, &s); err != nil {
			fmt.Fprintln(os.Stderr, "replay:", err)
			os.Exit(2)
		}
		fmt.Println("replaying", s.String())
		jobs = []netlab.Job{{ID: 0, Group: s.Decl + "/" + s.Link, One: raw}}
	} else {
		id := 0
		for _, g := range groups() {
			n := len(enumerate(g, thorough))
			if n == 0 {
				continue
			}
			space[g] = n
			step := 6
			for lo := 0; lo < n; lo += step {
				hi := lo + step
				if hi > n {
					hi = n
				}
				jobs = append(jobs, netlab.Job{ID: id, Group: g, Lo: lo, Hi: hi})
				id++
			}
		}
	}
	run := report.New(ID, "fault_enumeration")
	var evals, distinct int64
	cnt := map[string]int64{}
	samples := report.NewSamples(16)
	var notes []string
	found := 0
	rounds := netlab.Drive(jobs, shard.Options{JobTimeout: 600 * time.Second}, func(j netlab.Job, raw json.RawMessage) {
		var r result
		if err := json.Unmarshal(raw, &r); err != nil {
			run.Infra("bad worker result: " + err.Error())
			return
		}
		evals += r.Evals
		distinct += r.Distinct
		for k, v := range r.Counters {
			cnt[k] += v
		}
		for _, s := range r.Samples {
			if j.ID%5 == 0 || replaying {
				samples.Add(s)
			}
		}
		for _, m := range r.Infra {
			run.Infra(m)
		}
		notes = append(notes, r.Notes...)
		for _, v := range r.Viol {
			found++
			for i := 0; i < v.N; i++ {
				run.Violate(v.Sig, v.What+" ["+v.Sc.String()+"]", v.Sc)
			}
			if replaying {
				fmt.Printf("REPRODUCED %s: %s\n", v.Sig, v.What)
			}
		}
	}, func(d netlab.Death) {
		var sc Scenario
		if d.Scenario == nil || json.Unmarshal(d.Scenario, &sc) != nil {
			run.Infra(fmt.Sprintf("worker died without a journal (job %+v): %s %s", d.Job, d.Fail.Exit, firstLines(d.Fail.Stderr, 3)))
			return
		}
		if d.Fail.Kind == "timeout" {
			run.Infra(fmt.Sprintf("scenario did not return within the watchdog (%s): %s", d.Fail.Exit, sc))
			return
		}
		found++
		evals++
		sig := fmt.Sprintf("C13|%s|%s|process-death", sc.Link, variantOf(sc))
		run.Violate(sig, fmt.Sprintf("the process died (%s): %s [%s]", d.Fail.Exit, firstLines(d.Fail.Stderr, 2), sc), sc)
		if replaying {
			fmt.Printf("REPRODUCED %s\n", sig)
		}
	})
	if replaying {
		if found > 0 {
			fmt.Printf("VIOLATION property=%s replay=%s\n", ID, os.Args[2])
			os.Exit(1)
		}
		fmt.Println("not reproduced")
		os.Exit(0)
	}
	for i, n := range notes {
		if i < 12 {
			fmt.Fprintln(os.Stderr, "note:", n)
		}
	}
	run.Set("evaluations", evals)
	run.Set("distinct_nontrivial", distinct)
	run.Set("rule", "one evaluation = one (declaration variant, transport cell, limit, body size, declared length, chunk size) scenario against a fresh real server (refusals of bodies >= 64 KiB through the real client are repeated "+strconv.Itoa(trialsLarge)+" times inside one evaluation); every scenario sends a non-empty well-formed call, distinct_nontrivial counts distinct scenario tuples")
	run.Set("samples", samples.List())
	run.Set("exhaustive", true)
	run.Set("space", space)
	run.Set("counters", cnt)
	run.Set("rounds", rounds)
	run.Set("space_description", map[string]interface{}{
		"limits": limits(thorough), "sizes_for_limit_L": "L-1, L, L+1, 4L, 1 MiB, 4 MiB" + map[bool]string{true: ", 2L, L+2, L+16, 65499, 65500, 65536, 16 MiB", false: ""}[thorough],
		"truthful_links": truthfulLinks(), "raw_cells": rawCells,
		"absent_variants":  []string{"raw-chunked (one chunk; chunks of (L+1)/2)", "raw-no-length", "nethttp-chunked", "fasthttp-stream", "raw-fragmented websocket (fragments of (L+1)/2 and L)"},
		"smaller_declared": "0, 1, L-1, L (below the actual size)", "larger_declared": "size+1, 2*size, L+1, 65535, 1 MiB, 2^31-1 (above the actual size; as far as the header can express)",
	})
	run.Assumption("raw-peer scenarios run the service with Handler.Pool set to an inline pool so that 'the peer saw the connection close / the sentinel was answered' proves the request has been fully handled; HTTP servers are shut down gracefully before the counters are read")
	run.Assumption("on stream transports a frame that declares less than follows is a request of the declared size followed by other bytes; the oracle for misdeclared lengths is only that nothing longer than the limit reaches a plugin or function")
	run.Assumption("UDP bodies above 65,499 bytes cannot be carried by one datagram and are not sent; bodies above 4 MiB are not sent to fasthttp servers (the library's own default MaxRequestBodySize answers them)")
	run.Finish()
}

func trunc(b []byte) []byte {
	if len(b) > 40 {
		return b[:40]
	}
	return b
}
