// C14 auxiliary (free-running, built with -race against the unmodified repository):
//
//	(c) a decoded value never aliases the input buffer or a recycled coder: for every value of the C01
//	    universe (depth 1) decode, overwrite the input, reuse pooled coders for other data, compare again;
//	(d) complement, not a deciding step: the thread bodies of the schedule exploration run free under the
//	    race detector for a fixed number of rounds with fresh types each round (registries reset).
//
// Output: one JSON object on stdout.
package main

import (
	"encoding/json"
	"fmt"
	"math/big"
	"os"
	"reflect"
	"strings"
	"sync"

	hio "github.com/hprose/hprose-golang/v3/io"
	"verif/mc/gen"
	"verif/mc/iocase"
)

type viol struct {
	Sig  string `json:"sig"`
	What string `json:"what"`
}

type out struct {
	Evaluations int64                  `json:"evaluations"`
	Viol        []viol                 `json:"viol"`
	Info        map[string]interface{} `json:"info"`
}

type B struct {
	X int
	S string
}
type A struct {
	PB *B
	VB B
	N  string
}
type R struct {
	V    int
	Next *R
}
type regInner struct {
	Name string `custom:"nm"`
}
type regOuter struct {
	In regInner  `custom:"in"`
	P  *regInner `custom:"p"`
}

func main() {
	iocase.Init()
	var o out
	o.Info = map[string]interface{}{}
	seen := map[string]bool{}
	add := func(sig, what string) {
		if !seen[sig] {
			seen[sig] = true
			o.Viol = append(o.Viol, viol{sig, what})
		}
	}
	// ---- (c) aliasing ----
	alpha := gen.NewAlphabet()
	other, _ := hio.Formatter{Simple: false}.Marshal([]interface{}{"zzzzzzzzzzzzzzzz", "zzzzzzzzzzzzzzzz", []byte("yyyyyyyyyyyyyyyy"), map[string]interface{}{"zzzz": "yyyy"}})
	var nAlias int64
	for _, t := range gen.Universe(1, true) {
		for _, v := range alpha.Vals(t, 3) {
			for _, simple := range []bool{true, false} {
				var x interface{}
				if v.Kind() != reflect.Interface || !v.IsNil() {
					x = v.Interface()
				}
				var data []byte
				var err error
				if msg, _ := iocase.Guard(func() { data, err = hio.Formatter{Simple: simple}.Marshal(x) }); msg != "" || err != nil {
					continue
				}
				for _, entry := range []string{"bytes", "reader"} {
					p := reflect.New(t)
					buf := append([]byte{}, data...)
					var derr error
					msg, _ := iocase.Guard(func() {
						if entry == "bytes" {
							derr = hio.Formatter{Simple: simple}.Unmarshal(buf, p.Interface())
						} else {
							derr = hio.Formatter{Simple: simple}.UnmarshalFromReader(&chunkReader{buf, 7}, p.Interface())
						}
					})
					if msg != "" || derr != nil {
						continue
					}
					before := gen.Canon(p.Elem())
					for i := range buf {
						buf[i] = 0xEE
					}
					// recycle pooled coders on other data
					for k := 0; k < 3; k++ {
						var junk interface{}
						hio.Formatter{Simple: false}.Unmarshal(other, &junk)
						hio.Formatter{Simple: false}.UnmarshalFromReader(&chunkReader{append([]byte{}, other...), 5}, &junk)
						hio.Formatter{Simple: false}.Marshal(junk)
					}
					after := gen.Canon(p.Elem())
					nAlias++
					if before != after {
						add(fmt.Sprintf("aliasing|decoded-value-changes-when-input-is-overwritten|entry=%s|type=%s", entry, t),
							fmt.Sprintf("type %s simple=%v via %s: decoded %s; after overwriting the input buffer and reusing pooled coders it reads %s", t, simple, entry, trunc(before), trunc(after)))
					}
				}
			}
		}
	}
	o.Evaluations += nAlias
	o.Info["aliasing_cases"] = nAlias
	// ---- (c2) two decodes of the same bytes are independent values: the first result is scribbled over (big
	// numbers set to other numbers, slice elements overwritten, maps emptied), then the same bytes are decoded
	// again; the second result must be what the first one was. A decoder that hands out shared package-level
	// values (or anything a recycled coder keeps) fails this.
	tokens := []string{"t", "f", "e", "n", "0", "1", "9", "i7;", "l12345678901234567890;", "d1.5;", "d3;", `s2"12"`, "u1", `b2"ab"`, "a2{12}", "a2{tf}", "m1{uat}", `s3"1/3"`, "I+", "N"}
	dests := []interface{}{
		big.Int{}, (*big.Int)(nil), big.Float{}, (*big.Float)(nil), big.Rat{}, (*big.Rat)(nil), []byte(nil), []int(nil), (*int)(nil), (*string)(nil),
		[]*big.Int(nil), map[string]*big.Int(nil), []big.Rat(nil), [2]*big.Float{}, struct{ A, B *big.Int }{}, new(interface{}), []interface{}(nil),
	}
	var nIndep int64
	for _, tok := range tokens {
		for _, d := range dests {
			t := reflect.TypeOf(d)
			if t.Kind() == reflect.Ptr && t.Elem().Kind() == reflect.Interface {
				t = t.Elem()
			}
			for _, simple := range []bool{true, false} {
				p1, p2 := reflect.New(t), reflect.New(t)
				var e1, e2 error
				msg, _ := iocase.Guard(func() { e1 = hio.Formatter{Simple: simple}.Unmarshal([]byte(tok), p1.Interface()) })
				if msg != "" || e1 != nil {
					continue
				}
				before := gen.Canon(p1.Elem())
				msg, _ = iocase.Guard(func() { scribble(p1.Elem(), 0) })
				if msg != "" {
					add("independence|scribble-panics|dest="+t.String(), fmt.Sprintf("token %q into %s: changing the decoded value panics: %s", tok, t, msg))
					continue
				}
				msg, _ = iocase.Guard(func() { e2 = hio.Formatter{Simple: simple}.Unmarshal([]byte(tok), p2.Interface()) })
				nIndep++
				if msg != "" || e2 != nil {
					add("independence|second-decode-fails|dest="+t.String(), fmt.Sprintf("token %q into %s: the first decode succeeded, after changing its result the second one fails: %v %s", tok, t, e2, msg))
					continue
				}
				if after := gen.Canon(p2.Elem()); after != before {
					add("independence|second-decode-sees-changes-made-to-the-first-result|dest="+t.String(),
						fmt.Sprintf("token %q into %s (simple=%v): first decode gave %s; after the caller changed that value, decoding the same bytes again gives %s", tok, t, simple, trunc(before), trunc(after)))
				}
			}
		}
	}
	o.Evaluations += nIndep
	o.Info["independence_cases"] = nIndep
	// ---- (e) registration histories: every sequence of up to four operations out of {register the inner type
	// with its tag, register the outer type with its tag, register the inner type without tags, use the inner type,
	// use the outer type}, followed by
	// the registration of both (in either order), leaves the coders in the state that the registration alone
	// produces: same bytes, fields preserved by a round trip. A registry that answers from what an earlier
	// use has cached (the field map of the inner type built without the tag when the outer type was
	// registered first) fails this.
	hio.VerifSnapshotRegistries()
	regOps := []struct {
		name string
		run  func()
	}{
		{"register-inner", func() { hio.Register((*regInner)(nil), "custom") }},
		{"register-outer", func() { hio.Register((*regOuter)(nil), "custom") }},
		{"register-inner-without-tags", func() { hio.Register((*regInner)(nil)) }},
		{"use-inner", func() {
			b, _ := hio.Marshal(regInner{"u"})
			var v regInner
			hio.Unmarshal(b, &v)
		}},
		{"use-outer", func() {
			b, _ := hio.Marshal(&regOuter{regInner{"u"}, &regInner{"v"}})
			var v *regOuter
			hio.Unmarshal(b, &v)
		}},
	}
	observe := func() string {
		bi, e1 := hio.Marshal(regInner{"x"})
		bo, e2 := hio.Marshal(&regOuter{regInner{"y"}, &regInner{"z"}})
		var vi regInner
		var vo *regOuter
		e3 := hio.Unmarshal(bi, &vi)
		e4 := hio.Unmarshal(bo, &vo)
		back := "outer lost"
		if vo != nil && vo.P != nil {
			back = vo.In.Name + "," + vo.P.Name
		}
		return fmt.Sprintf("inner=%q outer=%q errors=%v,%v,%v,%v round-trip: inner.Name=%q outer.In.Name,outer.P.Name=%q", bi, bo, e1, e2, e3, e4, vi.Name, back)
	}
	var nReg int64
	for _, closing := range [][]int{{0, 1}, {1, 0}} {
		hio.VerifResetRegistries()
		for _, c := range closing {
			regOps[c].run()
		}
		ref := observe()
		if !strings.Contains(ref, `inner.Name="x"`) || !strings.Contains(ref, `"y,z"`) {
			add("registry|round-trip-loses-a-field-after-registration", fmt.Sprintf("registration %v alone: %s", closing, ref))
		}
		var seq []int
		var rec func()
		rec = func() {
			hio.VerifResetRegistries()
			var names []string
			for _, x := range seq {
				regOps[x].run()
				names = append(names, regOps[x].name)
			}
			for _, c := range closing {
				regOps[c].run()
				names = append(names, regOps[c].name)
			}
			nReg++
			if got := observe(); got != ref {
				add("registry|state-after-registration-depends-on-earlier-uses", fmt.Sprintf("history %v: %s; the final registrations alone give %s", names, got, ref))
			}
			if len(seq) == 4 {
				return
			}
			for x := range regOps {
				seq = append(seq, x)
				rec()
				seq = seq[:len(seq)-1]
			}
		}
		rec()
	}
	hio.VerifResetRegistries()
	o.Evaluations += nReg
	o.Info["registration_histories"] = nReg
	// ---- (d) free-running race pass ----
	hio.VerifSnapshotRegistries()
	rounds := 300
	want := map[string]string{}
	bodies := map[string]func() string{
		"marshalA": func() string {
			b := &B{7, "seven"}
			r, _ := hio.Formatter{}.Marshal(A{b, B{8, "seven"}, "seven"})
			return string(r)
		},
		"marshalB": func() string { r, _ := hio.Formatter{}.Marshal(B{9, "nine"}); return string(r) },
		"marshalR": func() string { x := &R{V: 1}; x.Next = &R{2, x}; r, _ := hio.Formatter{}.Marshal(x); return string(r) },
		"unmarshalA": func() string {
			var a A
			err := hio.Formatter{}.Unmarshal([]byte(`c1"A"3{s2"pB"s2"vB"s1"n"}o0{c1"B"2{s1"x"s1"s"}o1{7s5"seven"}o1{8r7;}r7;}`), &a)
			if err != nil || a.PB == nil {
				return fmt.Sprint("ERR ", err)
			}
			return fmt.Sprint(*a.PB, a.VB, a.N)
		},
	}
	for n, f := range bodies {
		hio.VerifResetRegistries()
		want[n] = f()
	}
	names := []string{"marshalA", "marshalB", "marshalR", "unmarshalA", "marshalA", "unmarshalA"}
	for r := 0; r < rounds; r++ {
		hio.VerifResetRegistries()
		var wg sync.WaitGroup
		got := make([]string, len(names))
		start := make(chan struct{})
		for i, n := range names {
			wg.Add(1)
			go func(i int, n string) {
				defer wg.Done()
				<-start
				got[i] = bodies[n]()
			}(i, n)
		}
		close(start)
		wg.Wait()
		for i, n := range names {
			if got[i] != want[n] {
				add("free-running|wrong-result|"+n, fmt.Sprintf("round %d: %s produced %q, alone %q", r, n, got[i], want[n]))
			}
		}
		o.Evaluations++
	}
	o.Info["race_rounds"] = rounds
	o.Info["race_detector"] = "enabled (a detected race aborts this process with exit status 66)"
	json.NewEncoder(os.Stdout).Encode(o)
}

// scribble changes everything reachable from v that a caller could legitimately change in place.
func scribble(v reflect.Value, depth int) {
	if !v.IsValid() || depth > 6 {
		return
	}
	if v.CanAddr() {
		switch x := v.Addr().Interface().(type) {
		case *big.Int:
			x.SetInt64(7777)
			return
		case *big.Float:
			x.SetFloat64(7777.5)
			return
		case *big.Rat:
			x.SetFrac64(7777, 13)
			return
		}
	}
	switch v.Kind() {
	case reflect.Ptr, reflect.Interface:
		if !v.IsNil() {
			e := v.Elem()
			if v.Kind() == reflect.Interface && e.Kind() != reflect.Ptr && e.Kind() != reflect.Slice && e.Kind() != reflect.Map {
				return // a value boxed in an interface is not addressable: nothing to change in place
			}
			scribble(e, depth+1)
		}
	case reflect.Slice, reflect.Array:
		for i := 0; i < v.Len(); i++ {
			scribble(v.Index(i), depth+1)
		}
	case reflect.Map:
		for _, k := range v.MapKeys() {
			e := v.MapIndex(k)
			if e.Kind() == reflect.Ptr || e.Kind() == reflect.Slice || e.Kind() == reflect.Map || e.Kind() == reflect.Interface {
				scribble(e, depth+1)
			}
			v.SetMapIndex(k, reflect.Value{})
		}
	case reflect.Struct:
		for i := 0; i < v.NumField(); i++ {
			if v.Field(i).CanSet() {
				scribble(v.Field(i), depth+1)
			}
		}
	case reflect.Int, reflect.Int8, reflect.Int16, reflect.Int32, reflect.Int64:
		if v.CanSet() {
			v.SetInt(0x5a)
		}
	case reflect.Uint, reflect.Uint8, reflect.Uint16, reflect.Uint32, reflect.Uint64:
		if v.CanSet() {
			v.SetUint(0x5a)
		}
	case reflect.Float32, reflect.Float64:
		if v.CanSet() {
			v.SetFloat(90.5)
		}
	}
}

type chunkReader struct {
	b []byte
	n int
}

func (c *chunkReader) Read(p []byte) (int, error) {
	if len(c.b) == 0 {
		return 0, fmt.Errorf("EOF")
	}
	n := c.n
	if n > len(p) {
		n = len(p)
	}
	if n > len(c.b) {
		n = len(c.b)
	}
	copy(p, c.b[:n])
	c.b = c.b[n:]
	return n, nil
}

func trunc(s string) string {
	if len(s) > 200 {
		return s[:200] + "..."
	}
	return s
}
