// Package corpus builds the finite input spaces shared by the decoder-robustness check (C04) and the
// streaming-equivalence check (C05): the symbol alphabet Sigma taken from the decoder's switch labels, a
// corpus of valid streams encoded from the gen universe, and the mutation operators over them. Everything
// is a total, deterministic enumeration; nothing is sampled.
package corpus

import (
	"reflect"
	"sort"

	"verif/mc/gen"
	"verif/mc/iocase"
)

// Sigma is the symbol alphabet: every Hprose serialisation tag, the marks, four digits, one byte that is no
// tag at all, a 3-byte UTF-8 lead byte with one of its trail bytes, a 4-byte lead byte with a trail byte, and 0xFF.
var Sigma = []byte{
	'0', '1', '2', '9',
	'i', 'l', 'd', 'N', 'I', 'n', 'e', 't', 'f', 'D', 'T', 'b', 'u', 's', 'g', 'a', 'm', 'c', 'o', 'r', 'E',
	';', '"', '{', '}', '-', '+', '.', 'Z',
	'x', 0xE4, 0xBD, 0xFF,
	0xF0, 0x9F, // lead byte of a 4-byte character (counts two UTF-16 units) and a trail byte of it
}

// SigmaIns is the reduced insertion alphabet of the quick tier.
var SigmaIns = []byte{'0', '9', 'a', 'm', 's', 'r', 'o', '"', '{', 0xE4}

var inSigma = func() (t [256]bool) {
	for _, b := range Sigma {
		t[b] = true
	}
	return
}()

// OverSigma reports whether every byte of s is a symbol of Sigma.
func OverSigma(s []byte) bool {
	for _, b := range s {
		if !inSigma[b] {
			return false
		}
	}
	return true
}

// SigmaCount returns the number of strings over Sigma of length <= maxLen (including the empty string).
func SigmaCount(maxLen int) int {
	n, p := 0, 1
	for l := 0; l <= maxLen; l++ {
		n += p
		p *= len(Sigma)
	}
	return n
}

// SigmaString returns string number idx in the length-then-lexicographic enumeration of Sigma^{<=maxLen}.
func SigmaString(idx int) []byte {
	p := 1
	l := 0
	for idx >= p {
		idx -= p
		p *= len(Sigma)
		l++
	}
	out := make([]byte, l)
	for i := l - 1; i >= 0; i-- {
		out[i] = Sigma[idx%len(Sigma)]
		idx /= len(Sigma)
	}
	return out
}

// Stream is one valid serialisation together with the typed value it came from.
type Stream struct {
	Type   reflect.Type
	Val    reflect.Value
	ValIdx int
	Simple bool
	Bytes  []byte
}

// Build encodes the first values of every type of gen.Universe(1, true) in both modes and keeps the distinct
// byte strings of 2..maxLen bytes, at most perType per type, ordered by type then value then mode.
func Build(alpha *gen.Alphabet, maxLen, perType int) []Stream {
	var out []Stream
	seen := map[string]bool{}
	for _, t := range gen.Universe(1, true) {
		n := 0
		for vi, v := range alpha.Vals(t, 3) {
			if n >= perType {
				break
			}
			if !orderFree(v, 0) {
				continue // a map with two or more entries is written in a different order on every run
			}
			var x interface{}
			if v.Kind() != reflect.Interface || !v.IsNil() {
				x = v.Interface()
			}
			for _, simple := range []bool{true, false} {
				var data []byte
				var err error
				msg, _ := iocase.Guard(func() { data, err = iocase.Encode(iocase.Cfg{Entry: "coder", Simple: simple}, x) })
				if msg != "" || err != nil || len(data) < 2 || len(data) > maxLen || seen[string(data)] {
					continue
				}
				seen[string(data)] = true
				out = append(out, Stream{Type: t, Val: v, ValIdx: vi, Simple: simple, Bytes: append([]byte(nil), data...)})
				n++
			}
		}
	}
	return out
}

// orderFree reports whether the encoding of v does not depend on map iteration order.
func orderFree(v reflect.Value, depth int) bool {
	if !v.IsValid() || depth > 8 {
		return true
	}
	switch v.Kind() {
	case reflect.Ptr, reflect.Interface:
		if v.IsNil() {
			return true
		}
		return orderFree(v.Elem(), depth+1)
	case reflect.Map:
		if v.Len() > 1 {
			return false
		}
		it := v.MapRange()
		for it.Next() {
			if !orderFree(it.Key(), depth+1) || !orderFree(it.Value(), depth+1) {
				return false
			}
		}
	case reflect.Slice, reflect.Array:
		for i := 0; i < v.Len(); i++ {
			if !orderFree(v.Index(i), depth+1) {
				return false
			}
		}
	case reflect.Struct:
		if v.Type().PkgPath() != "verif/mc/gen" && v.Type().Name() != "" {
			return true // time.Time, big.Int, uuid, list.List: no maps inside (lists of the alphabet hold none)
		}
		for i := 0; i < v.NumField(); i++ {
			if !orderFree(v.Field(i), depth+1) {
				return false
			}
		}
	}
	return true
}

// Mutations returns the single-edit neighbourhood of s: every proper truncation, every single-byte
// deletion, every substitution by a symbol of Sigma and every insertion of a symbol of ins, without
// duplicates and without s itself, in a deterministic order.
func Mutations(s []byte, ins []byte) [][]byte {
	seen := map[string]bool{string(s): true}
	var out [][]byte
	add := func(b []byte) {
		if !seen[string(b)] {
			seen[string(b)] = true
			out = append(out, b)
		}
	}
	for i := 0; i < len(s); i++ {
		add(append([]byte(nil), s[:i]...))
	}
	for i := 0; i < len(s); i++ {
		b := append(append([]byte(nil), s[:i]...), s[i+1:]...)
		add(b)
	}
	for i := 0; i < len(s); i++ {
		for _, c := range Sigma {
			b := append([]byte(nil), s...)
			b[i] = c
			add(b)
		}
	}
	for i := 0; i <= len(s); i++ {
		for _, c := range ins {
			b := make([]byte, 0, len(s)+1)
			b = append(append(append(b, s[:i]...), c), s[i:]...)
			add(b)
		}
	}
	return out
}

// TruncDel returns every proper truncation and every single-byte deletion of s (the first part of Mutations).
func TruncDel(s []byte) [][]byte {
	seen := map[string]bool{string(s): true}
	var out [][]byte
	add := func(b []byte) {
		if !seen[string(b)] {
			seen[string(b)] = true
			out = append(out, b)
		}
	}
	for i := 0; i < len(s); i++ {
		add(append([]byte(nil), s[:i]...))
	}
	for i := 0; i < len(s); i++ {
		add(append(append([]byte(nil), s[:i]...), s[i+1:]...))
	}
	return out
}

// NumRun is a maximal run of ASCII digits of a stream that is a count, a length or an index according to
// the grammar: it follows one of the tags a m s b o c r i l, or it precedes '{' or '"'.
type NumRun struct {
	Lo, Hi int  // s[Lo:Hi] are the digits
	Tag    byte // the byte before the run (0 at the start of the stream)
}

// NumRuns finds the grammar-relevant digit runs of s.
func NumRuns(s []byte) []NumRun {
	var out []NumRun
	for i := 0; i < len(s); {
		if s[i] < '0' || s[i] > '9' {
			i++
			continue
		}
		j := i
		for j < len(s) && s[j] >= '0' && s[j] <= '9' {
			j++
		}
		var tag byte
		if i > 0 {
			tag = s[i-1]
		}
		after := byte(0)
		if j < len(s) {
			after = s[j]
		}
		switch {
		case tag == 'a' || tag == 'm' || tag == 's' || tag == 'b' || tag == 'o' || tag == 'c' || tag == 'r' || tag == 'i' || tag == 'l',
			after == '{' || after == '"':
			out = append(out, NumRun{i, j, tag})
		}
		i = j
	}
	return out
}

// NumValues returns the replacement texts for a digit run whose current text is cur.
func NumValues(cur string) []string {
	vals := []string{"0", "1"}
	n := int64(0)
	ok := len(cur) <= 18
	for _, c := range cur {
		n = n*10 + int64(c-'0')
	}
	if ok {
		vals = append(vals, itoa(n-1), itoa(n+1))
	}
	vals = append(vals, "2147483647", "2147483648", "9223372036854775807", "100000000000", "10000000000000000000", "-1",
		"3074457345618258603", "6148914691236517206") // 2^63/3 and 2^64/3 rounded up: a length that overflows when tripled
	seen := map[string]bool{cur: true}
	var out []string
	for _, v := range vals {
		if !seen[v] {
			seen[v] = true
			out = append(out, v)
		}
	}
	return out
}

func itoa(n int64) string {
	if n == 0 {
		return "0"
	}
	neg := n < 0
	if neg {
		n = -n
	}
	var b []byte
	for n > 0 {
		b = append([]byte{byte('0' + n%10)}, b...)
		n /= 10
	}
	if neg {
		b = append([]byte{'-'}, b...)
	}
	return string(b)
}

// Huge reports whether a replacement value announces more than any small input can back up.
func Huge(v string) bool {
	return len(v) >= 10 && v[0] != '-'
}

// NumMutation is one grammar-aware numeric mutation of a stream.
type NumMutation struct {
	Bytes []byte
	Tag   byte   // tag owning the number
	Value string // replacement text
}

// NumMutations returns every replacement of every grammar-relevant digit run of s.
func NumMutations(s []byte) []NumMutation {
	var out []NumMutation
	for _, r := range NumRuns(s) {
		for _, v := range NumValues(string(s[r.Lo:r.Hi])) {
			b := make([]byte, 0, len(s)+len(v))
			b = append(append(append(b, s[:r.Lo]...), v...), s[r.Hi:]...)
			out = append(out, NumMutation{b, r.Tag, v})
		}
	}
	return out
}

// SortedKeys returns the keys of a string set in order.
func SortedKeys(m map[string]bool) []string {
	out := make([]string, 0, len(m))
	for k := range m {
		out = append(out, k)
	}
	sort.Strings(out)
	return out
}

// TagSeq is the sequence of tags owning the grammar-relevant numbers of s; TagSet the set of them.
func TagSeq(s []byte) string {
	var out []byte
	for _, r := range NumRuns(s) {
		out = append(out, r.Tag)
	}
	return string(out)
}

func TagSet(s []byte) string {
	m := map[string]bool{}
	for _, r := range NumRuns(s) {
		m[string(r.Tag)] = true
	}
	out := ""
	for _, k := range SortedKeys(m) {
		out += k
	}
	return out
}

// FirstPer returns the first stream of every class of key.
func FirstPer(cs []Stream, key func([]byte) string) []Stream {
	seen := map[string]bool{}
	var out []Stream
	for _, s := range cs {
		k := key(s.Bytes)
		if k == "" || seen[k] {
			continue
		}
		seen[k] = true
		out = append(out, s)
	}
	return out
}
