package gen

import (
	"fmt"
	"reflect"
)

// Bisimilar reports whether two Go values have the same unfolding (the same infinite tree when pointers,
// maps and slices are followed), with the normalisations of Canon (nil == empty containers, pointer
// chains collapse, numeric widths are abstracted inside interface{} slots, leaves compared by Canon). It
// returns "" or a path to the first difference. Sharing (pointer identity) is not compared.
func Bisimilar(a, b reflect.Value) string {
	type pair struct {
		a, b uintptr
		t    reflect.Type
	}
	assumed := map[pair]bool{}
	var walk func(a, b reflect.Value, path string, depth int) string
	strip := func(v reflect.Value) (reflect.Value, uintptr) {
		var last uintptr
		for v.IsValid() && (v.Kind() == reflect.Ptr || v.Kind() == reflect.Interface) {
			if v.IsNil() {
				return reflect.Value{}, 0
			}
			if v.Kind() == reflect.Ptr {
				last = v.Pointer()
			}
			v = v.Elem()
		}
		return v, last
	}
	emptyish := func(v reflect.Value) bool {
		if !v.IsValid() {
			return true
		}
		switch v.Kind() {
		case reflect.Slice, reflect.Map:
			return v.Len() == 0
		case reflect.Array:
			return v.Len() == 0
		case reflect.Struct:
			return v.Type().Name() == "" && len(Fields(v.Type())) == 0
		}
		return false
	}
	walk = func(a, b reflect.Value, path string, depth int) string {
		if depth > 10000 {
			return path + ": recursion limit"
		}
		a, pa := strip(a)
		b, pb := strip(b)
		if !a.IsValid() || !b.IsValid() {
			if emptyish(a) && emptyish(b) {
				return ""
			}
			return fmt.Sprintf("%s: nil vs non-nil (%s | %s)", path, trunc80(canonOrNil(a)), trunc80(canonOrNil(b)))
		}
		if pa != 0 && pb != 0 {
			k := pair{pa, pb, a.Type()}
			if assumed[k] {
				return ""
			}
			assumed[k] = true
		}
		ka, kb := a.Kind(), b.Kind()
		isLeaf := func(v reflect.Value) bool {
			switch v.Type() {
			case tTime, tBigInt, tBigFloat, tBigRat, tList:
				return true
			}
			switch v.Kind() {
			case reflect.Struct, reflect.Map:
				return false
			case reflect.Slice, reflect.Array:
				return v.Type().Elem().Kind() == reflect.Uint8
			}
			return true
		}
		if isLeaf(a) || isLeaf(b) {
			if ca, cb := Canon(a), Canon(b); ca != cb {
				return fmt.Sprintf("%s: %s vs %s", path, trunc80(ca), trunc80(cb))
			}
			return ""
		}
		switch {
		case (ka == reflect.Slice || ka == reflect.Array) && (kb == reflect.Slice || kb == reflect.Array):
			if a.Len() != b.Len() {
				return fmt.Sprintf("%s: length %d vs %d", path, a.Len(), b.Len())
			}
			if ka == reflect.Slice && kb == reflect.Slice && a.Len() > 0 {
				k := pair{a.Pointer(), b.Pointer(), a.Type()}
				if assumed[k] {
					return ""
				}
				assumed[k] = true
			}
			for i := 0; i < a.Len(); i++ {
				if d := walk(a.Index(i), b.Index(i), fmt.Sprintf("%s[%d]", path, i), depth+1); d != "" {
					return d
				}
			}
			return ""
		case ka == reflect.Map && kb == reflect.Map:
			if a.Len() != b.Len() {
				return fmt.Sprintf("%s: map size %d vs %d", path, a.Len(), b.Len())
			}
			if a.Len() > 0 {
				k := pair{a.Pointer(), b.Pointer(), a.Type()}
				if assumed[k] {
					return ""
				}
				assumed[k] = true
			}
			bk := map[string]reflect.Value{}
			it := b.MapRange()
			for it.Next() {
				bk[Canon(it.Key())] = it.Value()
			}
			it = a.MapRange()
			for it.Next() {
				kc := Canon(it.Key())
				bv, ok := bk[kc]
				if !ok {
					return fmt.Sprintf("%s: key %s missing", path, trunc80(kc))
				}
				if d := walk(it.Value(), bv, path+"{"+trunc80(kc)+"}", depth+1); d != "" {
					return d
				}
			}
			return ""
		case ka == reflect.Struct && kb == reflect.Struct:
			fa, fb := Fields(a.Type()), Fields(b.Type())
			if len(fa) != len(fb) || (a.Type().Name() != b.Type().Name()) {
				return fmt.Sprintf("%s: struct %s vs %s", path, a.Type(), b.Type())
			}
			for i := range fa {
				if fa[i].Alias != fb[i].Alias {
					return fmt.Sprintf("%s: field %s vs %s", path, fa[i].Alias, fb[i].Alias)
				}
				if d := walk(a.FieldByIndex(fa[i].Index), b.FieldByIndex(fb[i].Index), path+"."+fa[i].Alias, depth+1); d != "" {
					return d
				}
			}
			return ""
		case ka == reflect.Struct && kb == reflect.Map, ka == reflect.Map && kb == reflect.Struct:
			// an anonymous struct stands for a string-keyed map
			if ca, cb := Canon(a), Canon(b); ca != cb {
				return fmt.Sprintf("%s: %s vs %s", path, trunc80(ca), trunc80(cb))
			}
			return ""
		}
		return fmt.Sprintf("%s: kind %s vs %s", path, ka, kb)
	}
	return walk(a, b, "", 0)
}

func canonOrNil(v reflect.Value) string {
	if !v.IsValid() {
		return "nil"
	}
	return Canon(v)
}

func trunc80(s string) string {
	if len(s) > 80 {
		return s[:80] + "..."
	}
	return s
}
