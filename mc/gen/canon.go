package gen

import (
	"container/list"
	"fmt"
	"math"
	"math/big"
	"reflect"
	"sort"
	"strconv"
	"strings"
	"time"
	"unicode/utf8"
)

var (
	tTime     = reflect.TypeOf(time.Time{})
	tBigInt   = reflect.TypeOf(big.Int{})
	tBigFloat = reflect.TypeOf(big.Float{})
	tBigRat   = reflect.TypeOf(big.Rat{})
	tList     = reflect.TypeOf(list.List{})
	tError    = reflect.TypeOf((*error)(nil)).Elem()
)

// Canon renders the abstract value a Go value stands for as a canonical string, applying exactly the
// normalisations the properties allow and nothing else:
//   - nil and empty slices / maps are interchangeable; a pointer chain that ends in nil is nil;
//   - a time keeps its instant and whether its location is UTC, no other zone information;
//   - NaN equals NaN; +0 and -0 differ;
//   - integers are mathematical integers, float32 is the shortest decimal that round-trips in 32 bits
//     (this only matters inside interface{} slots, where the dynamic type is chosen by the decoder);
//   - a string that is not valid UTF-8 stands for its bytes; byte slices and byte arrays are bytes;
//   - complex with zero imaginary part (+0 or -0: they are equal in Go) is its real part, otherwise a 2-list;
//   - named structs are objects (type name + aliased fields), anonymous structs are string-keyed maps;
//   - map entries are unordered.
//
// Pointer cycles are cut with a back-reference to the depth of the object on the current path.
func Canon(v reflect.Value) string {
	var sb strings.Builder
	canon(&sb, v, nil)
	return sb.String()
}

func CanonOf(x interface{}) string {
	if x == nil {
		return "nil"
	}
	return Canon(reflect.ValueOf(x))
}

func fstr(f float64) string {
	switch {
	case math.IsNaN(f):
		return "f(NaN)"
	case f == 0 && math.Signbit(f):
		return "f(-0)"
	}
	return "f(" + strconv.FormatFloat(f, 'g', -1, 64) + ")"
}

func widen32(f float32) float64 {
	if math.IsNaN(float64(f)) || math.IsInf(float64(f), 0) {
		return float64(f)
	}
	x, _ := strconv.ParseFloat(strconv.FormatFloat(float64(f), 'g', -1, 32), 64)
	return x
}

func fieldAlias(f reflect.StructField) string {
	for _, key := range []string{"hprose", "json"} {
		tag := f.Tag.Get(key)
		if i := strings.Index(tag, ","); i >= 0 {
			tag = tag[:i]
		}
		if tag = strings.Trim(tag, " "); tag != "" {
			return tag
		}
	}
	n := f.Name
	if n[0] >= 'A' && n[0] <= 'Z' {
		n = string(n[0]-'A'+'a') + n[1:]
	}
	return n
}

// Fields lists the serialised fields of a struct type (alias, index path), embedded structs flattened.
type FieldRef struct {
	Alias string
	Index []int
}

func Fields(t reflect.Type) []FieldRef {
	var out []FieldRef
	var walk func(t reflect.Type, prefix []int)
	walk = func(t reflect.Type, prefix []int) {
		for i := 0; i < t.NumField(); i++ {
			f := t.Field(i)
			idx := append(append([]int{}, prefix...), i)
			switch f.Type.Kind() {
			case reflect.Func, reflect.Chan, reflect.UnsafePointer:
				continue
			case reflect.Struct:
				if f.Anonymous {
					walk(f.Type, idx)
					continue
				}
			}
			if f.PkgPath != "" {
				continue
			}
			a := fieldAlias(f)
			if a == "-" {
				continue
			}
			out = append(out, FieldRef{a, idx})
		}
	}
	walk(t, nil)
	return out
}

type pathEntry struct {
	p uintptr
	t reflect.Type
}

func canon(sb *strings.Builder, v reflect.Value, path []pathEntry) {
	if !v.IsValid() {
		sb.WriteString("nil")
		return
	}
	t := v.Type()
	// special struct types first
	switch t {
	case tTime:
		tm := v.Interface().(time.Time)
		fmt.Fprintf(sb, "time(%d.%09d,utc=%v)", tm.Unix(), tm.Nanosecond(), tm.Location() == time.UTC)
		return
	case tBigInt:
		x := v.Interface().(big.Int)
		sb.WriteString("int(" + x.String() + ")")
		return
	case tBigFloat:
		x := v.Interface().(big.Float)
		f, _ := x.Float64()
		sb.WriteString(fstr(f))
		return
	case tBigRat:
		x := v.Interface().(big.Rat)
		if x.IsInt() {
			sb.WriteString("int(" + x.Num().String() + ")")
		} else {
			sb.WriteString("str(" + strconv.Quote(x.String()) + ")")
		}
		return
	case tList:
		if v.CanAddr() {
			l := v.Addr().Interface().(*list.List)
			sb.WriteString("[")
			for e := l.Front(); e != nil; e = e.Next() {
				if e.Value == nil {
					sb.WriteString("nil")
				} else {
					canon(sb, reflect.ValueOf(e.Value), path)
				}
				sb.WriteString(",")
			}
			sb.WriteString("]")
			return
		}
		cp := reflect.New(t)
		cp.Elem().Set(v)
		canon(sb, cp.Elem(), path)
		return
	}
	switch v.Kind() {
	case reflect.Bool:
		fmt.Fprintf(sb, "bool(%v)", v.Bool())
	case reflect.Int, reflect.Int8, reflect.Int16, reflect.Int32, reflect.Int64:
		fmt.Fprintf(sb, "int(%d)", v.Int())
	case reflect.Uint, reflect.Uint8, reflect.Uint16, reflect.Uint32, reflect.Uint64, reflect.Uintptr:
		fmt.Fprintf(sb, "int(%d)", v.Uint())
	case reflect.Float32:
		sb.WriteString(fstr(widen32(float32(v.Float()))))
	case reflect.Float64:
		sb.WriteString(fstr(v.Float()))
	case reflect.Complex64, reflect.Complex128:
		c := v.Complex()
		re, im := real(c), imag(c)
		if v.Kind() == reflect.Complex64 {
			re, im = widen32(float32(re)), widen32(float32(im))
		}
		if im == 0 {
			sb.WriteString(fstr(re))
		} else {
			sb.WriteString("[" + fstr(re) + "," + fstr(im) + ",]")
		}
	case reflect.String:
		s := v.String()
		if utf8.ValidString(s) {
			sb.WriteString("str(" + strconv.Quote(s) + ")")
		} else {
			fmt.Fprintf(sb, "bytes(%x)", s)
		}
	case reflect.Ptr:
		if v.IsNil() {
			sb.WriteString("nil")
			return
		}
		p := v.Pointer()
		for i := len(path) - 1; i >= 0; i-- {
			if path[i].p == p && path[i].t == t {
				fmt.Fprintf(sb, "cycle^%d", len(path)-i)
				return
			}
		}
		canon(sb, v.Elem(), append(path, pathEntry{p, t}))
	case reflect.Interface:
		if v.IsNil() {
			sb.WriteString("nil")
			return
		}
		canon(sb, v.Elem(), path)
	case reflect.Slice:
		if v.Type().Elem().Kind() == reflect.Uint8 {
			if v.Len() == 0 {
				sb.WriteString("nil")
			} else {
				fmt.Fprintf(sb, "bytes(%x)", v.Bytes())
			}
			return
		}
		if v.Len() == 0 {
			sb.WriteString("nil")
			return
		}
		p := v.Pointer()
		for i := len(path) - 1; i >= 0; i-- {
			if path[i].p == p && path[i].t == t {
				fmt.Fprintf(sb, "cycle^%d", len(path)-i)
				return
			}
		}
		path = append(path, pathEntry{p, t})
		sb.WriteString("[")
		for i := 0; i < v.Len(); i++ {
			canon(sb, v.Index(i), path)
			sb.WriteString(",")
		}
		sb.WriteString("]")
	case reflect.Array:
		if v.Type().Elem().Kind() == reflect.Uint8 {
			b := make([]byte, v.Len())
			for i := range b {
				b[i] = byte(v.Index(i).Uint())
			}
			if len(b) == 0 {
				sb.WriteString("nil")
			} else {
				fmt.Fprintf(sb, "bytes(%x)", b)
			}
			return
		}
		if v.Len() == 0 {
			sb.WriteString("nil")
			return
		}
		sb.WriteString("[")
		for i := 0; i < v.Len(); i++ {
			canon(sb, v.Index(i), path)
			sb.WriteString(",")
		}
		sb.WriteString("]")
	case reflect.Map:
		if v.Len() == 0 {
			sb.WriteString("nil")
			return
		}
		p := v.Pointer()
		for i := len(path) - 1; i >= 0; i-- {
			if path[i].p == p && path[i].t == t {
				fmt.Fprintf(sb, "cycle^%d", len(path)-i)
				return
			}
		}
		path = append(path, pathEntry{p, t})
		ents := make([]string, 0, v.Len())
		it := v.MapRange()
		for it.Next() {
			var e strings.Builder
			canon(&e, it.Key(), path)
			e.WriteString(":")
			canon(&e, it.Value(), path)
			ents = append(ents, e.String())
		}
		sort.Strings(ents)
		sb.WriteString("map{" + strings.Join(ents, ",") + "}")
	case reflect.Struct:
		if reflect.PtrTo(t).Implements(tError) && t.Name() != "" && false {
			return
		}
		fs := Fields(t)
		if t.Name() == "" {
			if len(fs) == 0 {
				sb.WriteString("nil")
				return
			}
			ents := make([]string, 0, len(fs))
			for _, f := range fs {
				var e strings.Builder
				e.WriteString("str(" + strconv.Quote(f.Alias) + "):")
				canon(&e, v.FieldByIndex(f.Index), path)
				ents = append(ents, e.String())
			}
			sort.Strings(ents)
			sb.WriteString("map{" + strings.Join(ents, ",") + "}")
			return
		}
		sb.WriteString("obj " + t.Name() + "{")
		for _, f := range fs {
			sb.WriteString(f.Alias + ":")
			canon(sb, v.FieldByIndex(f.Index), path)
			sb.WriteString(",")
		}
		sb.WriteString("}")
	default:
		fmt.Fprintf(sb, "?%s", t)
	}
}

// Profile describes what a value needs from the decoder settings for the parts of it that end up in
// interface{} destinations (where the decoder, not the destination type, chooses the Go type).
type Profile struct {
	LongNeg, LongAboveInt64 bool // an integer outside int32 range in an interface slot: negative / > MaxInt64
	LongBeyond64            bool // an integer that neither int64 nor uint64 can hold
	NilInIfaceList          bool // a nil element in a list held by an interface slot (ListTypeSlice would turn it into a zero value)
	YearOutOfRange          bool // a time whose year the four-digit date form cannot express (anywhere in the value)
	NonF32Double            bool // a double in an interface slot that float32 cannot hold exactly
	NaNOrInf                bool
	NonStringKeyMap         bool // a map with a non-string key in an interface slot
	BigInt                  bool
}

func isNilish(v reflect.Value) bool {
	for {
		switch v.Kind() {
		case reflect.Ptr, reflect.Interface:
			if v.IsNil() {
				return true
			}
			v = v.Elem()
		case reflect.Slice, reflect.Map:
			return v.IsNil()
		default:
			return !v.IsValid()
		}
	}
}

func ProfileOf(v reflect.Value) Profile {
	var p Profile
	profile(&p, v, false, map[pathEntry]bool{})
	return p
}

func profile(p *Profile, v reflect.Value, inIface bool, seen map[pathEntry]bool) {
	if !v.IsValid() {
		return
	}
	t := v.Type()
	long := func(neg bool, above bool) {
		if inIface {
			p.LongNeg = p.LongNeg || neg
			p.LongAboveInt64 = p.LongAboveInt64 || above
		}
	}
	dbl := func(f float64) {
		if !inIface {
			return
		}
		if math.IsNaN(f) || math.IsInf(f, 0) {
			p.NaNOrInf = true
		} else if float64(float32(f)) != f || widen32(float32(f)) != f {
			p.NonF32Double = true
		}
	}
	switch t {
	case tTime:
		if y := v.Interface().(time.Time).Year(); y < 0 || y > 9999 {
			p.YearOutOfRange = true
		}
		return
	case tBigInt:
		x := v.Interface().(big.Int)
		if inIface {
			p.BigInt = true
			if !x.IsInt64() && !x.IsUint64() {
				p.LongBeyond64 = true
			}
			if !x.IsInt64() || x.Int64() < math.MinInt32 || x.Int64() > math.MaxInt32 {
				long(x.Sign() < 0, !x.IsInt64() && x.Sign() > 0)
				if !x.IsInt64() && x.Sign() < 0 {
					p.LongAboveInt64 = true // below MinInt64: only big.Int holds it
				}
			}
		}
		return
	case tBigFloat:
		x := v.Interface().(big.Float)
		f, acc := x.Float64()
		if acc != big.Exact && inIface {
			p.NonF32Double = true
		}
		dbl(f)
		return
	case tBigRat:
		x := v.Interface().(big.Rat)
		if x.IsInt() && inIface {
			n := x.Num()
			if !n.IsInt64() || n.Int64() < math.MinInt32 || n.Int64() > math.MaxInt32 {
				long(n.Sign() < 0, !n.IsInt64())
			}
		}
		return
	case tList:
		cp := reflect.New(t)
		cp.Elem().Set(v)
		l := cp.Interface().(*list.List)
		for e := l.Front(); e != nil; e = e.Next() {
			if e.Value != nil {
				profile(p, reflect.ValueOf(e.Value), true, seen)
			}
			if e.Value == nil || isNilish(reflect.ValueOf(e.Value)) {
				p.NilInIfaceList = true
			}
		}
		return
	}
	switch v.Kind() {
	case reflect.Int, reflect.Int8, reflect.Int16, reflect.Int32, reflect.Int64:
		if x := v.Int(); x < math.MinInt32 || x > math.MaxInt32 {
			long(x < 0, false)
		}
	case reflect.Uint, reflect.Uint8, reflect.Uint16, reflect.Uint32, reflect.Uint64, reflect.Uintptr:
		if x := v.Uint(); x > math.MaxInt32 {
			long(false, x > math.MaxInt64)
		}
	case reflect.Float32:
		f := float64(v.Float())
		if inIface && (math.IsNaN(f) || math.IsInf(f, 0)) {
			p.NaNOrInf = true
		}
	case reflect.Float64:
		dbl(v.Float())
	case reflect.Complex64:
		c := v.Complex()
		if inIface && (math.IsNaN(real(c)) || math.IsInf(real(c), 0) || math.IsNaN(imag(c)) || math.IsInf(imag(c), 0)) {
			p.NaNOrInf = true
		}
	case reflect.Complex128:
		dbl(real(v.Complex()))
		dbl(imag(v.Complex()))
	case reflect.Ptr:
		if v.IsNil() {
			return
		}
		k := pathEntry{v.Pointer(), t}
		if seen[k] {
			return
		}
		seen[k] = true
		profile(p, v.Elem(), inIface, seen)
	case reflect.Interface:
		if !v.IsNil() {
			profile(p, v.Elem(), true, seen)
		}
	case reflect.Slice, reflect.Array:
		if v.Kind() == reflect.Slice && v.Len() > 0 {
			k := pathEntry{v.Pointer(), t}
			if seen[k] {
				return
			}
			seen[k] = true
		}
		if t.Elem().Kind() == reflect.Uint8 {
			return
		}
		for i := 0; i < v.Len(); i++ {
			if e := v.Index(i); inIface && isNilish(e) {
				p.NilInIfaceList = true
			}
			profile(p, v.Index(i), inIface, seen)
		}
	case reflect.Map:
		if v.Len() > 0 {
			k := pathEntry{v.Pointer(), t}
			if seen[k] {
				return
			}
			seen[k] = true
		}
		it := v.MapRange()
		for it.Next() {
			if inIface {
				k := it.Key()
				for k.Kind() == reflect.Interface && !k.IsNil() {
					k = k.Elem()
				}
				if k.Kind() != reflect.String || !utf8.ValidString(k.String()) {
					p.NonStringKeyMap = true
				}
			}
			profile(p, it.Key(), inIface, seen)
			profile(p, it.Value(), inIface, seen)
		}
	case reflect.Struct:
		for _, f := range Fields(t) {
			profile(p, v.FieldByIndex(f.Index), inIface, seen)
		}
	}
}
