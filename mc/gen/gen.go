// Package gen enumerates the bounded type/value universe used by the serializer checks (C01-C07, C14):
// leaf types with boundary-value alphabets, closed under pointer, slice, array, map and struct
// constructors, with value alphabets derived from the structure of the type. Everything here is a total,
// deterministic enumeration of a finite set: no sampling.
package gen

import (
	"container/list"
	"fmt"
	"math"
	"math/big"
	"reflect"
	"sync"
	"time"

	"github.com/google/uuid"
)

// ---- named scalar and struct types (named types cannot be built with reflect) ----

type MyInt int
type MyInt8 int8
type MyUint16 uint16
type MyBool bool
type MyFloat float64
type MyString string
type MyBytes []byte
type MyIntSlice []int
type MyMap map[string]int

type Inner struct {
	A int
	B string
}
type Tagged struct {
	Name  string `hprose:"n"`
	Age   int    `json:"age,omitempty"`
	Skip  int    `hprose:"-"`
	priv  int
	Plain float64
}
type Embedded struct {
	Inner
	C bool
}
type EmbLate struct {
	Q int
	Inner
	Z string
}
type inner2 struct{ S string }
type EmbUnexported struct {
	Q, R int
	inner2
}
type inner3 struct {
	Tags []string
	P    *int
}

// EmbHidden gets its slice and pointer fields only through an embedded struct of an unexported type (they
// are serialised: the field walk recurses into every embedded struct). reflect cannot set such fields, so its
// values are hand-built leaves.
type EmbHidden struct {
	inner3
	Name string
}

func MakeEmbHidden(name string, p *int, tags ...string) EmbHidden {
	return EmbHidden{inner3{tags, p}, name}
}

type EmbDeep struct {
	X int8
	Embedded
	Y float64
}
type Rec struct {
	V    int
	Next *Rec
}
type TreeNode struct {
	Name string
	Kids []*TreeNode
	Attr map[string]*TreeNode
}
type OneField struct{ P *int }

// IfaceKey is comparable as a type but not always as a value: with a list or a map in K it cannot be hashed
type IfaceKey struct {
	K interface{}
	N int
}

// OneMap: like OneField a struct whose only field is pointer-shaped, so that the struct itself is stored
// directly in an interface word
type OneMap struct{ M map[string]int }
type Empty struct{}
type Wide struct {
	I8  int8
	U32 uint32
	PU  *uint32
	F32 float32
	S   string
	BS  []byte
	T   time.Time
	U   uuid.UUID
	BI  *big.Int
	IF  interface{}
	SS  []string
	M   map[string]interface{}
	In  Inner
	PI  *Inner
}

var UTC8 = time.FixedZone("UTC+8", 8*3600)

func rv(x interface{}) reflect.Value { return reflect.ValueOf(x) }

func vals[T any](xs ...T) []reflect.Value {
	out := make([]reflect.Value, len(xs))
	for i := range xs {
		v := reflect.New(reflect.TypeOf((*T)(nil)).Elem()).Elem()
		v.Set(reflect.ValueOf(&xs[i]).Elem())
		out[i] = v
	}
	return out
}

func bigI(s string) *big.Int { x, _ := new(big.Int).SetString(s, 10); return x }
func bigF(s string) *big.Float {
	x, _, err := big.ParseFloat(s, 10, 113, big.ToNearestEven)
	if err != nil {
		panic(err)
	}
	return x
}
func bigR(a, b int64) *big.Rat { return big.NewRat(a, b) }
func mkList(xs ...interface{}) *list.List {
	l := list.New()
	for _, x := range xs {
		l.PushBack(x)
	}
	return l
}

// Leaf is a leaf type with its boundary-value alphabet, most distinguishing values first.
type Leaf struct {
	T     reflect.Type
	Vals  []reflect.Value
	Class string // dispatch class: one representative per class is enough at depth >= 2 in the quick tier
}

var subnormal32 = math.Float32frombits(1)

func Leaves() []Leaf {
	t := func(y int, mo time.Month, d, h, mi, s, ns int, loc *time.Location) time.Time {
		return time.Date(y, mo, d, h, mi, s, ns, loc)
	}
	ls := []Leaf{
		{Class: "bool", Vals: vals(true, false)},
		{Class: "int", Vals: vals(int(-1), 0, 1, 9, 10, -10, math.MaxInt32, math.MinInt32, math.MaxInt32+1, math.MinInt32-1, math.MaxInt64, math.MinInt64)},
		{Class: "int8", Vals: vals(int8(-1), 0, 9, 10, math.MaxInt8, math.MinInt8)},
		{Class: "int16", Vals: vals(int16(-1), 0, 9, 10, math.MaxInt16, math.MinInt16)},
		{Class: "int32", Vals: vals(int32(-1), 0, 9, 10, math.MaxInt32, math.MinInt32)},
		{Class: "int64", Vals: vals(int64(-1), 0, 9, 10, math.MaxInt32, math.MinInt32, math.MaxInt32+1, math.MinInt32-1, math.MaxInt64, math.MinInt64)},
		{Class: "uint", Vals: vals(uint(1), 0, 9, 10, math.MaxInt32, math.MaxInt32+1, math.MaxUint32, math.MaxInt64, math.MaxUint64)},
		{Class: "uint8", Vals: vals(uint8(1), 0, 9, 10, 127, 128, math.MaxUint8)},
		{Class: "uint16", Vals: vals(uint16(1), 0, 9, 10, math.MaxUint16)},
		{Class: "uint32", Vals: vals(uint32(1), 0, 9, 10, math.MaxInt32, math.MaxInt32+1, math.MaxUint32)},
		{Class: "uint64", Vals: vals(uint64(1), 0, 9, 10, math.MaxInt32+1, math.MaxInt64, math.MaxInt64+1, math.MaxUint64)},
		{Class: "uintptr", Vals: vals(uintptr(1), 0, 10, math.MaxUint32, math.MaxUint64)},
		{Class: "float32", Vals: vals(float32(1.5), 0, float32(math.Copysign(0, -1)), 1, -1, 0.1, 16777216, math.MaxFloat32, -math.MaxFloat32, subnormal32, float32(math.Inf(1)), float32(math.Inf(-1)), float32(math.NaN()), 1e10, 3.4e-38)},
		{Class: "float64", Vals: vals(float64(1.5), 0, math.Copysign(0, -1), 1, -1, 0.1, 1e21, 1e20, 123456789012345680, math.MaxFloat64, -math.MaxFloat64, math.SmallestNonzeroFloat64, math.Inf(1), math.Inf(-1), math.NaN(), 9007199254740993, 1e-7)},
		{Class: "complex64", Vals: vals(complex64(complex(1.5, 0)), 0, complex(1, 2), complex(0, 1), complex(float32(math.Inf(1)), 0), complex(float32(math.NaN()), 0), complex(-1.5, float32(math.Inf(-1))), complex(0.1, 0.1), complex(1.5, float32(math.Copysign(0, -1))))},
		{Class: "complex128", Vals: vals(complex128(complex(1.5, 0)), 0, complex(1, 2), complex(0, 1), complex(math.Inf(1), 0), complex(math.NaN(), 0), complex(-1.5, math.Inf(-1)), complex(0.1, 0.1), complex(math.Copysign(0, -1), 0), complex(1.5, math.Copysign(0, -1)), complex(math.Copysign(0, -1), math.Copysign(0, -1)))},
		{Class: "string", Vals: vals("ab", "", "a", "你", "你好", "\U0001F600", "a\U0001F600b", "\xff", "a\xffb", "\"quoted\"\n;{}", "0123456789", "é߿ࠀ￿", "\xed\xa0\x80", "null\x00byte")},
		{Class: "bytes", Vals: vals([]byte{1, 2, 255}, []byte(nil), []byte{}, []byte{0}, []byte("\"};"), []byte("hello world"))},
		{Class: "bigint", Vals: vals(*bigI("1"), *bigI("0"), *bigI("-1"), *bigI("18446744073709551616"), *bigI("-1180591620717411303424"), *bigI("9"))},
		{Class: "bigintp", Vals: vals(bigI("1"), (*big.Int)(nil), bigI("0"), bigI("-1"), bigI("18446744073709551616"), bigI("-1180591620717411303424"))},
		{Class: "bigfloat", Vals: vals(*bigF("1.5"), *bigF("0"), *bigF("-1e100"), *bigF("0.1"), *bigF("3"), *new(big.Float).SetInf(false), *new(big.Float).SetInf(true))},
		{Class: "bigfloatp", Vals: vals(bigF("1.5"), (*big.Float)(nil), bigF("0"), bigF("-1e100"), bigF("0.1"), new(big.Float).SetInf(true))},
		{Class: "bigrat", Vals: vals(*bigR(1, 2), *bigR(0, 1), *bigR(-3, 1), *bigR(-7, 3), *bigR(1, 1<<40))},
		{Class: "bigratp", Vals: vals(bigR(1, 2), (*big.Rat)(nil), bigR(0, 1), bigR(-3, 1), bigR(-7, 3))},
		{Class: "time", Vals: vals(
			t(2022, 2, 27, 12, 34, 56, 0, time.UTC),
			t(2022, 2, 27, 12, 34, 56, 0, time.Local),
			time.Time{},
			t(1969, 12, 31, 23, 59, 59, 999999999, time.UTC),
			t(1970, 1, 1, 0, 0, 0, 0, time.UTC),
			t(1970, 1, 1, 12, 34, 56, 0, time.UTC),
			t(1970, 1, 1, 12, 34, 56, 789000000, time.Local),
			t(2022, 2, 27, 0, 0, 0, 0, time.UTC),
			t(2022, 2, 27, 0, 0, 0, 0, time.Local),
			t(2022, 2, 27, 12, 34, 56, 789000000, time.UTC),
			t(2022, 2, 27, 12, 34, 56, 789123000, time.Local),
			t(2022, 2, 27, 12, 34, 56, 789123456, time.UTC),
			t(2022, 2, 27, 12, 34, 56, 1, time.UTC),
			t(9999, 12, 31, 23, 59, 59, 0, time.UTC),
			t(1, 1, 1, 0, 0, 0, 1000000, time.Local),
			t(2022, 2, 27, 12, 34, 56, 0, UTC8),
			t(10000, 1, 1, 0, 0, 0, 0, time.UTC),
			t(2024, 2, 29, 23, 59, 59, 999000000, time.UTC),
		)},
		{Class: "uuid", Vals: vals(uuid.MustParse("01234567-89ab-cdef-0123-456789abcdef"), uuid.UUID{}, uuid.MustParse("ffffffff-ffff-ffff-ffff-ffffffffffff"))},
		{Class: "list", Vals: vals(mkList(1, "ab"), (*list.List)(nil), list.New(), mkList(mkList(1.5), nil, "ab", "ab"))},
		{Class: "iface", Vals: ifaceVals()},
		{Class: "myint", Vals: vals(MyInt(-1), 0, 10, math.MaxInt64)},
		{Class: "myint8", Vals: vals(MyInt8(-1), 0, math.MinInt8)},
		{Class: "myuint16", Vals: vals(MyUint16(1), 0, math.MaxUint16)},
		{Class: "mybool", Vals: vals(MyBool(true), false)},
		{Class: "myfloat", Vals: vals(MyFloat(1.5), 0, MyFloat(math.NaN()), MyFloat(math.Inf(-1)))},
		{Class: "mystring", Vals: vals(MyString("ab"), "", "a", "\U0001F600", "\xff")},
		{Class: "mybytes", Vals: vals(MyBytes{1, 2}, MyBytes(nil), MyBytes{})},
		{Class: "embhidden", Vals: vals(MakeEmbHidden("a", &i1, "red", "blue"), MakeEmbHidden("b", &i2, "pink", "grey"), MakeEmbHidden("c", nil, "x", "y"), MakeEmbHidden("", nil))},
		{Class: "emptyanon", Vals: vals(struct{}{})},
	}
	for i := range ls {
		ls[i].T = ls[i].Vals[0].Type()
	}
	return ls
}

var i1, i2 = 1, 2

func ifaceVals() []reflect.Value {
	xs := []interface{}{
		1, nil, "ab", 1.5, true, "", "a", int64(math.MaxInt64), uint64(math.MaxUint64), int8(-3), float32(0.1),
		math.NaN(), math.Inf(-1), []byte{1, 2}, "\U0001F600", "\xff",
		[]interface{}{1, "ab", nil}, []int{1, 2}, []string{"ab", "ab"}, map[string]interface{}{"k": 1, "ab": "ab"},
		map[interface{}]interface{}{1: "one", "two": 2.5}, map[int]string{1: "a"},
		time.Date(2022, 2, 27, 12, 34, 56, 0, time.UTC), uuid.MustParse("01234567-89ab-cdef-0123-456789abcdef"),
		bigI("18446744073709551616"), Inner{1, "x"}, &Inner{2, "y"}, &i1, struct{ A int }{7}, complex(1, 2),
		[]interface{}{[]interface{}{1}, map[string]interface{}{"a": []interface{}{"ab"}}},
		[]*Inner{{1, "a"}, nil}, MyInt(5), [2]int{1, 2}, mkList(1),
		// lists of structs of one registered type (ListTypeSlice turns them into a typed slice), among them the
		// pointer-shaped one-field structs
		[]interface{}{Inner{1, "x"}, Inner{2, "y"}}, []interface{}{OneField{&i1}}, []interface{}{OneField{&i1}, OneField{&i2}},
		[]interface{}{OneMap{map[string]int{"k": 1}}}, OneField{&i2}, OneMap{map[string]int{"k": 2}}, []interface{}{&OneField{&i1}},
		[]OneField{{&i1}}, map[string]interface{}{"o": OneField{&i1}},
	}
	out := make([]reflect.Value, len(xs))
	it := reflect.TypeOf((*interface{})(nil)).Elem()
	for i, x := range xs {
		v := reflect.New(it).Elem()
		if x != nil {
			v.Set(reflect.ValueOf(x))
		}
		out[i] = v
	}
	return out
}

// ---- value alphabets derived from the structure of a type ----

type Alphabet struct {
	mu     sync.Mutex
	leaves map[reflect.Type][]reflect.Value
	memo   map[string][]reflect.Value
}

func NewAlphabet() *Alphabet {
	a := &Alphabet{leaves: map[reflect.Type][]reflect.Value{}, memo: map[string][]reflect.Value{}}
	for _, l := range Leaves() {
		a.leaves[l.T] = l.Vals
	}
	return a
}

func first(vs []reflect.Value, k int) []reflect.Value {
	if len(vs) > k {
		return vs[:k]
	}
	return vs
}

// hashable reports whether v can be used as a map key without panicking and without NaN trouble.
func hashable(v reflect.Value) bool {
	switch v.Kind() {
	case reflect.Float32, reflect.Float64:
		return !math.IsNaN(v.Float())
	case reflect.Complex64, reflect.Complex128:
		c := v.Complex()
		return !math.IsNaN(real(c)) && !math.IsNaN(imag(c))
	case reflect.Interface:
		if v.IsNil() {
			return false // nil key: legal in Go but has no hprose counterpart worth testing here
		}
		e := v.Elem()
		return e.Type().Comparable() && hashable(e) && e.Kind() != reflect.Struct && e.Kind() != reflect.Ptr && e.Kind() != reflect.Array
	case reflect.Array:
		for i := 0; i < v.Len(); i++ {
			if !hashable(v.Index(i)) {
				return false
			}
		}
		return true
	case reflect.Struct:
		for i := 0; i < v.NumField(); i++ {
			if !hashable(v.Field(i)) {
				return false
			}
		}
		return true
	case reflect.Ptr, reflect.Slice, reflect.Map, reflect.Func, reflect.Chan:
		return false
	}
	return true
}

// Vals returns the value alphabet of t. width bounds how many element values a container draws from
// (the top level uses the full leaf alphabet, nested levels a prefix of `width` values); rec bounds the
// unfolding of recursive types.
func (a *Alphabet) Vals(t reflect.Type, width int) []reflect.Value {
	return a.vals(t, width, true, map[reflect.Type]int{})
}

func (a *Alphabet) vals(t reflect.Type, width int, top bool, onpath map[reflect.Type]int) []reflect.Value {
	key := fmt.Sprintf("%v|%d|%v", t, width, top)
	if len(onpath) == 0 {
		a.mu.Lock()
		if v, ok := a.memo[key]; ok {
			a.mu.Unlock()
			return v
		}
		a.mu.Unlock()
	}
	out := a.build(t, width, top, onpath)
	if len(onpath) == 0 {
		a.mu.Lock()
		a.memo[key] = out
		a.mu.Unlock()
	}
	return out
}

func (a *Alphabet) build(t reflect.Type, width int, top bool, onpath map[reflect.Type]int) []reflect.Value {
	if lv, ok := a.leaves[t]; ok {
		if top {
			return lv
		}
		return first(lv, width)
	}
	sub := func(et reflect.Type) []reflect.Value { return a.vals(et, width, false, onpath) }
	var out []reflect.Value
	switch t.Kind() {
	case reflect.Ptr:
		out = append(out, reflect.Zero(t))
		if onpath[t.Elem()] >= 2 {
			return out
		}
		for _, e := range sub(t.Elem()) {
			p := reflect.New(t.Elem())
			p.Elem().Set(e)
			out = append(out, p)
		}
	case reflect.Slice:
		es := sub(t.Elem())
		out = append(out, reflect.Zero(t), reflect.MakeSlice(t, 0, 0))
		for _, e := range es {
			s := reflect.MakeSlice(t, 1, 1)
			s.Index(0).Set(e)
			out = append(out, s)
		}
		if len(es) >= 2 {
			s := reflect.MakeSlice(t, 2, 2)
			s.Index(0).Set(es[1])
			s.Index(1).Set(es[0])
			out = append(out, s)
		}
		if len(es) >= 3 {
			s := reflect.MakeSlice(t, len(es), len(es))
			for i, e := range es {
				s.Index(i).Set(e)
			}
			out = append(out, s)
		}
	case reflect.Array:
		es := sub(t.Elem())
		n := t.Len()
		if n == 0 || len(es) == 0 {
			return []reflect.Value{reflect.Zero(t)}
		}
		for k := 0; k < len(es); k++ {
			arr := reflect.New(t).Elem()
			for i := 0; i < n; i++ {
				arr.Index(i).Set(es[(k+i)%len(es)])
			}
			out = append(out, arr)
		}
	case reflect.Map:
		var ks []reflect.Value
		for _, k := range a.vals(t.Key(), width+2, false, onpath) {
			if hashable(k) {
				ks = append(ks, k)
			}
		}
		es := sub(t.Elem())
		out = append(out, reflect.Zero(t), reflect.MakeMap(t))
		if len(ks) == 0 || len(es) == 0 {
			return out
		}
		for i, e := range es {
			m := reflect.MakeMap(t)
			m.SetMapIndex(ks[i%len(ks)], e)
			out = append(out, m)
		}
		if len(ks) >= 2 {
			m := reflect.MakeMap(t)
			for i, k := range ks {
				m.SetMapIndex(k, es[(i+1)%len(es)])
			}
			out = append(out, m)
		}
	case reflect.Struct:
		onpath[t]++
		defer func() { onpath[t]-- }()
		n := t.NumField()
		fv := make([][]reflect.Value, n)
		max := 1
		for i := 0; i < n; i++ {
			f := t.Field(i)
			if f.PkgPath != "" && !f.Anonymous {
				continue
			}
			fv[i] = a.vals(f.Type, width, false, onpath)
			if len(fv[i]) > max {
				max = len(fv[i])
			}
		}
		out = append(out, reflect.Zero(t))
		for k := 0; k < max; k++ {
			s := reflect.New(t).Elem()
			for i := 0; i < n; i++ {
				if len(fv[i]) > 0 && s.Field(i).CanSet() {
					s.Field(i).Set(fv[i][(k+i)%len(fv[i])])
				}
			}
			out = append(out, s)
		}
	case reflect.Interface:
		return first(a.leaves[reflect.TypeOf((*interface{})(nil)).Elem()], width+4)
	default:
		panic("gen: no alphabet for " + t.String())
	}
	return out
}

// ---- the type universe ----

var (
	tString = reflect.TypeOf("")
	tIface  = reflect.TypeOf((*interface{})(nil)).Elem()
)

// Ctors applies every type constructor once to t.
func Ctors(t reflect.Type) []reflect.Type {
	out := []reflect.Type{
		reflect.PtrTo(t), reflect.SliceOf(t), reflect.ArrayOf(0, t), reflect.ArrayOf(1, t), reflect.ArrayOf(2, t),
		reflect.MapOf(tString, t),
		reflect.StructOf([]reflect.StructField{{Name: "A", Type: t}, {Name: "B", Type: t, Tag: `hprose:"bee"`}}),
		reflect.StructOf([]reflect.StructField{{Name: "Only", Type: t}}),
	}
	if t.Comparable() && t.Kind() != reflect.Interface && t.Kind() != reflect.Ptr {
		out = append(out, reflect.MapOf(t, tString))
	}
	return out
}

// NamedStructs are the hand-declared named struct types.
func NamedStructs() []reflect.Type {
	return []reflect.Type{
		reflect.TypeOf(Inner{}), reflect.TypeOf(Tagged{}), reflect.TypeOf(Embedded{}), reflect.TypeOf(Rec{}),
		reflect.TypeOf(TreeNode{}), reflect.TypeOf(OneField{}), reflect.TypeOf(OneMap{}), reflect.TypeOf(IfaceKey{}), reflect.TypeOf(Empty{}), reflect.TypeOf(Wide{}),
		reflect.TypeOf(MyIntSlice{}), reflect.TypeOf(MyMap{}),
		reflect.TypeOf(EmbLate{}), reflect.TypeOf(EmbUnexported{}), reflect.TypeOf(EmbDeep{}),
	}
}

var mapKeyTypes = []interface{}{"", (*interface{})(nil), int(0), int8(0), int16(0), int32(0), int64(0), uint(0), uint8(0), uint16(0), uint32(0), uint64(0), float32(0), float64(0)}
var mapValTypes = []interface{}{(*interface{})(nil), "", int(0), int8(0), int16(0), int32(0), int64(0), uint(0), uint8(0), uint16(0), uint32(0), uint64(0), false, float32(0), float64(0)}

func typeOfProto(x interface{}) reflect.Type {
	if _, ok := x.(*interface{}); ok {
		return tIface
	}
	return reflect.TypeOf(x)
}

// SpecialisedMaps returns the key x value pairs that have hand-written fast paths in io/map_encoder.go.
func SpecialisedMaps() []reflect.Type {
	var out []reflect.Type
	for _, k := range mapKeyTypes {
		for _, v := range mapValTypes {
			out = append(out, reflect.MapOf(typeOfProto(k), typeOfProto(v)))
		}
	}
	return out
}

// Universe returns every type up to constructor depth d over the leaves (all leaves when full, one
// representative per dispatch class beyond depth 1 otherwise), plus named structs and specialised maps.
func Universe(d int, full bool) []reflect.Type {
	seen := map[reflect.Type]bool{}
	var out []reflect.Type
	add := func(t reflect.Type) bool {
		if seen[t] {
			return false
		}
		seen[t] = true
		out = append(out, t)
		return true
	}
	var level []reflect.Type
	reps := map[string]bool{}
	var repLeaves []reflect.Type
	for _, l := range Leaves() {
		add(l.T)
		level = append(level, l.T)
		cls := l.Class
		switch cls { // dispatch classes that share code paths
		case "int8", "int16", "int32", "int64":
			cls = "intN"
		case "uint8", "uint16", "uint32", "uint64", "uintptr":
			cls = "uintN"
		case "myint", "myint8", "myuint16", "mybool", "myfloat":
			cls = "mynum"
		}
		if !reps[cls] {
			reps[cls] = true
			repLeaves = append(repLeaves, l.T)
		}
	}
	for _, t := range NamedStructs() {
		add(t)
		level = append(level, t)
		repLeaves = append(repLeaves, t)
	}
	for _, t := range SpecialisedMaps() {
		add(t)
	}
	for depth := 1; depth <= d; depth++ {
		src := level
		if depth >= 2 && !full {
			// quick tier: beyond depth 1 only build on types whose leaves are class representatives
			var f []reflect.Type
			for _, t := range level {
				if builtOn(t, repLeaves) {
					f = append(f, t)
				}
			}
			src = f
		}
		var next []reflect.Type
		for _, t := range src {
			for _, c := range Ctors(t) {
				if add(c) {
					next = append(next, c)
				}
			}
		}
		level = next
	}
	return out
}

func builtOn(t reflect.Type, leaves []reflect.Type) bool {
	for _, l := range leaves {
		if t == l {
			return true
		}
	}
	switch t.Kind() {
	case reflect.Ptr, reflect.Slice, reflect.Array:
		return builtOn(t.Elem(), leaves)
	case reflect.Map:
		return builtOn(t.Elem(), leaves) && builtOn(t.Key(), leaves)
	case reflect.Struct:
		if t.Name() != "" {
			return false
		}
		for i := 0; i < t.NumField(); i++ {
			if !builtOn(t.Field(i).Type, leaves) {
				return false
			}
		}
		return true
	}
	return false
}

// HasInterface reports whether decoding into t involves an interface{} destination somewhere.
func HasInterface(t reflect.Type) bool { return hasIface(t, map[reflect.Type]bool{}) }

func hasIface(t reflect.Type, seen map[reflect.Type]bool) bool {
	if seen[t] {
		return false
	}
	seen[t] = true
	switch t.Kind() {
	case reflect.Interface:
		return true
	case reflect.Ptr, reflect.Slice, reflect.Array:
		return hasIface(t.Elem(), seen)
	case reflect.Map:
		return hasIface(t.Key(), seen) || hasIface(t.Elem(), seen)
	case reflect.Struct:
		if t == reflect.TypeOf(list.List{}) {
			return true
		}
		if t == reflect.TypeOf(time.Time{}) || t == reflect.TypeOf(big.Int{}) || t == reflect.TypeOf(big.Float{}) || t == reflect.TypeOf(big.Rat{}) {
			return false
		}
		for i := 0; i < t.NumField(); i++ {
			if hasIface(t.Field(i).Type, seen) {
				return true
			}
		}
	}
	return false
}
