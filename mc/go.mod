module verif/mc

go 1.23

require (
	github.com/google/uuid v1.3.0
	github.com/hprose/hprose-golang/v3 v3.0.0
	verif/lib v0.0.0
)

require (
	github.com/andot/complexconv v1.0.0 // indirect
	github.com/json-iterator/go v1.1.12 // indirect
	github.com/modern-go/concurrent v0.0.0-20180228061459-e0a39a4cb421 // indirect
	github.com/modern-go/reflect2 v1.0.2 // indirect
)

replace github.com/hprose/hprose-golang/v3 => /repo

replace verif/lib => ../lib
