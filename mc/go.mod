module verif/mc

go 1.23

require (
	github.com/fasthttp/websocket v1.5.0
	github.com/google/uuid v1.3.0
	github.com/hprose/hprose-golang/v3 v3.0.0
	github.com/valyala/fasthttp v1.37.0
	verif/lib v0.0.0
)

require (
	github.com/andot/complexconv v1.0.0 // indirect
	github.com/andybalholm/brotli v1.0.4 // indirect
	github.com/json-iterator/go v1.1.12 // indirect
	github.com/klauspost/compress v1.15.0 // indirect
	github.com/modern-go/concurrent v0.0.0-20180228061459-e0a39a4cb421 // indirect
	github.com/modern-go/reflect2 v1.0.2 // indirect
	github.com/savsgio/gotils v0.0.0-20211223103454-d0aaa54c5899 // indirect
	github.com/valyala/bytebufferpool v1.0.0 // indirect
)

replace github.com/hprose/hprose-golang/v3 => /repo

replace verif/lib => ../lib
