package hpref

import (
	"container/list"
	"fmt"
	"math"
	"math/big"
	"reflect"
	"strconv"
	"strings"
	"sync"
	"time"
	"unicode/utf8"
	"unsafe"
)

// The mapping implemented here was worked out from the hprose-golang v3 encoders and
// checked against them value by value in hpref_test.go. Points that are easy to get wrong:
//
//   - Dispatch is DYNAMIC (on the value found in an interface) at the top level, for
//     elements of slices/arrays/maps/list.List and behind interface-typed slots, and STATIC
//     (on the declared field type) for struct fields only. The one observable difference:
//     a dynamically dispatched value whose type implements error becomes Error(msg), while
//     a struct field of a concrete error-implementing type is encoded structurally.
//   - nil pointer, nil slice, nil map, nil []byte, nil interface -> Null. Empty non-nil
//     slice -> empty List, empty non-nil []byte -> empty Bytes.
//   - Bytes only for the exact type []byte and for arrays whose element type is exactly
//     uint8. A named slice type (type Bs []byte) or named element type (type B uint8) gives
//     a List of Int; that is what the library does.
//   - string -> Text when valid UTF-8, else Bytes.
//   - named struct -> Object; class name = reflect Type.Name() (no package path) unless
//     overridden with RegisterClassName; anonymous struct -> Map keyed by Text(alias).
//   - fields: declaration order; embedded (anonymous) fields of kind struct are flattened in
//     place whether exported or not (so an embedded time.Time contributes nothing); embedded
//     pointers are ordinary fields; func/chan/unsafe.Pointer fields and pointers to them
//     are skipped; unexported fields are skipped; alias = first non-empty of tag "hprose",
//     tag "json" (text before the first comma, trimmed of spaces), else the field name with
//     an ASCII upper-case first letter lowered; alias "-" skips; duplicate alias is an error.
//   - time.Time: UTC flag iff Location()==time.UTC (pointer identity, so FixedZone("UTC",0)
//     and Local are "local"); a time in any other location than UTC/Local is converted with
//     t.Local() first (see ConvertForeignZones); fields are then the wall clock; date-only
//     when the clock is 00:00:00.0 (also for 1970-01-01), time-only when the date is
//     1970-01-01 and the clock is not zero. Years outside 0..9999 are an error.
//   - sharing in ref mode is by pointer identity (type+address) of *struct, *time.Time,
//     *uuid.UUID, *list.List, *[N]T, *[]T, *map; never by map or slice identity.

var (
	errorType     = reflect.TypeOf((*error)(nil)).Elem()
	timeType      = reflect.TypeOf(time.Time{})
	bigIntType    = reflect.TypeOf(big.Int{})
	bigFloatType  = reflect.TypeOf(big.Float{})
	bigRatType    = reflect.TypeOf(big.Rat{})
	listType      = reflect.TypeOf(list.List{})
	elementType   = reflect.TypeOf(list.Element{})
	byteSliceType = reflect.TypeOf([]byte(nil))
	uint8Type     = reflect.TypeOf(uint8(0))
)

func isUUID(t reflect.Type) bool {
	if t.Kind() != reflect.Array || t.Len() != 16 || t.Name() != "UUID" || t.Elem().Kind() != reflect.Uint8 {
		return false
	}
	pp := t.PkgPath()
	return pp == "github.com/google/uuid" || strings.HasSuffix(pp, "/github.com/google/uuid")
}

var classNames sync.Map // reflect.Type -> string

// RegisterClassName tells Denote that values of proto's struct type (proto may be a pointer)
// use the given class name, mirroring io.RegisterName(name, proto). Without it the class
// name is the Go type name, which is also the library default.
func RegisterClassName(proto interface{}, name string) {
	t := reflect.TypeOf(proto)
	for t.Kind() == reflect.Ptr {
		t = t.Elem()
	}
	classNames.Store(t, name)
}

func className(t reflect.Type) string {
	if n, ok := classNames.Load(t); ok {
		return n.(string)
	}
	return t.Name()
}

type refKey struct {
	t reflect.Type
	p unsafe.Pointer
	n int
}

type denoter struct {
	refMode bool
	memo    map[refKey]*Value // ref mode: values already built (or being built) for shareable pointers
	active  map[refKey]bool   // reference-like nodes currently open, for cycle detection
}

// Denote computes the abstract value a Go value stands for under the hprose-golang type
// mapping, WITHOUT serializing it. refMode=false is "simple" mode: every pointer occurrence
// unfolds to its own tree and cyclic input is an error. refMode=true: pointers the encoder
// would share yield the SAME *Value, so cycles through such pointers become cyclic graphs;
// cycles that the encoder cannot break (through a map or slice held by value, or through
// *interface{}) are an error in both modes.
func Denote(v interface{}, refMode bool) (val *Value, err error) {
	defer func() {
		if r := recover(); r != nil {
			val, err = nil, fmt.Errorf("hpref.Denote: panic: %v", r)
		}
	}()
	d := &denoter{refMode: refMode, memo: map[refKey]*Value{}, active: map[refKey]bool{}}
	return d.dyn(reflect.ValueOf(v))
}

func newValue(k Kind) *Value { return &Value{Kind: k, Ref: -1} }

// dyn denotes a value that the encoder dispatches on dynamically.
func (d *denoter) dyn(rv reflect.Value) (*Value, error) {
	for rv.IsValid() && rv.Kind() == reflect.Interface {
		rv = rv.Elem() // invalid when the interface is nil
	}
	if !rv.IsValid() {
		return newValue(Null), nil
	}
	if rv.Type().Implements(errorType) {
		return errorValue(rv)
	}
	return d.val(rv)
}

func errorValue(rv reflect.Value) (*Value, error) {
	if !rv.CanInterface() {
		return nil, fmt.Errorf("hpref.Denote: cannot read error value of type %s", rv.Type())
	}
	v := newValue(Error)
	v.Text = rv.Interface().(error).Error()
	return v, nil
}

func float32Value(f float32) float64 {
	g := float64(f)
	if math.IsNaN(g) || math.IsInf(g, 0) {
		return g
	}
	r, _ := strconv.ParseFloat(strconv.FormatFloat(g, 'g', -1, 32), 64)
	return r
}

func doubleValue(f float64) *Value {
	v := newValue(Double)
	v.F = f
	return v
}

func complexValue(re, im float64) *Value {
	if im == 0 {
		return doubleValue(re)
	}
	v := newValue(List)
	v.Elems = []*Value{doubleValue(re), doubleValue(im)}
	return v
}

func stringValue(s string) *Value {
	if utf8.ValidString(s) {
		v := newValue(Text)
		v.Text = s
		return v
	}
	v := newValue(Bytes)
	v.Bytes = []byte(s)
	return v
}

func intValue(n *big.Int) *Value {
	v := newValue(Int)
	v.Int = n
	return v
}

// val denotes rv structurally (no error-interface check at this level).
func (d *denoter) val(rv reflect.Value) (*Value, error) {
	t := rv.Type()
	switch rv.Kind() {
	case reflect.Bool:
		v := newValue(Bool)
		v.Bool = rv.Bool()
		return v, nil
	case reflect.Int, reflect.Int8, reflect.Int16, reflect.Int32, reflect.Int64:
		return intValue(big.NewInt(rv.Int())), nil
	case reflect.Uint, reflect.Uint8, reflect.Uint16, reflect.Uint32, reflect.Uint64, reflect.Uintptr:
		return intValue(new(big.Int).SetUint64(rv.Uint())), nil
	case reflect.Float32:
		return doubleValue(float32Value(float32(rv.Float()))), nil
	case reflect.Float64:
		return doubleValue(rv.Float()), nil
	case reflect.Complex64:
		c := rv.Complex()
		return complexValue(float32Value(float32(real(c))), float32Value(float32(imag(c)))), nil
	case reflect.Complex128:
		c := rv.Complex()
		return complexValue(real(c), imag(c)), nil
	case reflect.String:
		return stringValue(rv.String()), nil
	case reflect.Array:
		v := newValue(Null)
		if isUUID(t) {
			return v, fillGuid(rv, v)
		}
		return v, d.fillArray(rv, v)
	case reflect.Slice:
		if rv.IsNil() {
			return newValue(Null), nil
		}
		v := newValue(Null)
		return v, d.fillSlice(rv, v)
	case reflect.Map:
		if rv.IsNil() {
			return newValue(Null), nil
		}
		v := newValue(Null)
		return v, d.fillMap(rv, v)
	case reflect.Struct:
		v := newValue(Null)
		return v, d.fillStruct(rv, v)
	case reflect.Ptr:
		if rv.IsNil() {
			return newValue(Null), nil
		}
		return d.ptr(rv)
	case reflect.Interface:
		return d.dyn(rv)
	}
	return nil, fmt.Errorf("hpref.Denote: unsupported type %s", t)
}

// guard marks a reference-like node open for the duration of f; meeting it again while it
// is open means the Go value is cyclic in a way the encoder cannot break.
func (d *denoter) guard(k refKey, what string, f func() error) error {
	if d.active[k] {
		return fmt.Errorf("hpref.Denote: cyclic value through %s %s", what, k.t)
	}
	d.active[k] = true
	defer delete(d.active, k)
	return f()
}

// shared denotes the pointee of the non-nil pointer p, sharing the result by pointer
// identity in ref mode.
func (d *denoter) shared(p reflect.Value, fill func(v *Value) error) (*Value, error) {
	k := refKey{t: p.Type(), p: p.UnsafePointer()}
	if d.refMode {
		if v, ok := d.memo[k]; ok {
			return v, nil
		}
	}
	v := newValue(Null)
	err := d.guard(k, "pointer", func() error {
		if d.refMode {
			d.memo[k] = v
		}
		return fill(v)
	})
	return v, err
}

// ptr denotes a non-nil pointer.
func (d *denoter) ptr(p reflect.Value) (*Value, error) {
	e := p.Elem()
	et := e.Type()
	if et == errorType {
		if e.IsNil() {
			return nil, fmt.Errorf("hpref.Denote: *error pointing at a nil error")
		}
		return errorValue(e.Elem())
	}
	switch e.Kind() {
	case reflect.Ptr, reflect.Map, reflect.Slice, reflect.Interface:
		if e.IsNil() {
			return newValue(Null), nil
		}
	}
	switch e.Kind() {
	case reflect.Array:
		if isUUID(et) {
			return d.shared(p, func(v *Value) error { return fillGuid(e, v) })
		}
		return d.shared(p, func(v *Value) error { return d.fillArray(e, v) })
	case reflect.Struct:
		switch et {
		case bigIntType, bigFloatType, bigRatType, elementType:
			v := newValue(Null)
			return v, d.fillStruct(e, v)
		}
		return d.shared(p, func(v *Value) error { return d.fillStruct(e, v) })
	case reflect.Slice:
		return d.shared(p, func(v *Value) error { return d.fillSlice(e, v) })
	case reflect.Map:
		return d.shared(p, func(v *Value) error { return d.fillMap(e, v) })
	case reflect.Ptr, reflect.Interface:
		var v *Value
		k := refKey{t: p.Type(), p: p.UnsafePointer()}
		err := d.guard(k, "pointer", func() (err error) {
			if e.Kind() == reflect.Ptr {
				v, err = d.ptr(e)
			} else {
				v, err = d.dyn(e)
			}
			return
		})
		return v, err
	case reflect.Chan, reflect.Func, reflect.UnsafePointer, reflect.Invalid:
		return nil, fmt.Errorf("hpref.Denote: unsupported type %s", p.Type())
	}
	return d.val(e)
}

func fillGuid(rv reflect.Value, v *Value) error {
	v.Kind = Guid
	for i := 0; i < 16; i++ {
		v.Guid[i] = byte(rv.Index(i).Uint())
	}
	return nil
}

func (d *denoter) fillArray(rv reflect.Value, v *Value) error {
	n := rv.Len()
	if rv.Type().Elem() == uint8Type {
		v.Kind = Bytes
		v.Bytes = make([]byte, n)
		for i := 0; i < n; i++ {
			v.Bytes[i] = byte(rv.Index(i).Uint())
		}
		return nil
	}
	v.Kind = List
	v.Elems = make([]*Value, n)
	for i := 0; i < n; i++ {
		e, err := d.dyn(rv.Index(i))
		if err != nil {
			return err
		}
		v.Elems[i] = e
	}
	return nil
}

func (d *denoter) fillSlice(rv reflect.Value, v *Value) error {
	if rv.Type() == byteSliceType {
		v.Kind = Bytes
		v.Bytes = append([]byte{}, rv.Bytes()...)
		return nil
	}
	n := rv.Len()
	v.Kind = List
	v.Elems = make([]*Value, n)
	if n == 0 {
		return nil
	}
	k := refKey{t: rv.Type(), p: rv.UnsafePointer(), n: n}
	return d.guard(k, "slice", func() error {
		for i := 0; i < n; i++ {
			e, err := d.dyn(rv.Index(i))
			if err != nil {
				return err
			}
			v.Elems[i] = e
		}
		return nil
	})
}

func (d *denoter) fillMap(rv reflect.Value, v *Value) error {
	v.Kind = Map
	v.Pairs = make([][2]*Value, 0, rv.Len())
	k := refKey{t: rv.Type(), p: rv.UnsafePointer()}
	return d.guard(k, "map", func() error {
		it := rv.MapRange()
		for it.Next() {
			kv, err := d.dyn(it.Key())
			if err != nil {
				return err
			}
			ev, err := d.dyn(it.Value())
			if err != nil {
				return err
			}
			v.Pairs = append(v.Pairs, [2]*Value{kv, ev})
		}
		return nil
	})
}

// addr returns a pointer to (a copy of, when not addressable) the struct rv.
func addr(rv reflect.Value) reflect.Value {
	if rv.CanAddr() {
		return rv.Addr()
	}
	p := reflect.New(rv.Type())
	p.Elem().Set(rv)
	return p
}

func (d *denoter) fillStruct(rv reflect.Value, v *Value) error {
	t := rv.Type()
	switch t {
	case timeType:
		return fillTime(addr(rv).Interface().(*time.Time), v)
	case bigIntType:
		v.Kind = Int
		v.Int = new(big.Int).Set(addr(rv).Interface().(*big.Int))
		return nil
	case bigFloatType:
		return fillBigFloat(addr(rv).Interface().(*big.Float), v)
	case bigRatType:
		r := addr(rv).Interface().(*big.Rat)
		if r.IsInt() {
			v.Kind = Int
			v.Int = new(big.Int).Set(r.Num())
		} else {
			v.Kind = Text
			v.Text = r.String()
		}
		return nil
	case listType:
		l := addr(rv).Interface().(*list.List)
		v.Kind = List
		v.Elems = make([]*Value, 0, l.Len())
		for e := l.Front(); e != nil; e = e.Next() {
			x, err := d.dyn(reflect.ValueOf(e.Value))
			if err != nil {
				return err
			}
			v.Elems = append(v.Elems, x)
		}
		return nil
	case elementType:
		x, err := d.dyn(rv.FieldByName("Value"))
		if err != nil {
			return err
		}
		*v = *x
		return nil
	}
	fields, err := fieldsOf(t)
	if err != nil {
		return err
	}
	if name := className(t); name != "" {
		if !utf8.ValidString(name) {
			return fmt.Errorf("hpref.Denote: class name of %s is not valid UTF-8", t)
		}
		cls := &Class{Name: name, Fields: make([]string, len(fields))}
		v.Kind, v.Class = Object, cls
		v.Elems = make([]*Value, len(fields))
		for i, f := range fields {
			cls.Fields[i] = f.alias
			x, err := d.field(rv.FieldByIndex(f.index))
			if err != nil {
				return err
			}
			v.Elems[i] = x
		}
		return nil
	}
	v.Kind = Map
	v.Pairs = make([][2]*Value, len(fields))
	for i, f := range fields {
		x, err := d.field(rv.FieldByIndex(f.index))
		if err != nil {
			return err
		}
		v.Pairs[i] = [2]*Value{stringValue(f.alias), x}
	}
	return nil
}

// field denotes a struct field: static dispatch on the declared type. Only interface-typed
// fields dispatch dynamically. (The library writes NOTHING for a nil field of static type
// error and "l<nil>;" for a nil *big.Int field; the intended value in both cases is Null.)
func (d *denoter) field(fv reflect.Value) (*Value, error) {
	if fv.Kind() == reflect.Interface {
		return d.dyn(fv)
	}
	return d.val(fv)
}

// ConvertForeignZones selects how a time.Time whose location is neither time.UTC nor
// time.Local is denoted. The wire format only has "UTC" ('Z') and "local" (';').
// true (default): the time is first converted with t.Local(), so the instant survives; this
// is what the library does since its FixedZone fix ("express any other zone as local time").
// false: the wall clock of the time's own location is kept and flagged local, which is what
// the unfixed library did (the instant then changes on the way back).
var ConvertForeignZones = true

func fillTime(tp *time.Time, v *Value) error {
	t := *tp
	if loc := t.Location(); ConvertForeignZones && loc != time.UTC && loc != time.Local {
		t = t.Local()
	}
	y, mo, dd := t.Date()
	h, mi, s := t.Clock()
	ns := t.Nanosecond()
	if y < 0 || y > 9999 {
		return fmt.Errorf("hpref.Denote: year %d cannot be written with four digits", y)
	}
	v.Kind = DateTime
	v.Year, v.Month, v.Day = y, int(mo), dd
	v.Hour, v.Min, v.Sec, v.Nsec = h, mi, s, ns
	v.HasTime = !(h == 0 && mi == 0 && s == 0 && ns == 0)
	v.HasDate = !v.HasTime || !(y == 1970 && mo == 1 && dd == 1)
	v.UTC = t.Location() == time.UTC
	return nil
}

func fillBigFloat(f *big.Float, v *Value) error {
	v.Kind = Double
	if f.IsInf() {
		// The library prints d+Inf; / d-Inf; here, which is outside the grammar; the
		// value meant is the infinity.
		v.F = math.Inf(f.Sign())
		return nil
	}
	txt := f.Text('g', -1)
	x, err := strconv.ParseFloat(txt, 64)
	if err != nil {
		return fmt.Errorf("hpref.Denote: big.Float %s is not representable as a double: %v", txt, err)
	}
	v.F = x
	return nil
}

// ---------------------------------------------------------------------------------
// struct fields

type fieldInfo struct {
	alias string
	index []int
}

type fieldsResult struct {
	fields []fieldInfo
	err    error
}

var fieldCache sync.Map // reflect.Type -> fieldsResult

func fieldsOf(t reflect.Type) ([]fieldInfo, error) {
	if r, ok := fieldCache.Load(t); ok {
		fr := r.(fieldsResult)
		return fr.fields, fr.err
	}
	var fr fieldsResult
	seen := map[string]bool{}
	fr.fields, fr.err = collectFields(t, nil, seen, nil)
	if fr.err != nil {
		fr.fields = nil
	}
	fieldCache.Store(t, fr)
	return fr.fields, fr.err
}

func encodable(t reflect.Type) bool {
	for t.Kind() == reflect.Ptr {
		t = t.Elem()
	}
	switch t.Kind() {
	case reflect.Func, reflect.Chan, reflect.UnsafePointer, reflect.Invalid:
		return false
	}
	return true
}

func tagAlias(tag reflect.StructTag, key string) string {
	s := tag.Get(key)
	if i := strings.Index(s, ","); i >= 0 {
		s = s[:i]
	}
	return strings.Trim(s, " ")
}

func fieldAlias(f reflect.StructField) string {
	for _, key := range []string{"hprose", "json"} {
		if a := tagAlias(f.Tag, key); a != "" {
			return a
		}
	}
	name := f.Name
	if name[0] >= 'A' && name[0] <= 'Z' {
		name = string(name[0]-'A'+'a') + name[1:]
	}
	return name
}

func collectFields(t reflect.Type, prefix []int, seen map[string]bool, out []fieldInfo) ([]fieldInfo, error) {
	for i := 0; i < t.NumField(); i++ {
		f := t.Field(i)
		idx := append(append([]int(nil), prefix...), i)
		switch f.Type.Kind() {
		case reflect.Func, reflect.Chan, reflect.UnsafePointer:
			continue
		case reflect.Struct:
			if f.Anonymous {
				var err error
				if out, err = collectFields(f.Type, idx, seen, out); err != nil {
					return nil, err
				}
				continue
			}
		}
		if f.PkgPath != "" {
			continue
		}
		alias := fieldAlias(f)
		if alias == "-" {
			continue
		}
		if seen[alias] {
			return nil, fmt.Errorf("hpref.Denote: ambiguous fields with the same name or alias %q in %s", alias, t)
		}
		if !encodable(f.Type) {
			continue
		}
		if !utf8.ValidString(alias) {
			return nil, fmt.Errorf("hpref.Denote: field alias %q in %s is not valid UTF-8", alias, t)
		}
		seen[alias] = true
		out = append(out, fieldInfo{alias: alias, index: idx})
	}
	return out, nil
}
