package hpref

import (
	"bytes"
	"fmt"
	"math"
	"strconv"
	"strings"
)

type pairKey struct{ a, b *Value }

// eq is a coinductive equality checker: a pair of container nodes that is being compared
// (or was found equal) is assumed equal when met again. Assumptions made inside a failed
// trial (map entry matching) are rolled back through the trail.
type eq struct {
	assumed map[pairKey]struct{}
	trail   []pairKey
}

// Equal reports whether two abstract values are equal as (possibly cyclic) graphs
// (bisimulation). Int is compared mathematically; Double: NaN==NaN, +0 and -0 differ;
// Text by content; Map entries as multisets of (key,value) pairs; List/Object ordered;
// Object: class name and field names must be equal too; DateTime: all seven numeric
// fields plus HasDate, HasTime and UTC. Kind must match exactly. Tag and Ref are ignored.
func Equal(a, b *Value) bool {
	e := &eq{assumed: map[pairKey]struct{}{}}
	return e.equal(a, b)
}

func (e *eq) undo(mark int) {
	for i := len(e.trail) - 1; i >= mark; i-- {
		delete(e.assumed, e.trail[i])
	}
	e.trail = e.trail[:mark]
}

func doubleEqual(x, y float64) bool {
	if math.IsNaN(x) || math.IsNaN(y) {
		return math.IsNaN(x) && math.IsNaN(y)
	}
	return math.Float64bits(x) == math.Float64bits(y)
}

func sameDateTime(a, b *Value) bool {
	return a.Year == b.Year && a.Month == b.Month && a.Day == b.Day &&
		a.Hour == b.Hour && a.Min == b.Min && a.Sec == b.Sec && a.Nsec == b.Nsec &&
		a.HasDate == b.HasDate && a.HasTime == b.HasTime && a.UTC == b.UTC
}

func sameClass(a, b *Class) bool {
	if a == nil || b == nil {
		return a == b
	}
	if a.Name != b.Name || len(a.Fields) != len(b.Fields) {
		return false
	}
	for i := range a.Fields {
		if a.Fields[i] != b.Fields[i] {
			return false
		}
	}
	return true
}

// scalarEqual compares two values of the same scalar kind.
func scalarEqual(a, b *Value) bool {
	switch a.Kind {
	case Null:
		return true
	case Bool:
		return a.Bool == b.Bool
	case Int:
		if a.Int == nil || b.Int == nil {
			return a.Int == b.Int
		}
		return a.Int.Cmp(b.Int) == 0
	case Double:
		return doubleEqual(a.F, b.F)
	case Text, Error:
		return a.Text == b.Text
	case Bytes:
		return bytes.Equal(a.Bytes, b.Bytes)
	case DateTime:
		return sameDateTime(a, b)
	case Guid:
		return a.Guid == b.Guid
	}
	return false
}

func isContainer(k Kind) bool { return k == List || k == Map || k == Object }

func (e *eq) equal(a, b *Value) bool {
	if a == nil || b == nil {
		return a == b
	}
	if a.Kind != b.Kind {
		return false
	}
	if !isContainer(a.Kind) {
		return scalarEqual(a, b)
	}
	if a == b {
		return true
	}
	k := pairKey{a, b}
	if _, ok := e.assumed[k]; ok {
		return true
	}
	mark := len(e.trail)
	e.assumed[k] = struct{}{}
	e.trail = append(e.trail, k)
	ok := false
	switch a.Kind {
	case List:
		ok = e.seqEqual(a.Elems, b.Elems)
	case Object:
		ok = sameClass(a.Class, b.Class) && e.seqEqual(a.Elems, b.Elems)
	case Map:
		ok = e.mapEqual(a, b)
	}
	if !ok {
		e.undo(mark)
	}
	return ok
}

func (e *eq) seqEqual(x, y []*Value) bool {
	if len(x) != len(y) {
		return false
	}
	for i := range x {
		if !e.equal(x[i], y[i]) {
			return false
		}
	}
	return true
}

// sig is a cheap signature with the property Equal(a,b) => sig(a)==sig(b); it is exact for
// scalars, so map matching only tries candidates whose key could be equal.
func sig(v *Value) string {
	if v == nil {
		return "?"
	}
	switch v.Kind {
	case Null:
		return "n"
	case Bool:
		if v.Bool {
			return "t"
		}
		return "f"
	case Int:
		if v.Int == nil {
			return "i?"
		}
		return "i" + v.Int.String()
	case Double:
		if math.IsNaN(v.F) {
			return "dNaN"
		}
		return "d" + strconv.FormatUint(math.Float64bits(v.F), 16)
	case Text:
		return "s" + v.Text
	case Error:
		return "E" + v.Text
	case Bytes:
		return "b" + string(v.Bytes)
	case DateTime:
		return fmt.Sprintf("D%d-%d-%d %d:%d:%d.%d %t%t%t", v.Year, v.Month, v.Day, v.Hour, v.Min, v.Sec, v.Nsec, v.HasDate, v.HasTime, v.UTC)
	case Guid:
		return "g" + string(v.Guid[:])
	case List:
		return "a" + strconv.Itoa(len(v.Elems))
	case Map:
		return "m" + strconv.Itoa(len(v.Pairs))
	case Object:
		if v.Class == nil {
			return "o?"
		}
		return "o" + strconv.Itoa(len(v.Elems)) + v.Class.Name
	}
	return "?"
}

// matchPairs matches the entries of a against those of b as multisets. It returns, for each
// entry of a, the index of its partner in b or -1, and which entries of b were used. Because
// bisimilarity is an equivalence, greedy matching is complete.
func (e *eq) matchPairs(a, b *Value) (partner []int, used []bool) {
	buckets := make(map[string][]int, len(b.Pairs))
	for j, kv := range b.Pairs {
		s := sig(kv[0])
		buckets[s] = append(buckets[s], j)
	}
	used = make([]bool, len(b.Pairs))
	partner = make([]int, len(a.Pairs))
	for i, kv := range a.Pairs {
		partner[i] = -1
		for _, j := range buckets[sig(kv[0])] {
			if used[j] {
				continue
			}
			mark := len(e.trail)
			if e.equal(kv[0], b.Pairs[j][0]) && e.equal(kv[1], b.Pairs[j][1]) {
				used[j] = true
				partner[i] = j
				break
			}
			e.undo(mark)
		}
	}
	return
}

func (e *eq) mapEqual(a, b *Value) bool {
	if len(a.Pairs) != len(b.Pairs) {
		return false
	}
	buckets := make(map[string][]int, len(b.Pairs))
	for j, kv := range b.Pairs {
		s := sig(kv[0])
		buckets[s] = append(buckets[s], j)
	}
	used := make([]bool, len(b.Pairs))
	for _, kv := range a.Pairs {
		found := false
		for _, j := range buckets[sig(kv[0])] {
			if used[j] {
				continue
			}
			mark := len(e.trail)
			if e.equal(kv[0], b.Pairs[j][0]) && e.equal(kv[1], b.Pairs[j][1]) {
				used[j] = true
				found = true
				break
			}
			e.undo(mark)
		}
		if !found {
			return false
		}
	}
	return true
}

// ---------------------------------------------------------------------------------
// Diff

type differ struct {
	visited map[pairKey]bool
}

// Diff returns "" if Equal(a,b), else a short human-readable path to the first difference
// found, e.g. "[1].name: Int 3 vs Int 4". The root is written "(root)".
func Diff(a, b *Value) string {
	if Equal(a, b) {
		return ""
	}
	d := &differ{visited: map[pairKey]bool{}}
	if s := d.diff(a, b, ""); s != "" {
		return s
	}
	return "(root): values differ"
}

func at(path string) string {
	if path == "" {
		return "(root)"
	}
	return path
}

func keyLabel(k *Value) string {
	s := k.String()
	if len(s) > 40 {
		s = s[:37] + "..."
	}
	return "[" + s + "]"
}

// diff is only called on pairs that are not Equal. It follows unequal children; the
// visited set stops it from looping when an unequal pair contains itself.
func (d *differ) diff(a, b *Value, path string) string {
	if a == nil || b == nil {
		return fmt.Sprintf("%s: %s vs %s", at(path), brief(a), brief(b))
	}
	if a.Kind != b.Kind {
		return fmt.Sprintf("%s: %s vs %s", at(path), brief(a), brief(b))
	}
	if !isContainer(a.Kind) {
		if scalarEqual(a, b) {
			return ""
		}
		return fmt.Sprintf("%s: %s vs %s", at(path), brief(a), brief(b))
	}
	k := pairKey{a, b}
	if d.visited[k] {
		return ""
	}
	d.visited[k] = true
	switch a.Kind {
	case Object:
		if !sameClass(a.Class, b.Class) {
			return fmt.Sprintf("%s: class %s vs class %s", at(path), classString(a.Class), classString(b.Class))
		}
		fallthrough
	case List:
		if len(a.Elems) != len(b.Elems) {
			return fmt.Sprintf("%s: %s with %d elements vs %d elements", at(path), a.Kind, len(a.Elems), len(b.Elems))
		}
		for i := range a.Elems {
			if Equal(a.Elems[i], b.Elems[i]) {
				continue
			}
			sub := path + "[" + strconv.Itoa(i) + "]"
			if a.Kind == Object && a.Class != nil && i < len(a.Class.Fields) {
				sub = path + "." + a.Class.Fields[i]
			}
			if s := d.diff(a.Elems[i], b.Elems[i], sub); s != "" {
				return s
			}
		}
	case Map:
		if len(a.Pairs) != len(b.Pairs) {
			return fmt.Sprintf("%s: Map with %d entries vs %d entries", at(path), len(a.Pairs), len(b.Pairs))
		}
		e := &eq{assumed: map[pairKey]struct{}{}}
		partner, used := e.matchPairs(a, b)
		for i, kv := range a.Pairs {
			if partner[i] >= 0 {
				continue
			}
			// an entry of a without partner: look for an unused entry of b with an equal key
			hit := -1
			for j, kw := range b.Pairs {
				if !used[j] && Equal(kv[0], kw[0]) {
					hit = j
					break
				}
			}
			if hit < 0 {
				return fmt.Sprintf("%s: key %s only on the left (value %s)", at(path), brief(kv[0]), brief(kv[1]))
			}
			if s := d.diff(kv[1], b.Pairs[hit][1], path+keyLabel(kv[0])); s != "" {
				return s
			}
		}
		for j, kw := range b.Pairs {
			if !used[j] {
				seen := false
				for i, kv := range a.Pairs {
					if partner[i] < 0 && Equal(kv[0], kw[0]) {
						seen = true
						break
					}
				}
				if !seen {
					return fmt.Sprintf("%s: key %s only on the right (value %s)", at(path), brief(kw[0]), brief(kw[1]))
				}
			}
		}
	}
	return ""
}

func classString(c *Class) string {
	if c == nil {
		return "<nil>"
	}
	return strconv.Quote(c.Name) + "{" + strings.Join(c.Fields, ",") + "}"
}
