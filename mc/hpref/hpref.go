// Package hpref is an independent reference implementation of the Hprose
// serialization grammar. It is used as a test oracle for hprose-golang v3
// (package io); it shares no code with it and its non-test files never import it.
//
// Three things live here:
//
//   - Parse / ParseSegments: a strict recogniser for the wire grammar that builds an
//     abstract value graph (back-references resolve to the same *Value pointer).
//   - Equal / Diff / String: graph equality (bisimulation, cycle-safe) on abstract values.
//   - Denote: the abstract value a Go value stands for under the hprose-golang type
//     mapping, computed by reflection without serializing anything.
//
// # Reference table rule (verified against /repo/io, both directions)
//
// One entry, in order of the OPENING tag, for every string (tag 's'), bytes, date, time,
// guid, list, map and object. 'u' (one char), 'e' (empty) and scalars take no entry.
//
// Class definitions: the class NAME takes no entry, but EVERY FIELD-NAME STRING inside
// the braces of a class definition takes one entry (they are ordinary 's' strings).
// Evidence: the encoder does AddReferenceCount(n) for the n field names before writing
// the class metadata (struct_encoder.go, structEncoder.Write) and never counts the name;
// the decoder reads the name with ReadSafeString (no refer.Add) and each field name
// through decodeString -> ReadString, which does refer.Add (struct_manager.go
// ReadStruct). Encoder and decoder agree. Empirically a self-referential
// struct{Name string; Next *Node} encodes as
//
//	c4"Node"2{s4"name"s4"next"}o0{s2"n1"r2;}
//
// i.e. "name"=0, "next"=1, the object=2, "n1"=3.
//
// The message string that follows an 'E' (error) tag is an ordinary string and takes an
// entry when it is written with tag 's' (encoder: AddReferenceCount(1); decoder:
// ReadString).
package hpref

import (
	"fmt"
	"math"
	"math/big"
	"sort"
	"strconv"
	"strings"
)

// Kind is the abstract kind of a value.
type Kind int

// The abstract kinds.
const (
	Null Kind = iota
	Bool
	Int
	Double
	Text
	Bytes
	DateTime
	Guid
	List
	Map
	Object
	Error
)

var kindNames = [...]string{"Null", "Bool", "Int", "Double", "Text", "Bytes", "DateTime", "Guid", "List", "Map", "Object", "Error"}

func (k Kind) String() string {
	if k >= 0 && int(k) < len(kindNames) {
		return kindNames[k]
	}
	return "Kind(" + strconv.Itoa(int(k)) + ")"
}

// Class is a class definition ('c' tag): a name and an ordered list of field names.
type Class struct {
	Name   string
	Fields []string
}

// Value is one node of an abstract value graph.
type Value struct {
	Kind                                   Kind
	Bool                                   bool
	Int                                    *big.Int // Kind==Int (digit, 'i', 'l')
	F                                      float64  // Kind==Double ('d', 'N', 'I+', 'I-')
	Text                                   string   // Kind==Text ('e' => "", 'u', 's'); Kind==Error: the message
	Bytes                                  []byte   // Kind==Bytes
	Year, Month, Day, Hour, Min, Sec, Nsec int      // Kind==DateTime
	HasDate, HasTime, UTC                  bool
	Guid                                   [16]byte
	Elems                                  []*Value    // List elements; Object field values (in class order)
	Pairs                                  [][2]*Value // Map entries in stream order
	Class                                  *Class      // Object
	Tag                                    byte        // the wire tag that introduced it (digit chars for digits); 0 from Denote
	Ref                                    int         // index in the reference table, -1 if this item is not referable
}

// ---------------------------------------------------------------------------------
// String

const stringNodeBudget = 4000

type printer struct {
	sb      strings.Builder
	onStack map[*Value]int // value -> depth at which it is open
	budget  int
}

// String renders a value compactly and deterministically (map entries are sorted by their
// rendering; a value that is reached again while it is still open is printed as ^N, N being
// the number of levels up). Output is truncated with "..." after a node budget.
func (v *Value) String() string {
	p := &printer{onStack: map[*Value]int{}, budget: stringNodeBudget}
	p.print(v, 0)
	return p.sb.String()
}

func fmtDouble(f float64) string {
	switch {
	case math.IsNaN(f):
		return "NaN"
	case math.IsInf(f, 1):
		return "+Inf"
	case math.IsInf(f, -1):
		return "-Inf"
	}
	return strconv.FormatFloat(f, 'g', -1, 64)
}

func (v *Value) dateString() string {
	var sb strings.Builder
	if v.HasDate || !v.HasTime {
		fmt.Fprintf(&sb, "%04d-%02d-%02d", v.Year, v.Month, v.Day)
	}
	if v.HasTime {
		fmt.Fprintf(&sb, "T%02d:%02d:%02d", v.Hour, v.Min, v.Sec)
		if v.Nsec != 0 {
			fmt.Fprintf(&sb, ".%09d", v.Nsec)
		}
	}
	if v.UTC {
		sb.WriteByte('Z')
	} else {
		sb.WriteString(" local")
	}
	return sb.String()
}

func guidString(g [16]byte) string {
	return fmt.Sprintf("%x-%x-%x-%x-%x", g[0:4], g[4:6], g[6:8], g[8:10], g[10:16])
}

func (p *printer) sub(v *Value, depth int) string {
	q := &printer{onStack: p.onStack, budget: p.budget}
	q.print(v, depth)
	p.budget = q.budget
	return q.sb.String()
}

func (p *printer) print(v *Value, depth int) {
	if v == nil {
		p.sb.WriteString("<nil>")
		return
	}
	if p.budget <= 0 {
		p.sb.WriteString("...")
		return
	}
	p.budget--
	switch v.Kind {
	case Null:
		p.sb.WriteString("null")
	case Bool:
		p.sb.WriteString(strconv.FormatBool(v.Bool))
	case Int:
		if v.Int == nil {
			p.sb.WriteString("Int(<nil>)")
		} else {
			p.sb.WriteString(v.Int.String())
		}
	case Double:
		p.sb.WriteString("double(" + fmtDouble(v.F) + ")")
	case Text:
		p.sb.WriteString(strconv.Quote(v.Text))
	case Bytes:
		fmt.Fprintf(&p.sb, "bytes(%x)", v.Bytes)
	case DateTime:
		p.sb.WriteString("datetime(" + v.dateString() + ")")
	case Guid:
		p.sb.WriteString("guid(" + guidString(v.Guid) + ")")
	case Error:
		p.sb.WriteString("error(" + strconv.Quote(v.Text) + ")")
	case List, Map, Object:
		if d, open := p.onStack[v]; open {
			fmt.Fprintf(&p.sb, "^%d", depth-d)
			return
		}
		p.onStack[v] = depth
		defer delete(p.onStack, v)
		switch v.Kind {
		case List:
			p.sb.WriteByte('[')
			for i, e := range v.Elems {
				if i > 0 {
					p.sb.WriteString(", ")
				}
				p.print(e, depth+1)
			}
			p.sb.WriteByte(']')
		case Map:
			items := make([]string, len(v.Pairs))
			for i, kv := range v.Pairs {
				items[i] = p.sub(kv[0], depth+1) + ": " + p.sub(kv[1], depth+1)
			}
			sort.Strings(items)
			p.sb.WriteByte('{')
			p.sb.WriteString(strings.Join(items, ", "))
			p.sb.WriteByte('}')
		case Object:
			name := "?"
			var fields []string
			if v.Class != nil {
				name, fields = v.Class.Name, v.Class.Fields
			}
			p.sb.WriteString(name)
			p.sb.WriteByte('{')
			for i, e := range v.Elems {
				if i > 0 {
					p.sb.WriteString(", ")
				}
				if i < len(fields) {
					p.sb.WriteString(fields[i])
				} else {
					p.sb.WriteString("#" + strconv.Itoa(i))
				}
				p.sb.WriteString(": ")
				p.print(e, depth+1)
			}
			p.sb.WriteByte('}')
		}
	default:
		p.sb.WriteString(v.Kind.String())
	}
}

// brief renders a value for Diff messages: kind plus a short rendering.
func brief(v *Value) string {
	if v == nil {
		return "<nil>"
	}
	s := v.String()
	if len(s) > 80 {
		s = s[:77] + "..."
	}
	switch v.Kind {
	case Null:
		return "Null"
	}
	return v.Kind.String() + " " + s
}
