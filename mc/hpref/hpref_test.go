package hpref

import (
	"container/list"
	"errors"
	"fmt"
	"math"
	"math/big"
	mrand "math/rand"
	"strings"
	"testing"
	"time"

	"github.com/google/uuid"
	hio "github.com/hprose/hprose-golang/v3/io"
)

// ---------------------------------------------------------------------------------
// builders for expected values

func vNull() *Value         { return &Value{Kind: Null, Ref: -1} }
func vBool(b bool) *Value   { return &Value{Kind: Bool, Bool: b, Ref: -1} }
func vInt(n int64) *Value   { return &Value{Kind: Int, Int: big.NewInt(n), Ref: -1} }
func vD(f float64) *Value   { return &Value{Kind: Double, F: f, Ref: -1} }
func vS(s string) *Value    { return &Value{Kind: Text, Text: s, Ref: -1} }
func vB(b string) *Value    { return &Value{Kind: Bytes, Bytes: []byte(b), Ref: -1} }
func vErr(s string) *Value  { return &Value{Kind: Error, Text: s, Ref: -1} }
func vL(e ...*Value) *Value { return &Value{Kind: List, Elems: e, Ref: -1} }
func vBig(s string) *Value {
	n, _ := new(big.Int).SetString(s, 10)
	return &Value{Kind: Int, Int: n, Ref: -1}
}
func vM(kv ...*Value) *Value {
	m := &Value{Kind: Map, Ref: -1}
	for i := 0; i+1 < len(kv); i += 2 {
		m.Pairs = append(m.Pairs, [2]*Value{kv[i], kv[i+1]})
	}
	return m
}
func vO(name string, fields []string, e ...*Value) *Value {
	return &Value{Kind: Object, Class: &Class{Name: name, Fields: fields}, Elems: e, Ref: -1}
}
func vDT(y, mo, d, h, mi, s, ns int, hasDate, hasTime, utc bool) *Value {
	return &Value{Kind: DateTime, Year: y, Month: mo, Day: d, Hour: h, Min: mi, Sec: s, Nsec: ns,
		HasDate: hasDate, HasTime: hasTime, UTC: utc, Ref: -1}
}
func vG(s string) *Value {
	u := uuid.MustParse(s)
	return &Value{Kind: Guid, Guid: u, Ref: -1}
}

// ---------------------------------------------------------------------------------
// 1. Parse self-consistency

func TestParseValid(t *testing.T) {
	negZero := math.Copysign(0, -1)
	cases := []struct {
		in   string
		opt  Options
		want []*Value
	}{
		{"", Options{}, nil},
		{"0", Options{}, []*Value{vInt(0)}},
		{"9", Options{}, []*Value{vInt(9)}},
		{"i10;", Options{}, []*Value{vInt(10)}},
		{"i-2147483648;", Options{}, []*Value{vInt(math.MinInt32)}},
		{"i2147483647;", Options{}, []*Value{vInt(math.MaxInt32)}},
		{"l123456789012345678901234567890;", Options{}, []*Value{vBig("123456789012345678901234567890")}},
		{"l-5;", Options{}, []*Value{vInt(-5)}},
		{"d1.5;", Options{}, []*Value{vD(1.5)}},
		{"d-0;", Options{}, []*Value{vD(negZero)}},
		{"d1e+21;", Options{}, []*Value{vD(1e21)}},
		{"d5e-324;", Options{}, []*Value{vD(5e-324)}},
		{"d1;", Options{}, []*Value{vD(1)}},
		{"d-1.5E3;", Options{}, []*Value{vD(-1500)}},
		{"NI+I-", Options{}, []*Value{vD(math.NaN()), vD(math.Inf(1)), vD(math.Inf(-1))}},
		{"netf", Options{}, []*Value{vNull(), vS(""), vBool(true), vBool(false)}},
		{"D20200203T040506Z", Options{}, []*Value{vDT(2020, 2, 3, 4, 5, 6, 0, true, true, true)}},
		{"D20200203;", Options{}, []*Value{vDT(2020, 2, 3, 0, 0, 0, 0, true, false, false)}},
		{"D20200203T040506.007;", Options{}, []*Value{vDT(2020, 2, 3, 4, 5, 6, 7000000, true, true, false)}},
		{"D20200203T040506.000007Z", Options{}, []*Value{vDT(2020, 2, 3, 4, 5, 6, 7000, true, true, true)}},
		{"D20200203T040506.000000007Z", Options{}, []*Value{vDT(2020, 2, 3, 4, 5, 6, 7, true, true, true)}},
		{"D00010101Z", Options{}, []*Value{vDT(1, 1, 1, 0, 0, 0, 0, true, false, true)}},
		{"T040506Z", Options{}, []*Value{vDT(1970, 1, 1, 4, 5, 6, 0, false, true, true)}},
		{"T235959.120;", Options{}, []*Value{vDT(1970, 1, 1, 23, 59, 59, 120000000, false, true, false)}},
		{`b""`, Options{}, []*Value{vB("")}},
		{`b3"abc"`, Options{}, []*Value{vB("abc")}},
		{"b2\"\xff\"\"", Options{}, []*Value{vB("\xff\"")}},
		{"ua", Options{}, []*Value{vS("a")}},
		{"ué", Options{}, []*Value{vS("é")}},
		{"u€", Options{}, []*Value{vS("€")}},
		{`s""`, Options{}, []*Value{vS("")}},
		{`s3"abc"`, Options{}, []*Value{vS("abc")}},
		{`s2"😀"`, Options{}, []*Value{vS("😀")}},
		{`s4"a😀b"`, Options{}, []*Value{vS("a😀b")}},
		{`s3"a"b"`, Options{}, []*Value{vS(`a"b`)}},
		{`s2"é€"`, Options{}, []*Value{vS("é€")}},
		{"g{01234567-89ab-cdef-0123-456789ABCDEF}", Options{}, []*Value{vG("01234567-89ab-cdef-0123-456789abcdef")}},
		{"a{}", Options{}, []*Value{vL()}},
		{"a3{123}", Options{}, []*Value{vL(vInt(1), vInt(2), vInt(3))}},
		{"a2{a{}a1{n}}", Options{}, []*Value{vL(vL(), vL(vNull()))}},
		{"a12{000000000000}", Options{}, []*Value{vL(vInt(0), vInt(0), vInt(0), vInt(0), vInt(0), vInt(0), vInt(0), vInt(0), vInt(0), vInt(0), vInt(0), vInt(0))}},
		{"m{}", Options{}, []*Value{vM()}},
		{"m2{ua1ub2}", Options{}, []*Value{vM(vS("b"), vInt(2), vS("a"), vInt(1))}},
		{"m1{a1{1}m{}}", Options{}, []*Value{vM(vL(vInt(1)), vM())}},
		{`c3"One"1{s1"a"}o0{1}`, Options{}, []*Value{vO("One", []string{"a"}, vInt(1))}},
		{`c5"Empty"{}o0{}`, Options{}, []*Value{vO("Empty", nil)}},
		{`c1"A"{}c1"B"1{s1"x"}o1{o0{}}`, Options{}, []*Value{vO("B", []string{"x"}, vO("A", nil))}},
		{`c1"A"1{s1"x"}o0{1}o0{2}`, Options{}, []*Value{vO("A", []string{"x"}, vInt(1)), vO("A", []string{"x"}, vInt(2))}},
		{`a2{c1"A"1{s1"x"}o0{1}o0{2}}`, Options{Simple: true}, []*Value{vL(vO("A", []string{"x"}, vInt(1)), vO("A", []string{"x"}, vInt(2)))}},
		{`a2{s3"abc"r1;}`, Options{}, []*Value{vL(vS("abc"), vS("abc"))}},
		{`a2{s3"abc"s3"abc"}`, Options{Simple: true}, []*Value{vL(vS("abc"), vS("abc"))}},
		// a reference may point at a class field-name string: "xy" is entry 0, the object entry 1
		{`c1"A"1{s2"xy"}o0{r0;}`, Options{}, []*Value{vO("A", []string{"xy"}, vS("xy"))}},
		{`a4{D20200203Zr1;b1"x"r2;}`, Options{}, []*Value{vL(vDT(2020, 2, 3, 0, 0, 0, 0, true, false, true), vDT(2020, 2, 3, 0, 0, 0, 0, true, false, true), vB("x"), vB("x"))}},
		{`a2{g{01234567-89ab-cdef-0123-456789abcdef}r1;}`, Options{}, []*Value{vL(vG("01234567-89ab-cdef-0123-456789abcdef"), vG("01234567-89ab-cdef-0123-456789abcdef"))}},
		{`a2{T010203Zr1;}`, Options{}, []*Value{vL(vDT(1970, 1, 1, 1, 2, 3, 0, false, true, true), vDT(1970, 1, 1, 1, 2, 3, 0, false, true, true))}},
		{`1s3"abc"r0;t`, Options{}, []*Value{vInt(1), vS("abc"), vS("abc"), vBool(true)}},
		{`Es4"boom"`, Options{AllowError: true}, []*Value{vErr("boom")}},
		{`Es""`, Options{AllowError: true}, []*Value{vErr("")}},
		{`Eux`, Options{AllowError: true}, []*Value{vErr("x")}},
		{`s4"boom"Er0;`, Options{AllowError: true}, []*Value{vS("boom"), vErr("boom")}},
		{`Es4"boom"r0;`, Options{AllowError: true}, []*Value{vErr("boom"), vS("boom")}},
	}
	for _, c := range cases {
		p, err := Parse([]byte(c.in), c.opt)
		if err != nil {
			t.Errorf("Parse(%q): unexpected error %v", c.in, err)
			continue
		}
		if len(p.Values) != len(c.want) {
			t.Errorf("Parse(%q): %d values, want %d", c.in, len(p.Values), len(c.want))
			continue
		}
		for i := range c.want {
			if d := Diff(p.Values[i], c.want[i]); d != "" {
				t.Errorf("Parse(%q) value %d: %s", c.in, i, d)
			}
		}
		if n := len(p.Ends); n > 0 && p.Ends[n-1] != len(c.in) {
			t.Errorf("Parse(%q): last end %d, want %d", c.in, p.Ends[n-1], len(c.in))
		}
		if c.opt.Simple && len(p.Refs) != 0 {
			t.Errorf("Parse(%q): simple mode built a reference table", c.in)
		}
	}
}

func TestParseStructure(t *testing.T) {
	// shared pointer
	p, err := Parse([]byte(`a2{s3"abc"r1;}`), Options{})
	if err != nil {
		t.Fatal(err)
	}
	l := p.Values[0]
	if l.Elems[0] != l.Elems[1] || p.NumBackRefs != 1 || len(p.Refs) != 2 || p.Refs[0] != l || l.Ref != 0 || l.Elems[0].Ref != 1 {
		t.Errorf("sharing not preserved: %v refs=%d", l, len(p.Refs))
	}
	if l.Tag != 'a' || l.Elems[0].Tag != 's' {
		t.Errorf("tags: %c %c", l.Tag, l.Elems[0].Tag)
	}
	// cycles
	p, err = Parse([]byte(`a1{r0;}`), Options{})
	if err != nil || p.Values[0].Elems[0] != p.Values[0] {
		t.Errorf("cyclic list: %v %v", p, err)
	}
	p, err = Parse([]byte(`m1{s4"self"r0;}`), Options{})
	if err != nil || p.Values[0].Pairs[0][1] != p.Values[0] {
		t.Errorf("cyclic map: %v %v", p, err)
	}
	p, err = Parse([]byte(`c4"Node"2{s4"name"s4"next"}o0{s2"n1"r2;}`), Options{})
	if err != nil {
		t.Fatal(err)
	}
	o := p.Values[0]
	if o.Kind != Object || o.Elems[1] != o || o.Ref != 2 || len(p.Refs) != 4 || p.Refs[0].Text != "name" || p.Refs[3].Text != "n1" || len(p.Classes) != 1 {
		t.Errorf("cyclic object: %v refs=%v", o, p.Refs)
	}
	if s := o.String(); !strings.Contains(s, "^1") {
		t.Errorf("String of cyclic object: %s", s)
	}
	// stream offsets
	p, err = Parse([]byte(`1s3"abc"r0;tc1"A"{}o0{}`), Options{})
	if err != nil {
		t.Fatal(err)
	}
	if fmt.Sprint(p.Ends) != "[1 8 11 12 23]" {
		t.Errorf("Ends = %v", p.Ends)
	}
	if p.Values[1] != p.Values[2] {
		t.Errorf("top-level back reference is not the same pointer")
	}
	if p.Values[0].Tag != '1' || p.Values[0].Ref != -1 {
		t.Errorf("digit tag/ref: %c %d", p.Values[0].Tag, p.Values[0].Ref)
	}
	// segments
	in := []byte(`s2"ab"r0;s2"cd"r0;`)
	p, err = ParseSegments(in, []int{9}, Options{})
	if err != nil {
		t.Fatal(err)
	}
	got := ""
	for _, v := range p.Values {
		got += v.Text + ","
	}
	if got != "ab,ab,cd,cd," || len(p.Refs) != 1 || p.NumBackRefs != 2 {
		t.Errorf("segments: %s refs=%d", got, len(p.Refs))
	}
	p, err = Parse(in, Options{})
	if err != nil || p.Values[3].Text != "ab" {
		t.Errorf("no reset: %v %v", p, err)
	}
	if _, err = ParseSegments(in, []int{3}, Options{}); err == nil {
		t.Errorf("reset inside a value accepted")
	}
	if _, err = ParseSegments([]byte(`c1"A"{}o0{}o0{}`), []int{11}, Options{}); err == nil {
		t.Errorf("class table not reset at segment boundary")
	}
	if _, err = ParseSegments([]byte(`c1"A"{}o0{}o0{}`), []int{0, 15}, Options{}); err != nil {
		t.Errorf("resets at 0 and len: %v", err)
	}
}

func TestParseInvalid(t *testing.T) {
	cases := []struct {
		in  string
		opt Options
		off int // expected offset, -1 = don't care
	}{
		// counts and braces
		{"a2{1}", Options{}, 4},
		{"a1{12}", Options{}, 4},
		{"a1{1", Options{}, 4},
		{"a1{", Options{}, 3},
		{"a1", Options{}, 2},
		{"a0{}", Options{}, 1},
		{"a{1}", Options{}, 2},
		{"a999999{1}", Options{}, 1},
		{"m1{1}", Options{}, 4},
		{"m1{12", Options{}, 5},
		{"m1{123}", Options{}, 5},
		{"m0{}", Options{}, 1},
		{"a1{1}}", Options{}, 5},
		// strings
		{`s3"😀"`, Options{}, -1},
		{`s1"😀"`, Options{}, 3},
		{`s4"a😀"`, Options{}, -1},
		{`s2"a😀"`, Options{}, 4},
		{`s2"ab`, Options{}, 5},
		{`s2"abc"`, Options{}, 5},
		{`s3"ab"`, Options{}, -1},
		{"s2\"a\xff\"", Options{}, 4},
		{"s1\"\xc0\x80\"", Options{}, 3},
		{"s1\"\xed\xa0\x80\"", Options{}, 3},
		{`s0""`, Options{}, 1},
		{`s2ab"`, Options{}, 2},
		{`s`, Options{}, 1},
		{"u😀", Options{}, 1},
		{"u\xff", Options{}, 1},
		{"u\xc3", Options{}, 1},
		{"u", Options{}, 1},
		// bytes
		{`b3"ab"`, Options{}, -1},
		{`b1"ab"`, Options{}, 4},
		{`b0""`, Options{}, 1},
		{`b2"ab`, Options{}, 5},
		// references
		{"r0;", Options{}, 1},
		{"a1{r1;}", Options{}, 4},
		{"a1{r0;}", Options{Simple: true}, 3},
		{"r;", Options{}, 1},
		{`s2"ab"r0`, Options{}, 8},
		{`s2"ab"r-1;`, Options{}, 7},
		{`uar0;`, Options{}, 3},            // uchar takes no entry
		{`er0;`, Options{}, 2},             // empty takes no entry
		{`c2"ab"{}o0{}r1;`, Options{}, 13}, // the class name takes no entry (only the object, entry 0)
		// classes and objects
		{"o0{}", Options{}, 1},
		{`c1"A"1{s1"x"}o0{}`, Options{}, 16},
		{`c1"A"1{s1"x"}o0{12}`, Options{}, 17},
		{`c1"A"1{s1"x"}1`, Options{}, 13},
		{`c1"A"1{s1"x"}`, Options{}, 13},
		{`c1"A"1{ux}o0{1}`, Options{}, 7},
		{`c1"A"{}o1{}`, Options{}, 8},
		{`c1"A"2{s1"x"}o0{1}`, Options{}, 12},
		{`c1"A"{s1"x"}o0{1}`, Options{}, 6},
		{`c2"A"{}o0{}`, Options{}, -1},
		{`c1"A"{}o{}`, Options{}, 8},
		{`c1"A"{}o0}`, Options{}, 9},
		// numbers
		{"i2147483648;", Options{}, 1},
		{"i-2147483649;", Options{}, 1},
		{"i;", Options{}, 1},
		{"i1", Options{}, 2},
		{"i1x;", Options{}, 2},
		{"i--1;", Options{}, 2},
		{"i+1;", Options{}, 1},
		{"l;", Options{}, 1},
		{"l1.5;", Options{}, 2},
		{"l-;", Options{}, 2},
		{"d;", Options{}, 1},
		{"d1e;", Options{}, 1},
		{"d+1;", Options{}, 1},
		{"dInf;", Options{}, 1},
		{"d+Inf;", Options{}, -1},
		{"dNaN;", Options{}, 1},
		{"d0x10;", Options{}, 2},
		{"d1e400;", Options{}, 1},
		{"d1_0;", Options{}, 2},
		{"d1", Options{}, 2},
		{"d.;", Options{}, 1},
		{"d-;", Options{}, 1},
		{"I", Options{}, 1},
		{"I*", Options{}, 1},
		// dates
		{"D20201303Z", Options{}, 5},
		{"D20200003Z", Options{}, 5},
		{"D20200200Z", Options{}, 7},
		{"D20200232Z", Options{}, 7},
		{"D20200203T240000Z", Options{}, 10},
		{"D20200203T006000Z", Options{}, 12},
		{"D20200203T000060Z", Options{}, 14},
		{"D20200203T040506.12Z", Options{}, 17},
		{"D20200203T040506.1234Z", Options{}, 17},
		{"D20200203T040506.Z", Options{}, 17},
		{"D20200203", Options{}, 9},
		{"D20200203X", Options{}, 9},
		{"D2020020Z", Options{}, 8},
		{"D-0200203Z", Options{}, 1},
		{"D20200203T0405Z", Options{}, 14},
		{"T240000Z", Options{}, 1},
		{"T040506.1234Z", Options{}, 8},
		{"T040506", Options{}, 7},
		// guid
		{"g{01234567-89ab-cdef-0123-456789abcdeg}", Options{}, 37},
		{"g{0123456789ab-cdef-0123-456789abcdef0}", Options{}, 10},
		{"g{01234567-89ab-cdef-0123-456789abcdef", Options{}, 38},
		{"g01234567-89ab-cdef-0123-456789abcdef}", Options{}, 1},
		{"g{01234567-89ab-cdef-0123-456789abcde}", Options{}, -1},
		// tags
		{"x", Options{}, 0},
		{"z", Options{}, 0},
		{"}", Options{}, 0},
		{";", Options{}, 0},
		{"1 2", Options{}, 1},
		{"a1{x}", Options{}, 3},
		// errors
		{`Es4"boom"`, Options{}, 0},
		{`a1{Es4"boom"}`, Options{AllowError: true}, 3},
		{`Ei1;`, Options{AllowError: true}, 1},
		{`Eb1"x"`, Options{AllowError: true}, 1},
		{`E`, Options{AllowError: true}, 1},
		{`a1{1}Er0;`, Options{AllowError: true}, 6},
	}
	for _, c := range cases {
		p, err := Parse([]byte(c.in), c.opt)
		if err == nil {
			t.Errorf("Parse(%q): accepted as %v", c.in, p.Values)
			continue
		}
		pe, ok := err.(*ParseError)
		if !ok {
			t.Errorf("Parse(%q): error %v is not a *ParseError", c.in, err)
			continue
		}
		if c.off >= 0 && pe.Offset != c.off {
			t.Errorf("Parse(%q): offset %d, want %d (%v)", c.in, pe.Offset, c.off, err)
		}
	}
	// depth guard
	old := MaxDepth
	MaxDepth = 50
	if _, err := Parse([]byte(strings.Repeat("a1{", 60)+"n"+strings.Repeat("}", 60)), Options{}); err == nil {
		t.Errorf("MaxDepth not enforced")
	}
	if _, err := Parse([]byte(strings.Repeat("a1{", 40)+"n"+strings.Repeat("}", 40)), Options{}); err != nil {
		t.Errorf("depth 40 rejected: %v", err)
	}
	MaxDepth = old
}

// ---------------------------------------------------------------------------------
// 3. Equal / Diff

func within(t *testing.T, name string, f func()) {
	t.Helper()
	done := make(chan struct{})
	go func() { defer close(done); f() }()
	select {
	case <-done:
	case <-time.After(10 * time.Second):
		t.Fatalf("%s did not terminate", name)
	}
}

func TestEqualBasics(t *testing.T) {
	negZero := math.Copysign(0, -1)
	eq := [][2]*Value{
		{vInt(3), vBig("3")},
		{vD(math.NaN()), vD(math.NaN())},
		{vS("abc"), &Value{Kind: Text, Text: "abc", Tag: 's', Ref: 7}},
		{vM(vS("a"), vInt(1), vS("b"), vInt(2)), vM(vS("b"), vInt(2), vS("a"), vInt(1))},
		{vM(vD(math.NaN()), vInt(1), vD(math.NaN()), vInt(2)), vM(vD(math.NaN()), vInt(2), vD(math.NaN()), vInt(1))},
		{vM(vL(vInt(1)), vS("x"), vL(vInt(2)), vS("y")), vM(vL(vInt(2)), vS("y"), vL(vInt(1)), vS("x"))},
		{vO("A", []string{"x"}, vInt(1)), vO("A", []string{"x"}, vInt(1))},
		{vL(), vL()},
		{vErr("x"), vErr("x")},
	}
	for _, p := range eq {
		if !Equal(p[0], p[1]) || Diff(p[0], p[1]) != "" {
			t.Errorf("not equal: %v vs %v: %s", p[0], p[1], Diff(p[0], p[1]))
		}
		if !Equal(p[1], p[0]) {
			t.Errorf("not symmetric: %v vs %v", p[0], p[1])
		}
	}
	ne := []struct {
		a, b *Value
		diff string
	}{
		{vInt(3), vD(3), "(root): Int 3 vs Double double(3)"},
		{vD(0), vD(negZero), "(root): Double double(0) vs Double double(-0)"},
		{vS(""), vNull(), ""},
		{vS("x"), vErr("x"), ""},
		{vS("ab"), vB("ab"), ""},
		{vL(vInt(1)), vL(vInt(1), vInt(2)), "(root): List with 1 elements vs 2 elements"},
		{vL(vInt(0), vO("A", []string{"name"}, vInt(3))), vL(vInt(0), vO("A", []string{"name"}, vInt(4))), "[1].name: Int 3 vs Int 4"},
		{vO("A", []string{"x"}, vInt(1)), vO("B", []string{"x"}, vInt(1)), ""},
		{vO("A", []string{"x"}, vInt(1)), vO("A", []string{"y"}, vInt(1)), ""},
		{vM(vS("a"), vInt(1)), vM(vS("a"), vInt(2)), `["a"]: Int 1 vs Int 2`},
		{vM(vS("a"), vInt(1)), vM(vS("b"), vInt(1)), ""},
		{vM(vS("a"), vInt(1), vS("a"), vInt(1)), vM(vS("a"), vInt(1), vS("a"), vInt(2)), ""},
		{vDT(1970, 1, 1, 0, 0, 0, 0, true, false, true), vDT(1970, 1, 1, 0, 0, 0, 0, false, true, true), ""},
		{vDT(2020, 1, 1, 0, 0, 0, 0, true, false, true), vDT(2020, 1, 1, 0, 0, 0, 0, true, false, false), ""},
		{vG("01234567-89ab-cdef-0123-456789abcdef"), vG("01234567-89ab-cdef-0123-456789abcdee"), ""},
		{vNull(), nil, ""},
	}
	for _, c := range ne {
		if Equal(c.a, c.b) || Equal(c.b, c.a) {
			t.Errorf("equal: %v vs %v", c.a, c.b)
		}
		d := Diff(c.a, c.b)
		if d == "" {
			t.Errorf("Diff empty for %v vs %v", c.a, c.b)
		}
		if c.diff != "" && d != c.diff {
			t.Errorf("Diff = %q, want %q", d, c.diff)
		}
	}
}

func TestEqualCyclic(t *testing.T) {
	within(t, "cyclic equal/diff", func() {
		// a = [a]   b = [[b]]   : bisimilar
		a := vL(nil)
		a.Elems[0] = a
		b := vL(vL(nil))
		b.Elems[0].Elems[0] = b
		if !Equal(a, b) || !Equal(b, a) || Diff(a, b) != "" {
			t.Errorf("unfolded cycles differ: %s", Diff(a, b))
		}
		// c = [[c, 1]]  is not bisimilar to a
		c := vL(vL(nil, vInt(1)))
		c.Elems[0].Elems[0] = c
		if Equal(a, c) || Diff(a, c) == "" {
			t.Errorf("a == c")
		}
		// maps: m = {self: m}  vs  m2 = {self: {self: m2}}
		m := vM(vS("self"), nil)
		m.Pairs[0][1] = m
		m2 := vM(vS("self"), vM(vS("self"), nil))
		m2.Pairs[0][1].Pairs[0][1] = m2
		if !Equal(m, m2) || Diff(m, m2) != "" {
			t.Errorf("cyclic maps differ: %s", Diff(m, m2))
		}
		// maps whose KEYS are cyclic containers, with entries in different order
		k1 := vL(nil)
		k1.Elems[0] = k1
		k2 := vL(vL(nil))
		k2.Elems[0].Elems[0] = k2
		x := vM(k1, vInt(1), vL(vInt(5)), vInt(2))
		y := vM(vL(vInt(5)), vInt(2), k2, vInt(1))
		if !Equal(x, y) {
			t.Errorf("maps with cyclic keys differ: %s", Diff(x, y))
		}
		y.Pairs[1][1] = vInt(9)
		if Equal(x, y) || Diff(x, y) == "" {
			t.Errorf("maps with cyclic keys equal after change")
		}
		// rings of objects: (x -> y -> x) vs (x -> z -> x)
		ring := func(n1, n2 string) *Value {
			f := []string{"name", "next"}
			p := vO("Node", f, vS(n1), nil)
			q := vO("Node", f, vS(n2), p)
			p.Elems[1] = q
			return p
		}
		r1, r2, r3 := ring("x", "y"), ring("x", "z"), ring("x", "y")
		if !Equal(r1, r3) {
			t.Errorf("equal rings differ: %s", Diff(r1, r3))
		}
		if Equal(r1, r2) {
			t.Errorf("rings equal")
		}
		if d := Diff(r1, r2); d != `.next.name: Text "y" vs Text "z"` {
			t.Errorf("ring diff = %q", d)
		}
		// a pair that contains itself before the real difference: A=[A,1]  B=[B,2]
		A := vL(nil, vInt(1))
		A.Elems[0] = A
		B := vL(nil, vInt(2))
		B.Elems[0] = B
		if Equal(A, B) {
			t.Errorf("A == B")
		}
		if d := Diff(A, B); d != "[1]: Int 1 vs Int 2" {
			t.Errorf("self-containing diff = %q", d)
		}
		// a long chain ending in a cycle
		mk := func(n int, last int64) *Value {
			head := vL(vInt(0), nil)
			cur := head
			for i := 1; i < n; i++ {
				nx := vL(vInt(int64(i)), nil)
				cur.Elems[1] = nx
				cur = nx
			}
			cur.Elems[0] = vInt(last)
			cur.Elems[1] = head
			return head
		}
		if !Equal(mk(2000, 7), mk(2000, 7)) || Equal(mk(2000, 7), mk(2000, 8)) {
			t.Errorf("long cyclic chains")
		}
		if s := mk(2000, 7).String(); !strings.Contains(s, "...") && !strings.Contains(s, "^") {
			t.Errorf("String of long chain: %.80s", s)
		}
		_ = a.String() + m.String() + r1.String() + x.String()
		if a.String() != "[^1]" {
			t.Errorf("String(a) = %s", a.String())
		}
	})
}

// ---------------------------------------------------------------------------------
// 2. cross-check against the real library

type myErr struct{ Code int }

func (e *myErr) Error() string { return fmt.Sprint("code ", e.Code) }

type valErr struct{ Code int }

func (e valErr) Error() string { return fmt.Sprint("vcode ", e.Code) }

type errno int

func (e errno) Error() string { return "errno" }

type Inner struct {
	X int
	y int
}
type inner2 struct{ Z string }
type PInner struct{ W int }
type Outer struct {
	Inner // embedded at offset 0: the only place where the library reads flattened fields correctly
	*PInner
	A     int    `hprose:"aa"`
	B     string `json:"bb,omitempty"`
	C     int    `json:",omitempty"`
	D     int    `hprose:"-"`
	E     int    `json:"-"`
	Both  int    `hprose:"hp" json:"js"`
	Sp    int    `hprose:" spaced ,opt"`
	F     func()
	G     chan int
	H     *func()
	I     **chan int
	URL   string
	ñame  int
	Émile int
	T     time.Time
	PT    *time.Time
	Any   interface{}
	Str   fmt.Stringer
}
type EmbUnexported struct {
	inner2
	A int
}
type EmbLate struct {
	A int
	Inner
}
type EmbLateStr struct {
	A, B int
	inner2
}
type EmbTime struct {
	time.Time
	N int
}
type HasErrField struct {
	A   int
	Err error
	B   int
}
type HasBig struct {
	B *big.Int
	N int
}
type HasMyErr struct {
	P *myErr
	V valErr
}
type Ambiguous struct {
	A int
	B int `hprose:"a"`
}
type Bs []byte
type B8 uint8
type MyInt int
type MyStr string
type Node struct {
	Name string
	Next *Node
}
type One struct{ A int }
type Empty struct{}
type Ptrs struct {
	S  *[]int
	M  *map[string]int
	A  *[2]int
	S2 *[]int
	PP **int
	PS *string
	PI *interface{}
	U  *uuid.UUID
	L  *list.List
}
type Renamed struct{ V int }

type stringer struct{ s string }

func (s stringer) String() string { return s.s }

type xcase struct {
	name       string
	v          interface{}
	refOnly    bool   // cyclic: never hand to the library in simple mode (unrecoverable stack overflow)
	allowError bool   // parse with AllowError
	disagree   string // non-empty: known disagreement between library and grammar/Denote
	disagreeIn string // "" both modes, "ref" or "simple"
}

func encode(v interface{}, simple bool) (b []byte, err error) {
	defer func() {
		if r := recover(); r != nil {
			err = fmt.Errorf("encoder panic: %v", r)
		}
	}()
	e := new(hio.Encoder).Simple(simple)
	if err = e.Encode(v); err != nil {
		return e.Bytes(), err
	}
	return e.Bytes(), nil
}

func xcases() []xcase {
	var nb []byte
	var ns []int
	var nm map[string]int
	var np *Node
	var nif interface{}
	bi, _ := new(big.Int).SetString("-123456789012345678901234567890", 10)
	bf200, _, _ := big.ParseFloat("0.1", 10, 200, big.ToNearestEven)
	loc := time.FixedZone("X", 3600)
	tm := time.Date(2020, 2, 3, 4, 5, 6, 0, time.UTC)
	u := uuid.MustParse("01234567-89ab-cdef-0123-456789abcdef")
	l := list.New()
	l.PushBack(1)
	l.PushBack("xx")
	l.PushBack(&tm)
	n := &Node{Name: "n1"}
	n.Next = n
	ringA := &Node{Name: "ra"}
	ringB := &Node{Name: "rb", Next: ringA}
	ringA.Next = ringB
	n2 := &Node{Name: "shared"}
	cm := map[string]interface{}{"k": 1}
	cm["self"] = &cm
	cs := []interface{}{1, nil}
	cs[1] = &cs
	sm := map[string]int{"k": 1}
	ss := []int{1}
	arr := [2]int{1, 2}
	i := 5
	pi := &i
	ppi := &pi
	var ifc interface{} = "hello"
	s := "hello"
	one := &One{7}
	ptrs := Ptrs{S: &ss, M: &sm, A: &arr, S2: &ss, PP: ppi, PS: &s, PI: &ifc, U: &u, L: l}
	var nilSlicePtr *[]int
	var nilSliceInPtr []int
	var nilMapInPtr map[string]int
	var nilIface interface{}
	outer := Outer{Inner: Inner{X: 1, y: 2}, PInner: &PInner{3}, A: 4, B: "bee", C: 5, D: 6, E: 7,
		Both: 8, Sp: 9, URL: "u", Émile: 10, T: tm, PT: &tm, Any: []int{1}, Str: stringer{"str"}}

	return []xcase{
		{name: "nil", v: nil},
		{name: "bool", v: []bool{true, false}},
		{name: "ints", v: []interface{}{int8(-1), uint8(200), int16(-300), uint16(65535), int32(math.MinInt32), uint32(math.MaxUint32),
			int64(5), uint64(math.MaxUint64), int(1 << 40), uint(7), uintptr(9), int64(math.MinInt64), 10, -1, 0, 9, MyInt(42), int64(math.MaxInt32) + 1}},
		{name: "typed int slices", v: []interface{}{[]int{1, -1}, []int8{1}, []int16{300}, []int32{70000}, []int64{1 << 40}, []uint{1}, []uint16{1}, []uint32{1}, []uint64{1}, []uintptr{3}}},
		{name: "float32", v: []interface{}{float32(0.1), float32(3.4e38), float32(1e-45), float32(16777216), float32(math.Inf(1)), float32(math.NaN()), float32(math.Copysign(0, -1))}},
		{name: "float64", v: []float64{0, math.Copysign(0, -1), 1e21, 5e-324, math.NaN(), math.Inf(1), math.Inf(-1), 1e20, 123456789.125, math.MaxFloat64, 0.1}},
		{name: "[]float32", v: []float32{0.1, 0.2}},
		{name: "complex", v: []interface{}{complex(1, 0), complex(1, 2), complex64(complex(0.1, 0.2)), complex(1, math.Copysign(0, -1)), complex64(complex(0.1, 0)), []complex128{complex(1, 2)}, []complex64{complex(0.5, 0)}}},
		{name: "strings", v: []string{"", "a", "é", "€", "😀", "abc", "a😀b", "a\"b", "\x00", "日本語"}},
		{name: "named string", v: MyStr("named")},
		{name: "repeated strings", v: []string{"abc", "abc", "a", "a", "", "", "😀", "😀"}},
		{name: "invalid utf8 -> bytes", v: []string{"\xff\xfe", "\xff\xfe", "a\x80", "\xf8\x80\x80\x80", "\xc3"}},
		{name: "overlong utf8", v: "\xc0\x80", disagree: `library accepts overlong UTF-8 as text (utf16Length only checks lead/continuation shape) and emits u\xc0\x80; grammar requires valid UTF-8 text, so the value should be bytes b2"\xc0\x80"`},
		{name: "surrogate utf8", v: "a\xed\xa0\x80", disagree: `library emits s2"a\xed\xa0\x80" (CESU surrogate, invalid UTF-8) as a string; should be bytes`},
		{name: "utf8 above 10FFFF", v: "ab\xf4\x90\x80\x80", disagree: `library emits a string for a code point above U+10FFFF (invalid UTF-8); should be bytes`},
		{name: "nil []byte", v: nb},
		{name: "nil []int", v: ns},
		{name: "nil map", v: nm},
		{name: "nil *Node", v: np},
		{name: "nil iface in slice", v: []interface{}{nif, nb, ns, nm, np}},
		{name: "empty non-nil", v: []interface{}{[]byte{}, []int{}, map[string]int{}, [0]int{}, [0]byte{}, []string{}, []interface{}{}}},
		{name: "bytes", v: []interface{}{[]byte("abc"), []byte{0, 255, '"'}, [3]byte{1, 2, 3}, [][]byte{{1}, {2, 3}}}},
		{name: "named byte types are lists", v: []interface{}{Bs{1, 2}, []B8{1, 2}, [2]B8{1, 2}, []Bs{nil, {3}}}},
		{name: "[][]int nil inner", v: [][]int{nil, {1}}, disagree: "nil inner slice of a [][]int is written a{} (2-D fast path) while a nil slice everywhere else, including inside [][][]int and []Bs, is written n"},
		{name: "[][]string nil inner", v: [][]string{nil}, disagree: "nil inner slice of a [][]string is written a{} instead of n"},
		{name: "[][]interface{} nil inner", v: [][]interface{}{nil, {1}}, disagree: "nil inner slice of a [][]interface{} is written a{} instead of n"},
		{name: "[][][]int nil inner", v: [][][]int{nil, {{1}}}},
		{name: "[][][]int nil innermost", v: [][][]int{{{1}, nil}}, disagree: "nil innermost slice of a [][][]int is written a{} (the [][]int rows go through the 2-D fast path) while the nil middle slice is written n"},
		{name: "[][]byte nil then refs", v: []interface{}{[][]byte{nil, {1}}, "abc", "abc"}, disagreeIn: "ref",
			disagree: "writeBytesSliceBody does AddReferenceCount(n) for all n inner slices but writes a nil one as n (no entry): every later reference index is too high by one (here r4; with a 4-entry table)"},
		{name: "2d slices", v: []interface{}{[][]int{{1, 2}, {}}, [][]string{{"ab", "ab"}, {"ab"}}, [][]float64{{1.5}}, [][]bool{{true}}, [][]interface{}{{"ab", 1}}, [][]complex128{{complex(1, 2)}, {complex(3, 4)}}, "ab", "ab"}},
		{name: "arrays", v: []interface{}{[2]int{1, 2}, [2]string{"ab", "ab"}, [1][2]int{{1, 2}}, &arr, &arr}},
		{name: "big", v: []interface{}{bi, *bi, big.NewInt(0), big.NewFloat(1.5), *big.NewFloat(0.1), bf200, big.NewRat(1, 3), big.NewRat(4, 2), *big.NewRat(-1, 2), new(big.Float).Neg(new(big.Float))}},
		{name: "big.Float +Inf", v: new(big.Float).SetInf(false), disagree: "big.Float infinity is written d+Inf; (not a FLOAT of the grammar); should be I+"},
		{name: "big.Float -Inf", v: new(big.Float).SetInf(true), disagree: "big.Float infinity is written d-Inf;; should be I-"},
		{name: "times", v: []interface{}{
			time.Date(2020, 2, 3, 4, 5, 6, 0, time.UTC),
			time.Date(2020, 2, 3, 0, 0, 0, 0, time.UTC),
			time.Date(1970, 1, 1, 4, 5, 6, 7000000, time.UTC),
			time.Date(1970, 1, 1, 0, 0, 0, 0, time.UTC),
			time.Date(1970, 1, 1, 0, 0, 0, 1, time.UTC),
			time.Date(2020, 2, 3, 4, 5, 6, 7, time.Local),
			time.Date(2020, 2, 3, 4, 5, 6, 7000, time.Local),
			time.Time{},
			time.Date(9999, 12, 31, 23, 59, 59, 999999999, time.UTC),
			time.Date(0, 1, 1, 0, 0, 0, 0, time.UTC),
			time.Unix(0, 0),
			time.Unix(0, 0).UTC(),
			time.Unix(1600000000, 123456000).In(time.Local),
		}},
		{name: "times in other zones", v: []interface{}{
			time.Date(2020, 2, 3, 4, 5, 6, 7000, loc),
			time.Date(1970, 1, 1, 0, 30, 0, 0, loc),
			time.Date(2020, 2, 3, 4, 5, 6, 120000000, time.FixedZone("UTC", 0)),
		}, disagree: "unfixed library writes the wall clock of a FixedZone time with ';' (local), so the instant changes; hpref follows the fixed behaviour (convert with t.Local() first)"},
		{name: "shared *time", v: []interface{}{&tm, &tm, tm, tm}},
		{name: "uuid", v: []interface{}{u, &u, &u, []uuid.UUID{u}, uuid.UUID{}}},
		{name: "list.List", v: []interface{}{l, l, *l, list.New(), l.Front(), *l.Front()}},
		{name: "error top", v: errors.New("boom"), allowError: true},
		{name: "error empty", v: errors.New(""), allowError: true},
		{name: "error 1 char", v: errors.New("x"), allowError: true},
		{name: "error *struct", v: &myErr{3}, allowError: true},
		{name: "error struct value", v: valErr{3}, allowError: true},
		{name: "error named int", v: errno(3), allowError: true},
		{name: "error invalid utf8", v: errors.New("\xff"), allowError: true, disagree: `error message that is not valid UTF-8 is written Eb1"\xff" (bytes after E); grammar wants a string value`},
		{name: "error nested", v: []interface{}{errors.New("boom"), "boom", "boom"}, allowError: true, disagree: "an error value inside a container is written as a nested E tag; the grammar allows E only at top level of RPC responses"},
		{name: "[]error", v: []error{errors.New("boom"), nil}, allowError: true, disagree: "nested E tag inside a list"},
		{name: "struct error field nil", v: HasErrField{1, nil, 2}, disagree: "a nil field of static type error writes NOTHING: object with 3 declared fields carries 2 values (o0{12}); should be n"},
		{name: "struct error field set", v: HasErrField{1, errors.New("zz"), 2}, allowError: true, disagree: "nested E tag inside an object"},
		{name: "struct nil *big.Int field", v: HasBig{nil, 5}, disagree: "a nil *big.Int struct field is written l<nil>; (big.Int.String of nil); should be n (nil *big.Float / *big.Rat fields nil-dereference)"},
		{name: "struct *big.Int field", v: &HasBig{big.NewInt(5), 5}},
		{name: "struct fields of error-implementing concrete types", v: HasMyErr{&myErr{1}, valErr{2}}},
		{name: "same with nil ptr", v: HasMyErr{nil, valErr{2}}},
		{name: "Outer zero", v: Outer{}},
		{name: "Outer filled", v: outer},
		{name: "*Outer", v: &outer},
		{name: "embedded time.Time vanishes", v: EmbTime{tm, 1}},
		{name: "embedded unexported struct at offset 0", v: EmbUnexported{inner2{"zed"}, 1}},
		{name: "embedded struct not at offset 0", v: EmbLate{A: 1, Inner: Inner{X: 5}},
			disagree: "flattened fields of an embedded struct are read at their offset inside the embedded struct, ignoring the offset of the embedded struct itself: x is read from the memory of A (o0{11} instead of o0{15})"},
		{name: "embedded struct not at offset 0 (string)", v: EmbLateStr{A: 1, B: 2, inner2: inner2{"zed"}},
			disagree: "same offset bug: field z (a string) is read from the memory of A,B, giving a wild string header and a nil-dereference panic"},
		{name: "anonymous struct", v: struct {
			A int
			B string `hprose:"bee"`
			c int
			D []string
		}{1, "x", 2, []string{"bee", "bee"}}},
		{name: "anonymous struct empty", v: struct{}{}},
		{name: "anonymous struct 1 field ptr", v: &struct{ A string }{"aa"}},
		{name: "Empty", v: Empty{}},
		{name: "One", v: One{1}},
		{name: "One ptr twice + values", v: []interface{}{one, one, *one, One{7}}},
		{name: "self-referential struct", v: n, refOnly: true},
		{name: "ring of two", v: []*Node{ringA, ringB}, refOnly: true},
		{name: "shared ptr", v: []*Node{n2, n2, nil}},
		{name: "struct values", v: []Node{{Name: "ab"}, {Name: "ab"}}},
		{name: "chain", v: &Node{"a", &Node{"b", &Node{"a", nil}}}},
		{name: "cyclic map via ptr", v: &cm, refOnly: true},
		{name: "cyclic slice via ptr", v: &cs, refOnly: true},
		{name: "same map twice", v: []interface{}{sm, sm, &sm, &sm}},
		{name: "same slice twice", v: []interface{}{ss, ss, &ss, &ss}},
		{name: "ptrs", v: []interface{}{pi, ppi, (*int)(nil), &ppi, &ifc, &ifc, &s, &s, s, &nilIface, &nilSliceInPtr, &nilMapInPtr, nilSlicePtr}},
		{name: "struct of ptrs", v: ptrs},
		{name: "struct of nil ptrs", v: &Ptrs{}},
		{name: "map[string]int", v: map[string]int{"a": 1, "b": 2, "cc": 3, "dd": 4}},
		{name: "map[string]string", v: map[string]string{"ab": "cd", "cd": "ab", "ef": "ef", "": "x"}},
		{name: "map[string]interface{}", v: map[string]interface{}{"a": 1, "b": "a", "list": []int{1}, "m": map[string]interface{}{"a": nil}}},
		{name: "map[int]...", v: []interface{}{map[int]string{1: "one", 2: "two"}, map[int]int{1: 2}, map[int64]bool{1: true}, map[uint8]float64{1: 1.5}}},
		{name: "map struct key", v: map[One]int{{1}: 2, {2}: 3}},
		{name: "map array key", v: map[[2]int]string{{1, 2}: "ab", {3, 4}: "ab"}},
		{name: "map iface key", v: map[interface{}]interface{}{1: "a", "b": 2.5, 2.5: nil, true: []byte("x")}},
		{name: "map float key NaN", v: map[float64]string{math.NaN(): "nan", 1: "one"}},
		{name: "map[string]*Node", v: map[string]*Node{"a": n2, "b": n2, "c": nil}},
		{name: "map[string][]int", v: map[string][]int{"a": {1, 2}, "b": {3, 4}, "n": nil}},
		{name: "[]*int", v: []*int{nil, pi, pi}},
		{name: "[]fmt.Stringer", v: []fmt.Stringer{stringer{"a"}, nil}},
		{name: "nested", v: map[string]interface{}{"l": []interface{}{map[string]interface{}{"x": []interface{}{1, "two", 3.0, nil, true}}}, "o": &Node{Name: "nn"}}},
	}
}

func TestCrossCheck(t *testing.T) {
	for _, c := range xcases() {
		for _, simple := range []bool{true, false} {
			if simple && c.refOnly {
				continue
			}
			mode := "ref"
			if simple {
				mode = "simple"
			}
			known := c.disagree != "" && (c.disagreeIn == "" || c.disagreeIn == mode)
			want, derr := Denote(c.v, !simple)
			if derr != nil {
				t.Errorf("%s/%s: Denote: %v", c.name, mode, derr)
				continue
			}
			b, eerr := encode(c.v, simple)
			problem := ""
			if eerr != nil {
				problem = "encoder: " + eerr.Error()
			} else {
				p, perr := Parse(b, Options{Simple: simple, AllowError: c.allowError})
				switch {
				case perr != nil:
					problem = "Parse: " + perr.Error()
				case len(p.Values) != 1:
					problem = fmt.Sprintf("Parse: %d values", len(p.Values))
				default:
					problem = Diff(p.Values[0], want)
					if problem != "" {
						problem = "parsed vs Denote: " + problem
					}
				}
			}
			switch {
			case known && problem != "":
				t.Logf("LIBRARY DISAGREES: %s/%s: %s\n\tGo value: %#v\n\tbytes:    %q\n\tDenote:   %v\n\tsymptom:  %s", c.name, mode, c.disagree, c.v, b, want, problem)
			case known:
				t.Logf("note: %s/%s: listed as a library disagreement but it agrees now (library fixed?)", c.name, mode)
			case problem != "":
				t.Errorf("%s/%s: %s\n\tbytes:  %q\n\tDenote: %v", c.name, mode, problem, b, want)
			}
		}
	}
}

// Several Encode calls on one Encoder share the tables, exactly what Parse assumes.
func TestCrossCheckStream(t *testing.T) {
	n2 := &Node{Name: "shared"}
	vals := []interface{}{"abc", n2, "abc", n2, One{1}, []string{"shared", "name"}, One{2}}
	for _, simple := range []bool{true, false} {
		e := new(hio.Encoder).Simple(simple)
		var ends []int
		for _, v := range vals {
			if err := e.Encode(v); err != nil {
				t.Fatal(err)
			}
			ends = append(ends, len(e.Bytes()))
		}
		p, err := Parse(e.Bytes(), Options{Simple: simple})
		if err != nil {
			t.Fatalf("simple=%v: %v\n%q", simple, err, e.Bytes())
		}
		if fmt.Sprint(p.Ends) != fmt.Sprint(ends) {
			t.Errorf("simple=%v: Ends %v want %v", simple, p.Ends, ends)
		}
		for i, v := range vals {
			want, err := Denote(v, !simple)
			if err != nil {
				t.Fatal(err)
			}
			if d := Diff(p.Values[i], want); d != "" {
				t.Errorf("simple=%v value %d: %s", simple, i, d)
			}
		}
		if !simple {
			if p.Values[1] != p.Values[3] || p.Values[0] != p.Values[2] {
				t.Errorf("back references across top-level values are not shared pointers: %q", e.Bytes())
			}
			if p.NumBackRefs < 3 {
				t.Errorf("NumBackRefs = %d, bytes %q", p.NumBackRefs, e.Bytes())
			}
		}
		if len(p.Classes) != 2 {
			t.Errorf("classes: %v", p.Classes)
		}
	}
}

func TestDenoteDetails(t *testing.T) {
	n2 := &Node{Name: "shared"}
	v, err := Denote([]*Node{n2, n2}, true)
	if err != nil || v.Elems[0] != v.Elems[1] {
		t.Errorf("ref mode must share: %v %v", v, err)
	}
	v, err = Denote([]*Node{n2, n2}, false)
	if err != nil || v.Elems[0] == v.Elems[1] || !Equal(v.Elems[0], v.Elems[1]) {
		t.Errorf("simple mode must unfold: %v %v", v, err)
	}
	n := &Node{Name: "n1"}
	n.Next = n
	v, err = Denote(n, true)
	if err != nil || v.Elems[1] != v {
		t.Errorf("cyclic denote: %v %v", v, err)
	}
	if _, err = Denote(n, false); err == nil {
		t.Errorf("cyclic value accepted in simple mode")
	}
	// cycles the encoder cannot break (it recurses forever): error in both modes
	m := map[string]interface{}{}
	m["self"] = m
	s := []interface{}{nil}
	s[0] = s
	var x interface{}
	x = &x
	for _, bad := range []interface{}{m, s, x, &x} {
		for _, mode := range []bool{true, false} {
			if _, err := Denote(bad, mode); err == nil {
				t.Errorf("unbreakable cycle in %T accepted (refMode=%v)", bad, mode)
			}
		}
	}
	// unsupported
	fn := func() {}
	ch := make(chan int)
	for _, bad := range []interface{}{ch, fn, &fn, []interface{}{ch}, map[string]interface{}{"f": fn}, struct{ A interface{} }{ch}, Ambiguous{}} {
		if _, err := Denote(bad, true); err == nil {
			t.Errorf("Denote(%T) accepted", bad)
		}
	}
	// the library agrees that these fail (error or panic), except that it panics where an error is due
	for _, bad := range []interface{}{ch, fn, Ambiguous{}} {
		if _, err := encode(bad, true); err == nil {
			t.Errorf("library encodes %T but Denote rejects it", bad)
		}
	}
	for _, y := range []int{10000, -1} {
		tm := time.Date(y, 1, 1, 0, 0, 0, 0, time.UTC)
		if _, err := Denote(tm, true); err == nil {
			t.Errorf("year %d accepted", y)
		}
		if _, err := encode(tm, true); err == nil {
			t.Errorf("library encodes year %d", y)
		} else if strings.Contains(err.Error(), "panic") {
			t.Logf("LIBRARY DISAGREES: time year %d: encoder does not report an error but fails with: %v (Go value %#v, no bytes)", y, err, tm)
		}
	}
	huge, _ := new(big.Float).SetString("1e400")
	if _, err := Denote(huge, true); err == nil {
		t.Errorf("big.Float 1e400 accepted")
	}
	// class name override
	RegisterClassName((*Renamed)(nil), "Other")
	hio.RegisterName("Other", (*Renamed)(nil))
	b, err := encode(Renamed{1}, true)
	if err != nil {
		t.Fatal(err)
	}
	p, err := Parse(b, Options{Simple: true})
	want, _ := Denote(Renamed{1}, false)
	if err != nil || Diff(p.Values[0], want) != "" || want.Class.Name != "Other" {
		t.Errorf("renamed class: %v %q %v", err, b, want)
	}
	if o, err := Denote(EmbUnexported{}, true); err != nil || strings.Join(o.Class.Fields, " ") != "z a" {
		t.Errorf("EmbUnexported: %v %v", o, err)
	}
	// field list of Outer, spelled out
	o, err := Denote(Outer{}, true)
	if err != nil {
		t.Fatal(err)
	}
	if got := strings.Join(o.Class.Fields, " "); got != "x pInner aa bb c hp spaced uRL Émile t pT any str" || o.Class.Name != "Outer" {
		t.Errorf("Outer fields = %q", got)
	}
}

// ---------------------------------------------------------------------------------
// randomized cross-check and parser robustness

type rgen struct {
	r     *mrand.Rand
	nodes []*Node
	strs  []string
	maps  []*map[string]interface{}
	sls   []*[]interface{}
}

func (g *rgen) str() string {
	if len(g.strs) > 0 && g.r.Intn(3) == 0 {
		return g.strs[g.r.Intn(len(g.strs))]
	}
	alphabet := []string{"a", "b", "é", "€", "😀", "\"", "日", "\x00", "z"}
	n := g.r.Intn(5)
	s := ""
	for i := 0; i < n; i++ {
		s += alphabet[g.r.Intn(len(alphabet))]
	}
	if g.r.Intn(12) == 0 {
		s += "\xff" // clearly invalid UTF-8 -> bytes
	}
	g.strs = append(g.strs, s)
	return s
}

func (g *rgen) value(depth int, ref bool) interface{} {
	k := g.r.Intn(22)
	if depth <= 0 && k >= 12 {
		k = g.r.Intn(12)
	}
	switch k {
	case 0:
		return nil
	case 1:
		return g.r.Intn(3) == 0
	case 2:
		return g.r.Intn(40) - 20
	case 3:
		return g.r.Int63() - (1 << 62)
	case 4:
		return uint64(g.r.Int63()) << 1
	case 5:
		fs := []float64{0, math.Copysign(0, -1), 1.5, -2.25e30, math.NaN(), math.Inf(1), math.Inf(-1), 5e-324, 0.1, 1e21}
		return fs[g.r.Intn(len(fs))]
	case 6:
		return float32(g.r.NormFloat64())
	case 7, 8:
		return g.str()
	case 9:
		return []byte(g.str())
	case 10:
		return time.Unix(g.r.Int63n(4e9), int64(g.r.Intn(3))*int64([]int{0, 1000000, 1000, 1}[g.r.Intn(4)])).UTC()
	case 11:
		return big.NewInt(g.r.Int63() - (1 << 62))
	case 12, 13:
		n := g.r.Intn(4)
		s := make([]interface{}, n)
		for i := range s {
			s[i] = g.value(depth-1, ref)
		}
		if g.r.Intn(3) == 0 {
			g.sls = append(g.sls, &s)
			return &s
		}
		return s
	case 14, 15:
		n := g.r.Intn(4)
		m := make(map[string]interface{}, n)
		for i := 0; i < n; i++ {
			m[g.str()] = g.value(depth-1, ref)
		}
		if g.r.Intn(3) == 0 {
			g.maps = append(g.maps, &m)
			return &m
		}
		return m
	case 16:
		n := g.r.Intn(3)
		m := make(map[interface{}]interface{}, n)
		for i := 0; i < n; i++ {
			if k := g.value(0, ref); hashable(k) { // value(0) can return []byte
				m[k] = g.value(depth-1, ref)
			}
		}
		return m
	case 17:
		nd := &Node{Name: g.str()}
		if g.r.Intn(2) == 0 && len(g.nodes) > 0 {
			nd.Next = g.nodes[g.r.Intn(len(g.nodes))] // older node: no cycle
		}
		g.nodes = append(g.nodes, nd)
		return nd
	case 18:
		if len(g.nodes) > 0 {
			return g.nodes[g.r.Intn(len(g.nodes))]
		}
		return Node{Name: g.str()}
	case 19:
		if len(g.maps) > 0 && g.r.Intn(2) == 0 {
			return g.maps[g.r.Intn(len(g.maps))]
		}
		if len(g.sls) > 0 {
			return g.sls[g.r.Intn(len(g.sls))]
		}
		return []int{g.r.Intn(100), g.r.Intn(100)}
	case 20:
		return struct {
			A interface{}
			B string `json:"bee"`
		}{g.value(depth-1, ref), g.str()}
	default:
		return []string{g.str(), g.str(), g.str()}
	}
}

func hashable(v interface{}) (ok bool) {
	defer func() { recover() }()
	_ = map[interface{}]bool{v: true}
	return true
}

func TestCrossCheckRandom(t *testing.T) {
	backRefs, bytesTotal := 0, 0
	defer func() {
		if backRefs < 200 || bytesTotal < 20000 {
			t.Errorf("generator too weak: %d back references, %d bytes", backRefs, bytesTotal)
		}
	}()
	for seed := int64(1); seed <= 1500; seed++ {
		for _, simple := range []bool{true, false} {
			g := &rgen{r: mrand.New(mrand.NewSource(seed))}
			top := make([]interface{}, 8)
			for i := range top {
				top[i] = g.value(4, !simple)
			}
			var v interface{} = top
			want, err := Denote(v, !simple)
			if err != nil {
				t.Fatalf("seed %d simple=%v: Denote: %v", seed, simple, err)
			}
			b, err := encode(v, simple)
			if err != nil {
				t.Fatalf("seed %d simple=%v: encode: %v", seed, simple, err)
			}
			p, err := Parse(b, Options{Simple: simple})
			if err != nil {
				t.Fatalf("seed %d simple=%v: Parse: %v\n%q", seed, simple, err, b)
			}
			if len(p.Values) != 1 {
				t.Fatalf("seed %d simple=%v: %d values\n%q", seed, simple, len(p.Values), b)
			}
			if d := Diff(p.Values[0], want); d != "" {
				t.Fatalf("seed %d simple=%v: %s\nbytes:  %q\nDenote: %v", seed, simple, d, b, want)
			}
			backRefs += p.NumBackRefs
			bytesTotal += len(b)
		}
	}
}

// Parse must never panic, whatever the bytes; it either accepts or returns a *ParseError
// whose offset lies inside [0, len].
func TestParseRobust(t *testing.T) {
	var corpus [][]byte
	for _, c := range xcases() {
		if b, err := encode(c.v, false); err == nil {
			corpus = append(corpus, b)
		}
		if !c.refOnly {
			if b, err := encode(c.v, true); err == nil {
				corpus = append(corpus, b)
			}
		}
	}
	check := func(b []byte, opt Options) {
		defer func() {
			if r := recover(); r != nil {
				t.Fatalf("Parse(%q, %+v) panicked: %v", b, opt, r)
			}
		}()
		_, err := Parse(b, opt)
		if err != nil {
			pe, ok := err.(*ParseError)
			if !ok || pe.Offset < 0 || pe.Offset > len(b) {
				t.Fatalf("Parse(%q): bad error %v", b, err)
			}
		}
	}
	r := mrand.New(mrand.NewSource(42))
	tags := []byte(`0123456789ildnetfNIDTZbusgamcorE+-;{}".`)
	opts := []Options{{}, {Simple: true}, {AllowError: true}}
	for _, b := range corpus {
		for i := 0; i <= len(b); i++ {
			check(b[:i], opts[i%3])
		}
		for k := 0; k < 200; k++ {
			m := append([]byte{}, b...)
			for j := 0; j < 1+r.Intn(3) && len(m) > 0; j++ {
				switch r.Intn(3) {
				case 0:
					m[r.Intn(len(m))] = tags[r.Intn(len(tags))]
				case 1:
					i := r.Intn(len(m))
					m = append(m[:i], m[i+1:]...)
				default:
					i := r.Intn(len(m) + 1)
					m = append(m[:i], append([]byte{tags[r.Intn(len(tags))]}, m[i:]...)...)
				}
			}
			check(m, opts[k%3])
		}
	}
}
