package hpref

import (
	"fmt"
	"math"
	"math/big"
	"sort"
	"strconv"
	"unicode/utf8"
)

// Options selects the dialect accepted by Parse.
type Options struct {
	// Simple: the stream was written without a reference table; an 'r' tag is an error.
	Simple bool
	// AllowError: accept 'E' string-value as a TOP-LEVEL value (RPC responses).
	// An 'E' anywhere else is always an error.
	AllowError bool
}

// Parsed is the result of Parse.
type Parsed struct {
	Values      []*Value // top-level values in order
	Ends        []int    // byte offset just after each top-level value
	Refs        []*Value // the reference table as built (for objects: the object value). Empty in simple mode.
	NumBackRefs int      // number of 'r' tags consumed
	Classes     []*Class
	// After ParseSegments, Refs and Classes are the tables of the LAST segment;
	// NumBackRefs counts over all segments.
}

// ParseError is the error type returned by Parse: the first violation and its byte offset.
type ParseError struct {
	Offset int
	Msg    string
}

func (e *ParseError) Error() string { return fmt.Sprintf("hpref: offset %d: %s", e.Offset, e.Msg) }

// MaxDepth bounds container nesting so that hostile input cannot overflow the goroutine
// stack. It is not part of the grammar; raise it if a test really needs deeper values.
var MaxDepth = 100000

type parser struct {
	data    []byte
	pos     int
	opt     Options
	refs    []*Value
	classes []*Class
	nback   int
	depth   int
}

// Parse reads the whole input as a sequence of values sharing one reference/class table
// (that is how one Encoder without Reset behaves). It returns an error describing the
// first violation of the grammar with its byte offset. Back-references resolve to the SAME
// *Value pointer, so shared and cyclic structures appear as shared/cyclic pointer graphs.
func Parse(data []byte, opt Options) (*Parsed, error) {
	return ParseSegments(data, nil, opt)
}

// ParseSegments is like Parse but the reference and class tables are reset at each offset
// listed in resets (used for RPC messages where each segment resets the tables). Every
// reset offset must fall on a top-level value boundary (0 and len(data) are always fine).
func ParseSegments(data []byte, resets []int, opt Options) (*Parsed, error) {
	p := &parser{data: data, opt: opt}
	rs := append([]int(nil), resets...)
	sort.Ints(rs)
	out := &Parsed{}
	for p.pos < len(data) {
		for len(rs) > 0 && rs[0] <= p.pos {
			if rs[0] < p.pos && rs[0] > 0 {
				return nil, &ParseError{rs[0], "reset offset is not on a top-level value boundary"}
			}
			if rs[0] == p.pos {
				p.refs, p.classes = nil, nil
			}
			rs = rs[1:]
		}
		v, err := p.value(true)
		if err != nil {
			return nil, err
		}
		out.Values = append(out.Values, v)
		out.Ends = append(out.Ends, p.pos)
	}
	for _, r := range rs {
		if r < len(data) && r > 0 {
			return nil, &ParseError{r, "reset offset is not on a top-level value boundary"}
		}
		if r > len(data) {
			return nil, &ParseError{r, "reset offset beyond end of input"}
		}
	}
	out.Refs = p.refs
	out.Classes = p.classes
	out.NumBackRefs = p.nback
	return out, nil
}

func (p *parser) errf(off int, format string, a ...interface{}) error {
	return &ParseError{off, fmt.Sprintf(format, a...)}
}

func showByte(b byte) string {
	if b >= 0x20 && b < 0x7f {
		return fmt.Sprintf("'%c'", b)
	}
	return fmt.Sprintf("0x%02x", b)
}

// expect consumes exactly the byte b.
func (p *parser) expect(b byte, what string) error {
	if p.pos >= len(p.data) {
		return p.errf(p.pos, "unexpected end of input, expected %s %s", what, showByte(b))
	}
	if p.data[p.pos] != b {
		return p.errf(p.pos, "expected %s %s, found %s", what, showByte(b), showByte(p.data[p.pos]))
	}
	p.pos++
	return nil
}

// digits consumes a maximal run of ASCII digits and returns it.
func (p *parser) digits() []byte {
	s := p.pos
	for p.pos < len(p.data) && p.data[p.pos] >= '0' && p.data[p.pos] <= '9' {
		p.pos++
	}
	return p.data[s:p.pos]
}

// fixedDigits consumes exactly n digits and returns their value.
func (p *parser) fixedDigits(n int, what string) (int, error) {
	v := 0
	for i := 0; i < n; i++ {
		if p.pos+i >= len(p.data) {
			return 0, p.errf(len(p.data), "unexpected end of input in %s", what)
		}
		c := p.data[p.pos+i]
		if c < '0' || c > '9' {
			return 0, p.errf(p.pos+i, "expected digit in %s, found %s", what, showByte(c))
		}
		v = v*10 + int(c-'0')
	}
	p.pos += n
	return v, nil
}

// count reads an optional COUNT/UNITS. The grammar omits it when it is 0, so an explicit
// zero is rejected. The result is bounded by the remaining input (every counted item
// needs at least one byte), which also bounds allocations.
func (p *parser) count(what string) (int, error) {
	start := p.pos
	ds := p.digits()
	if len(ds) == 0 {
		return 0, nil
	}
	n, err := p.smallNumber(ds, start, what)
	if err != nil {
		return 0, err
	}
	if n == 0 {
		return 0, p.errf(start, "%s 0 must be omitted", what)
	}
	return n, nil
}

func (p *parser) smallNumber(ds []byte, start int, what string) (int, error) {
	n := 0
	for _, c := range ds {
		n = n*10 + int(c-'0')
		if n > len(p.data) {
			return 0, p.errf(start, "%s %s exceeds the size of the input", what, ds)
		}
	}
	return n, nil
}

// index reads a mandatory DIGITS number (class index, reference index).
func (p *parser) index(what string) (int, int, error) {
	start := p.pos
	ds := p.digits()
	if len(ds) == 0 {
		if p.pos >= len(p.data) {
			return 0, start, p.errf(p.pos, "unexpected end of input, expected %s", what)
		}
		return 0, start, p.errf(p.pos, "expected %s (digits), found %s", what, showByte(p.data[p.pos]))
	}
	n := 0
	for _, c := range ds {
		n = n*10 + int(c-'0')
		if n > math.MaxInt32 {
			return 0, start, p.errf(start, "%s %s is out of range", what, ds)
		}
	}
	return n, start, nil
}

func (p *parser) addRef(v *Value) {
	if p.opt.Simple {
		v.Ref = -1
		return
	}
	v.Ref = len(p.refs)
	p.refs = append(p.refs, v)
}

func isDigit(c byte) bool { return c >= '0' && c <= '9' }

// validFloat checks the FLOAT production: [-] (DIGITS ['.' DIGITS*] | '.' DIGITS) [(e|E) [+|-] DIGITS].
func validFloat(s []byte) bool {
	i := 0
	if i < len(s) && s[i] == '-' {
		i++
	}
	nd := 0
	for i < len(s) && isDigit(s[i]) {
		i++
		nd++
	}
	if i < len(s) && s[i] == '.' {
		i++
		for i < len(s) && isDigit(s[i]) {
			i++
			nd++
		}
	}
	if nd == 0 {
		return false
	}
	if i < len(s) && (s[i] == 'e' || s[i] == 'E') {
		i++
		if i < len(s) && (s[i] == '+' || s[i] == '-') {
			i++
		}
		ne := 0
		for i < len(s) && isDigit(s[i]) {
			i++
			ne++
		}
		if ne == 0 {
			return false
		}
	}
	return i == len(s)
}

// integer reads [-] DIGITS ';' and returns the number.
func (p *parser) integer(what string) (*big.Int, int, error) {
	start := p.pos
	if p.pos < len(p.data) && p.data[p.pos] == '-' {
		p.pos++
	}
	ds := p.digits()
	if len(ds) == 0 {
		if p.pos >= len(p.data) {
			return nil, start, p.errf(p.pos, "unexpected end of input in %s", what)
		}
		return nil, start, p.errf(p.pos, "expected digit in %s, found %s", what, showByte(p.data[p.pos]))
	}
	txt := string(p.data[start:p.pos])
	if err := p.expect(';', what+" terminator"); err != nil {
		return nil, start, err
	}
	n, ok := new(big.Int).SetString(txt, 10)
	if !ok {
		return nil, start, p.errf(start, "bad %s %q", what, txt)
	}
	return n, start, nil
}

var (
	minInt32 = big.NewInt(math.MinInt32)
	maxInt32 = big.NewInt(math.MaxInt32)
)

// timePart reads hhmmss [ '.' (3|6|9 DIGITS) ] after the 'T' tag has been consumed.
func (p *parser) timePart(v *Value) error {
	at := p.pos
	var err error
	if v.Hour, err = p.fixedDigits(2, "time hour"); err != nil {
		return err
	}
	if v.Min, err = p.fixedDigits(2, "time minute"); err != nil {
		return err
	}
	if v.Sec, err = p.fixedDigits(2, "time second"); err != nil {
		return err
	}
	if v.Hour > 23 {
		return p.errf(at, "hour %d out of range", v.Hour)
	}
	if v.Min > 59 {
		return p.errf(at+2, "minute %d out of range", v.Min)
	}
	if v.Sec > 59 {
		return p.errf(at+4, "second %d out of range", v.Sec)
	}
	if p.pos < len(p.data) && p.data[p.pos] == '.' {
		p.pos++
		fs := p.pos
		ds := p.digits()
		if len(ds) != 3 && len(ds) != 6 && len(ds) != 9 {
			return p.errf(fs, "fraction of a second must have 3, 6 or 9 digits, found %d", len(ds))
		}
		n := 0
		for _, c := range ds {
			n = n*10 + int(c-'0')
		}
		for i := len(ds); i < 9; i++ {
			n *= 10
		}
		v.Nsec = n
	}
	v.HasTime = true
	return nil
}

func (p *parser) zone(v *Value) error {
	if p.pos >= len(p.data) {
		return p.errf(p.pos, "unexpected end of input, expected 'Z' or ';' after date/time")
	}
	switch p.data[p.pos] {
	case 'Z':
		v.UTC = true
	case ';':
		v.UTC = false
	default:
		return p.errf(p.pos, "expected 'Z' or ';' after date/time, found %s", showByte(p.data[p.pos]))
	}
	p.pos++
	return nil
}

// quotedText reads UNITS '"' text '"' where text has exactly units UTF-16 code units and
// is valid UTF-8.
func (p *parser) quotedText(units int, what string) (string, error) {
	if err := p.expect('"', what+" opening quote"); err != nil {
		return "", err
	}
	start := p.pos
	left := units
	for left > 0 {
		if p.pos >= len(p.data) {
			return "", p.errf(p.pos, "unexpected end of input in %s: %d UTF-16 units still expected", what, left)
		}
		r, size := utf8.DecodeRune(p.data[p.pos:])
		if r == utf8.RuneError && size <= 1 {
			return "", p.errf(p.pos, "invalid UTF-8 in %s", what)
		}
		if r >= 0x10000 {
			if left < 2 {
				return "", p.errf(p.pos, "%s length %d ends in the middle of a surrogate pair", what, units)
			}
			left -= 2
		} else {
			left--
		}
		p.pos += size
	}
	s := string(p.data[start:p.pos])
	if err := p.expect('"', what+" closing quote"); err != nil {
		return "", err
	}
	return s, nil
}

func hexVal(c byte) int {
	switch {
	case c >= '0' && c <= '9':
		return int(c - '0')
	case c >= 'a' && c <= 'f':
		return int(c-'a') + 10
	case c >= 'A' && c <= 'F':
		return int(c-'A') + 10
	}
	return -1
}

func (p *parser) class() error {
	// 'c' already consumed
	units, err := p.count("class name length")
	if err != nil {
		return err
	}
	name, err := p.quotedText(units, "class name")
	if err != nil {
		return err
	}
	n, err := p.count("class field count")
	if err != nil {
		return err
	}
	if err := p.expect('{', "class"); err != nil {
		return err
	}
	cls := &Class{Name: name, Fields: make([]string, 0, n)}
	for i := 0; i < n; i++ {
		if p.pos >= len(p.data) {
			return p.errf(p.pos, "unexpected end of input in class definition: %d of %d field names read", i, n)
		}
		if p.data[p.pos] != 's' {
			return p.errf(p.pos, "class field name must be a string ('s'), found %s", showByte(p.data[p.pos]))
		}
		v, err := p.value(false)
		if err != nil {
			return err
		}
		cls.Fields = append(cls.Fields, v.Text)
	}
	if err := p.expect('}', "class closing"); err != nil {
		return err
	}
	p.classes = append(p.classes, cls)
	return nil
}

func (p *parser) value(top bool) (*Value, error) {
	if p.pos >= len(p.data) {
		return nil, p.errf(p.pos, "unexpected end of input, value expected")
	}
	if p.depth >= MaxDepth {
		return nil, p.errf(p.pos, "nesting deeper than MaxDepth=%d", MaxDepth)
	}
	p.depth++
	defer func() { p.depth-- }()

	at := p.pos
	tag := p.data[p.pos]
	p.pos++
	v := &Value{Tag: tag, Ref: -1}
	switch tag {
	case '0', '1', '2', '3', '4', '5', '6', '7', '8', '9':
		v.Kind, v.Int = Int, big.NewInt(int64(tag-'0'))
	case 'i':
		n, s, err := p.integer("int")
		if err != nil {
			return nil, err
		}
		if n.Cmp(minInt32) < 0 || n.Cmp(maxInt32) > 0 {
			return nil, p.errf(s, "int %s does not fit in int32", n)
		}
		v.Kind, v.Int = Int, n
	case 'l':
		n, _, err := p.integer("long")
		if err != nil {
			return nil, err
		}
		v.Kind, v.Int = Int, n
	case 'd':
		s := p.pos
		for p.pos < len(p.data) && p.data[p.pos] != ';' {
			c := p.data[p.pos]
			if !(isDigit(c) || c == '-' || c == '+' || c == '.' || c == 'e' || c == 'E') {
				return nil, p.errf(p.pos, "unexpected %s in double", showByte(c))
			}
			p.pos++
		}
		if p.pos >= len(p.data) {
			return nil, p.errf(p.pos, "unexpected end of input in double")
		}
		txt := p.data[s:p.pos]
		p.pos++ // ';'
		if !validFloat(txt) {
			return nil, p.errf(s, "malformed double %q", txt)
		}
		f, err := strconv.ParseFloat(string(txt), 64)
		if err != nil {
			return nil, p.errf(s, "double %q: %v", txt, err)
		}
		v.Kind, v.F = Double, f
	case 'N':
		v.Kind, v.F = Double, math.NaN()
	case 'I':
		if p.pos >= len(p.data) {
			return nil, p.errf(p.pos, "unexpected end of input after 'I', expected '+' or '-'")
		}
		switch p.data[p.pos] {
		case '+':
			v.F = math.Inf(1)
		case '-':
			v.F = math.Inf(-1)
		default:
			return nil, p.errf(p.pos, "expected '+' or '-' after 'I', found %s", showByte(p.data[p.pos]))
		}
		p.pos++
		v.Kind = Double
	case 'n':
		v.Kind = Null
	case 'e':
		v.Kind, v.Text = Text, ""
	case 't':
		v.Kind, v.Bool = Bool, true
	case 'f':
		v.Kind, v.Bool = Bool, false
	case 'D':
		v.Kind, v.HasDate = DateTime, true
		p.addRef(v)
		var err error
		if v.Year, err = p.fixedDigits(4, "date year"); err != nil {
			return nil, err
		}
		if v.Month, err = p.fixedDigits(2, "date month"); err != nil {
			return nil, err
		}
		if v.Day, err = p.fixedDigits(2, "date day"); err != nil {
			return nil, err
		}
		if v.Month < 1 || v.Month > 12 {
			return nil, p.errf(at+5, "month %d out of range", v.Month)
		}
		if v.Day < 1 || v.Day > 31 {
			return nil, p.errf(at+7, "day %d out of range", v.Day)
		}
		if p.pos < len(p.data) && p.data[p.pos] == 'T' {
			p.pos++
			if err := p.timePart(v); err != nil {
				return nil, err
			}
		}
		if err := p.zone(v); err != nil {
			return nil, err
		}
	case 'T':
		v.Kind = DateTime
		v.Year, v.Month, v.Day = 1970, 1, 1
		p.addRef(v)
		if err := p.timePart(v); err != nil {
			return nil, err
		}
		if err := p.zone(v); err != nil {
			return nil, err
		}
	case 'b':
		v.Kind = Bytes
		p.addRef(v)
		n, err := p.count("bytes count")
		if err != nil {
			return nil, err
		}
		if err := p.expect('"', "bytes opening quote"); err != nil {
			return nil, err
		}
		if p.pos+n > len(p.data) {
			return nil, p.errf(len(p.data), "unexpected end of input in bytes: %d bytes declared, %d available", n, len(p.data)-p.pos)
		}
		v.Bytes = append([]byte{}, p.data[p.pos:p.pos+n]...)
		p.pos += n
		if err := p.expect('"', "bytes closing quote"); err != nil {
			return nil, err
		}
	case 'u':
		if p.pos >= len(p.data) {
			return nil, p.errf(p.pos, "unexpected end of input after 'u'")
		}
		r, size := utf8.DecodeRune(p.data[p.pos:])
		if r == utf8.RuneError && size <= 1 {
			return nil, p.errf(p.pos, "invalid UTF-8 in uchar")
		}
		if r >= 0x10000 {
			return nil, p.errf(p.pos, "uchar must be exactly one UTF-16 unit, U+%X needs two", r)
		}
		v.Kind, v.Text = Text, string(p.data[p.pos:p.pos+size])
		p.pos += size
	case 's':
		v.Kind = Text
		p.addRef(v)
		n, err := p.count("string length")
		if err != nil {
			return nil, err
		}
		if v.Text, err = p.quotedText(n, "string"); err != nil {
			return nil, err
		}
	case 'g':
		v.Kind = Guid
		p.addRef(v)
		if err := p.expect('{', "guid"); err != nil {
			return nil, err
		}
		if p.pos+36 > len(p.data) {
			return nil, p.errf(len(p.data), "unexpected end of input in guid")
		}
		k := 0
		for i := 0; i < 36; i++ {
			c := p.data[p.pos+i]
			if i == 8 || i == 13 || i == 18 || i == 23 {
				if c != '-' {
					return nil, p.errf(p.pos+i, "expected '-' in guid, found %s", showByte(c))
				}
				continue
			}
			h := hexVal(c)
			if h < 0 {
				return nil, p.errf(p.pos+i, "expected hex digit in guid, found %s", showByte(c))
			}
			if k%2 == 0 {
				v.Guid[k/2] = byte(h << 4)
			} else {
				v.Guid[k/2] |= byte(h)
			}
			k++
		}
		p.pos += 36
		if err := p.expect('}', "guid closing"); err != nil {
			return nil, err
		}
	case 'a':
		v.Kind = List
		p.addRef(v)
		n, err := p.count("list count")
		if err != nil {
			return nil, err
		}
		if err := p.expect('{', "list"); err != nil {
			return nil, err
		}
		v.Elems = make([]*Value, 0, n)
		for i := 0; i < n; i++ {
			if p.pos < len(p.data) && p.data[p.pos] == '}' {
				return nil, p.errf(p.pos, "list closed after %d of %d elements", i, n)
			}
			e, err := p.value(false)
			if err != nil {
				return nil, err
			}
			v.Elems = append(v.Elems, e)
		}
		if err := p.expect('}', "list closing (after "+strconv.Itoa(n)+" elements)"); err != nil {
			return nil, err
		}
	case 'm':
		v.Kind = Map
		p.addRef(v)
		n, err := p.count("map count")
		if err != nil {
			return nil, err
		}
		if err := p.expect('{', "map"); err != nil {
			return nil, err
		}
		v.Pairs = make([][2]*Value, 0, n)
		for i := 0; i < n; i++ {
			if p.pos < len(p.data) && p.data[p.pos] == '}' {
				return nil, p.errf(p.pos, "map closed after %d of %d entries", i, n)
			}
			k, err := p.value(false)
			if err != nil {
				return nil, err
			}
			if p.pos < len(p.data) && p.data[p.pos] == '}' {
				return nil, p.errf(p.pos, "map closed after a key without a value (entry %d of %d)", i+1, n)
			}
			e, err := p.value(false)
			if err != nil {
				return nil, err
			}
			v.Pairs = append(v.Pairs, [2]*Value{k, e})
		}
		if err := p.expect('}', "map closing (after "+strconv.Itoa(n)+" entries)"); err != nil {
			return nil, err
		}
	case 'c':
		// class* object: one or more class definitions, then the object they introduce.
		for {
			if err := p.class(); err != nil {
				return nil, err
			}
			if p.pos >= len(p.data) {
				return nil, p.errf(p.pos, "unexpected end of input: class definition must be followed by an object")
			}
			nt := p.data[p.pos]
			if nt == 'c' {
				p.pos++
				continue
			}
			if nt != 'o' {
				return nil, p.errf(p.pos, "class definition must be followed by 'c' or 'o', found %s", showByte(nt))
			}
			break
		}
		p.depth-- // the object is at the same nesting level
		obj, err := p.value(top)
		p.depth++
		return obj, err
	case 'o':
		v.Kind = Object
		k, ks, err := p.index("class index")
		if err != nil {
			return nil, err
		}
		if k >= len(p.classes) {
			return nil, p.errf(ks, "object refers to class %d but only %d defined so far", k, len(p.classes))
		}
		v.Class = p.classes[k]
		p.addRef(v)
		if err := p.expect('{', "object"); err != nil {
			return nil, err
		}
		n := len(v.Class.Fields)
		v.Elems = make([]*Value, 0, n)
		for i := 0; i < n; i++ {
			if p.pos < len(p.data) && p.data[p.pos] == '}' {
				return nil, p.errf(p.pos, "object of class %q closed after %d of %d fields", v.Class.Name, i, n)
			}
			e, err := p.value(false)
			if err != nil {
				return nil, err
			}
			v.Elems = append(v.Elems, e)
		}
		if err := p.expect('}', "object closing (class "+strconv.Quote(v.Class.Name)+" has "+strconv.Itoa(n)+" fields)"); err != nil {
			return nil, err
		}
	case 'r':
		if p.opt.Simple {
			return nil, p.errf(at, "reference tag 'r' in simple mode")
		}
		idx, is, err := p.index("reference index")
		if err != nil {
			return nil, err
		}
		if err := p.expect(';', "reference terminator"); err != nil {
			return nil, err
		}
		if idx >= len(p.refs) {
			return nil, p.errf(is, "reference %d out of range: table has %d entries", idx, len(p.refs))
		}
		p.nback++
		return p.refs[idx], nil
	case 'E':
		if !p.opt.AllowError {
			return nil, p.errf(at, "error tag 'E' not allowed (Options.AllowError is false)")
		}
		if !top {
			return nil, p.errf(at, "error tag 'E' is only legal at top level")
		}
		if p.pos >= len(p.data) {
			return nil, p.errf(p.pos, "unexpected end of input after 'E', string expected")
		}
		switch p.data[p.pos] {
		case 's', 'u', 'e', 'r':
		default:
			return nil, p.errf(p.pos, "error message must be a string value, found tag %s", showByte(p.data[p.pos]))
		}
		ms := p.pos
		m, err := p.value(false)
		if err != nil {
			return nil, err
		}
		if m.Kind != Text {
			return nil, p.errf(ms, "error message must be a string value, found %s", m.Kind)
		}
		v.Kind, v.Text = Error, m.Text
	default:
		return nil, p.errf(at, "unexpected tag %s, value expected", showByte(tag))
	}
	return v, nil
}
