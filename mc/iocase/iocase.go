// Package iocase holds what the serializer checks share: decoder configurations, entry points, the
// guarded execution of one encode/decode case, and registration of the named test types.
package iocase

import (
	"fmt"
	"reflect"
	"runtime/debug"
	"strings"
	"time"
	_ "time/tzdata"

	hio "github.com/hprose/hprose-golang/v3/io"
	"verif/mc/gen"
)

// Init fixes the process-wide environment of a serializer check: a local zone that is not UTC (so that
// "UTC versus local" is observable) and registration of the named struct types (needed to get objects
// back as structs in interface{} destinations).
func Init() {
	loc, err := time.LoadLocation("America/New_York")
	if err != nil {
		panic(err)
	}
	time.Local = loc
	hio.Register((*gen.EmbHidden)(nil))
	for _, t := range gen.NamedStructs() {
		if t.Kind() == reflect.Struct {
			hio.Register(reflect.New(t).Interface())
		}
	}
}

// Cfg is one decoder configuration.
type Cfg struct {
	Entry  string // "marshal" (io.Marshal/Unmarshal), "formatter" (Formatter{Simple:false}), "coder" (Encoder/Decoder)
	Simple bool
	Long   hio.LongType
	Real   hio.RealType
	Map    hio.MapType
	Struct hio.StructType
	List   hio.ListType
}

func (c Cfg) String() string {
	return fmt.Sprintf("%s/simple=%v/L%d/R%d/M%d/S%d/A%d", c.Entry, c.Simple, c.Long, c.Real, c.Map, c.Struct, c.List)
}

// Configs returns the configurations to run for a type: the four entry-point/mode combinations, and for
// types with interface{} destinations additionally the full product of the five decoder settings.
func Configs(hasIface bool) []Cfg {
	out := []Cfg{
		{Entry: "marshal", Simple: true},
		{Entry: "formatter", Simple: false},
		{Entry: "coder", Simple: true},
		{Entry: "coder", Simple: false},
	}
	if !hasIface {
		return out
	}
	for _, simple := range []bool{true, false} {
		for l := hio.LongTypeInt; l <= hio.LongTypeBigInt; l++ {
			for r := hio.RealTypeFloat64; r <= hio.RealTypeBigFloat; r++ {
				for m := hio.MapTypeIIMap; m <= hio.MapTypeSIMap; m++ {
					for s := hio.StructTypePtr; s <= hio.StructTypeValue; s++ {
						for a := hio.ListTypeISlice; a <= hio.ListTypeSlice; a++ {
							if l == 0 && r == 0 && m == 0 && s == 0 && a == 0 {
								continue
							}
							out = append(out, Cfg{"coder", simple, l, r, m, s, a})
						}
					}
				}
			}
		}
	}
	return out
}

// Representable reports whether the settings of c can represent the interface-slot content described by p
// (otherwise the outcome is outside what C01 defines and the case is skipped).
func Representable(c Cfg, p gen.Profile) bool {
	// (every LongType setting represents every integer since the decoder hands a number that the setting's type
	// can not hold to the next type that holds it exactly; they used to wrap, and such cases were skipped here)
	switch c.Real {
	case hio.RealTypeFloat32:
		if p.NonF32Double {
			return false
		}
	case hio.RealTypeBigFloat:
		if p.NaNOrInf {
			return false
		}
	}
	if c.List == hio.ListTypeSlice && p.NilInIfaceList {
		return false // the setting asks for []T; a nil element has no representation in a []T of values
	}
	if c.Map == hio.MapTypeSIMap && p.NonStringKeyMap {
		return false
	}
	return true
}

// Encode runs the encoding side of c.
func Encode(c Cfg, v interface{}) ([]byte, error) {
	switch c.Entry {
	case "marshal":
		return hio.Marshal(v)
	case "formatter":
		return hio.Formatter{Simple: false}.Marshal(v)
	}
	enc := new(hio.Encoder).Simple(c.Simple)
	if err := enc.Encode(v); err != nil {
		return nil, err
	}
	return enc.Bytes(), nil
}

// Decode runs the decoding side of c into p (a pointer).
func Decode(c Cfg, data []byte, p interface{}) error {
	switch c.Entry {
	case "marshal":
		return hio.Unmarshal(data, p)
	case "formatter":
		return hio.Formatter{Simple: false, LongType: c.Long, RealType: c.Real, MapType: c.Map}.Unmarshal(data, p)
	}
	dec := hio.NewDecoder(data).Simple(c.Simple)
	dec.LongType, dec.RealType, dec.MapType, dec.StructType, dec.ListType = c.Long, c.Real, c.Map, c.Struct, c.List
	dec.Decode(p)
	return dec.Error
}

// Guard runs f and converts a panic into (message, stack).
func Guard(f func()) (panicMsg string, stack string) {
	defer func() {
		if r := recover(); r != nil {
			panicMsg = fmt.Sprint(r)
			if panicMsg == "" {
				panicMsg = "(empty panic)"
			}
			stack = string(debug.Stack())
		}
	}()
	f()
	return
}

// PanicSite extracts the first frame inside the hprose module from a stack (for signatures).
func PanicSite(stack string) string {
	lines := strings.Split(stack, "\n")
	for i, l := range lines {
		if strings.Contains(l, "hprose-golang/v3/") && !strings.HasPrefix(strings.TrimSpace(l), "/") {
			fn := strings.TrimSpace(l)
			if j := strings.LastIndex(fn, "("); j > 0 {
				fn = fn[:j]
			}
			fn = fn[strings.LastIndex(fn, "/")+1:]
			_ = i
			return fn
		}
	}
	return "?"
}

// Subterms returns the strict sub-term types of t (element, key, field types, transitively).
func Subterms(t reflect.Type) []reflect.Type {
	seen := map[reflect.Type]bool{t: true}
	var out []reflect.Type
	var walk func(t reflect.Type)
	add := func(s reflect.Type) {
		if !seen[s] {
			seen[s] = true
			out = append(out, s)
			walk(s)
		}
	}
	walk = func(t reflect.Type) {
		switch t.Kind() {
		case reflect.Ptr, reflect.Slice, reflect.Array:
			add(t.Elem())
		case reflect.Map:
			add(t.Key())
			add(t.Elem())
		case reflect.Struct:
			switch t.String() {
			case "time.Time", "big.Int", "big.Float", "big.Rat", "list.List":
				return
			}
			for i := 0; i < t.NumField(); i++ {
				if t.Field(i).PkgPath == "" || t.Field(i).Anonymous {
					add(t.Field(i).Type)
				}
			}
		}
	}
	walk(t)
	return out
}
