package netlab

// Job driver shared by the transport checks: jobs are index ranges of an enumerated scenario list, executed
// in worker subprocesses (verif/lib/shard). Before each scenario the worker journals the scenario it is about
// to run, so that when a fault kills the whole process (several transports call recover() from the wrong
// frame) the coordinator convicts exactly that scenario and re-issues the rest of the range.

import (
	"encoding/json"
	"fmt"
	"os"
	"path/filepath"

	"verif/lib/shard"
)

// Job is a range [Lo,Hi) of the scenario list of Group, or one explicit scenario (replay).
type Job struct {
	ID    int             `json:"id"`
	Group string          `json:"g"`
	Lo    int             `json:"lo"`
	Hi    int             `json:"hi"`
	One   json.RawMessage `json:"one,omitempty"`
}

// Death is a scenario whose execution killed (or hung) its worker.
type Death struct {
	Job      Job
	Index    int             // index in the group's list (-1 when the journal is missing)
	Scenario json.RawMessage // the journalled scenario
	Fail     *shard.Failure
}

const journalEnv = "NETLAB_JOURNAL_DIR"

func journalDir() string {
	if d := os.Getenv(journalEnv); d != "" {
		return d
	}
	if d := os.Getenv("VERIF_SCRATCH"); d != "" {
		return d
	}
	return os.TempDir()
}

func journalPath(id int) string {
	return filepath.Join(journalDir(), fmt.Sprintf("journal-%d.json", id))
}

type journalEntry struct {
	Index    int             `json:"i"`
	Scenario json.RawMessage `json:"sc"`
}

// Journal is called by a worker immediately before it runs scenario index of job id.
func Journal(id, index int, scenario interface{}) {
	b, _ := json.Marshal(scenario)
	e, _ := json.Marshal(journalEntry{index, b})
	os.WriteFile(journalPath(id), e, 0o644)
}

// JournalDone removes the journal of a finished job.
func JournalDone(id int) { os.Remove(journalPath(id)) }

// Drive runs the jobs; onResult receives each completed job's result line, onDeath each convicted scenario.
// After a death the scenarios of the job before the convicted one are re-run (their results died with the
// worker) and the ones after it are run, so every scenario of every job is eventually evaluated.
// It returns the number of rounds used.
func Drive(jobs []Job, opt shard.Options, onResult func(j Job, raw json.RawMessage), onDeath func(d Death)) int {
	dir, err := os.MkdirTemp(journalDir(), "journal")
	if err != nil {
		dir, _ = os.MkdirTemp("", "journal")
	}
	defer os.RemoveAll(dir)
	opt.Env = append(opt.Env, journalEnv+"="+dir)
	nextID := 0
	for i := range jobs {
		if jobs[i].ID >= nextID {
			nextID = jobs[i].ID + 1
		}
	}
	rounds := 0
	for len(jobs) > 0 {
		rounds++
		var again []Job
		list := make([]interface{}, len(jobs))
		for i := range jobs {
			list[i] = jobs[i]
		}
		cur := jobs
		shard.Run(list, opt, func(i int, raw json.RawMessage, fail *shard.Failure) {
			j := cur[i]
			path := filepath.Join(dir, fmt.Sprintf("journal-%d.json", j.ID)) // what journalPath computes in the worker
			if fail == nil {
				os.Remove(path)
				onResult(j, raw)
				return
			}
			d := Death{Job: j, Index: -1, Fail: fail}
			if b, err := os.ReadFile(path); err == nil {
				var e journalEntry
				if json.Unmarshal(b, &e) == nil {
					d.Index, d.Scenario = e.Index, e.Scenario
				}
			}
			os.Remove(path)
			onDeath(d)
			if d.Index >= 0 && j.One == nil {
				if d.Index > j.Lo {
					again = append(again, Job{ID: nextID, Group: j.Group, Lo: j.Lo, Hi: d.Index})
					nextID++
				}
				if d.Index+1 < j.Hi {
					again = append(again, Job{ID: nextID, Group: j.Group, Lo: d.Index + 1, Hi: j.Hi})
					nextID++
				}
			}
		})
		jobs = again
	}
	return rounds
}
