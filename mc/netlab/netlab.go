// Package netlab starts hprose services on every transport on ephemeral loopback endpoints and provides the
// real clients that talk to them. Nothing here uses a fixed port: TCP/UDP sockets are bound to 127.0.0.1:0
// and the port is read back, unix sockets live in a fresh os.MkdirTemp directory, mock servers get a unique
// name. Readiness is established by connecting, never by sleeping.
package netlab

import (
	"context"
	"fmt"
	"net"
	"net/http"
	"os"
	"path/filepath"
	"sync"
	"sync/atomic"
	"time"

	"github.com/hprose/hprose-golang/v3/rpc" // init(): registers mock, socket, udp, websocket(+http) handlers and transports
	"github.com/hprose/hprose-golang/v3/rpc/core"
	rpchttp "github.com/hprose/hprose-golang/v3/rpc/http"
	rpcfast "github.com/hprose/hprose-golang/v3/rpc/http/fasthttp"
	"github.com/hprose/hprose-golang/v3/rpc/mock"
	"github.com/valyala/fasthttp"
)

// Link is one way of getting bytes from a real client to a real service.
type Link struct {
	Name   string // stable name used in signatures
	Server string // mock | nethttp | fasthttp | tcp | unix | udp
	Client string // mock | http | fasthttp | socket | ws | udp
}

// Links is the transport matrix: every client implementation against every server implementation it can talk to.
var Links = []Link{
	{"mock", "mock", "mock"},
	{"http", "nethttp", "http"},
	{"http-fastsrv", "fasthttp", "http"},
	{"fasthttp", "fasthttp", "fasthttp"},
	{"fasthttp-netsrv", "nethttp", "fasthttp"},
	{"tcp", "tcp", "socket"},
	{"unix", "unix", "socket"},
	{"ws", "nethttp", "ws"},
	{"ws-fastsrv", "fasthttp", "ws"},
	{"udp", "udp", "udp"},
}

func LinkByName(n string) (Link, bool) {
	for _, l := range Links {
		if l.Name == n {
			return l, true
		}
	}
	return Link{}, false
}

var initOnce sync.Once

// Init registers the fasthttp client transport next to the net/http one (package rpc registers everything else).
func Init() {
	initOnce.Do(func() {
		rpcfast.RegisterTransport()
		rpchttp.RegisterTransport() // scheme http -> net/http client unless a fasthttp client is being built
	})
}

// Server is a real hprose service endpoint.
type Server struct {
	Kind string
	Addr string // host:port, unix path, or mock name
	dir  string
	hs   *http.Server
	fs   *fasthttp.Server
	ln   net.Listener
	uc   *net.UDPConn
	ms   mock.Server
	stop context.CancelFunc
}

var mockSeq int64

// ServerOptions tune the server under the service.
type ServerOptions struct {
	InlinePool    bool // run each request inside the receive loop (socket/udp/websocket Handler.Pool): deterministic ordering for raw-peer scenarios
	FastStreaming bool // fasthttp.Server.StreamRequestBody
}

// InlinePool is a core.WorkerPool that runs the task in the caller (the transport's receive loop).
type InlinePool struct{}

func (InlinePool) Submit(f func()) { f() }

// StartServer binds svc to a fresh endpoint of the given kind and returns once the endpoint accepts traffic.
func StartServer(kind string, svc *core.Service, opt ServerOptions) (*Server, error) {
	Init()
	if opt.InlinePool {
		rpc.SocketHandler(svc).Pool = InlinePool{}
		rpc.UDPHandler(svc).Pool = InlinePool{}
		rpc.WebSocketHandler(svc).Pool = InlinePool{}
	}
	ctx, cancel := context.WithCancel(context.Background())
	s := &Server{Kind: kind, stop: cancel}
	fail := func(err error) (*Server, error) { s.Close(); return nil, err }
	switch kind {
	case "mock":
		s.Addr = fmt.Sprintf("netlab%d-%d", os.Getpid(), atomic.AddInt64(&mockSeq, 1))
		s.ms = mock.Server{Address: s.Addr}
		if err := svc.BindContext(ctx, s.ms); err != nil {
			return fail(err)
		}
	case "nethttp", "fasthttp", "tcp":
		ln, err := net.Listen("tcp", "127.0.0.1:0")
		if err != nil {
			return fail(err)
		}
		s.ln, s.Addr = ln, ln.Addr().String()
		switch kind {
		case "tcp":
			if err := svc.BindContext(ctx, ln); err != nil {
				return fail(err)
			}
		case "nethttp":
			s.hs = &http.Server{}
			if err := svc.BindContext(ctx, s.hs); err != nil {
				return fail(err)
			}
			go s.hs.Serve(ln)
		case "fasthttp":
			s.fs = &fasthttp.Server{StreamRequestBody: opt.FastStreaming, Logger: nullLogger{}}
			if err := svc.BindContext(ctx, s.fs); err != nil {
				return fail(err)
			}
			go s.fs.Serve(ln)
		}
	case "unix":
		dir, err := os.MkdirTemp("", "netlab")
		if err != nil {
			return fail(err)
		}
		s.dir, s.Addr = dir, filepath.Join(dir, "s.sock")
		ln, err := net.Listen("unix", s.Addr)
		if err != nil {
			return fail(err)
		}
		s.ln = ln
		if err := svc.BindContext(ctx, ln); err != nil {
			return fail(err)
		}
	case "udp":
		uc, err := net.ListenUDP("udp", &net.UDPAddr{IP: net.IPv4(127, 0, 0, 1)})
		if err != nil {
			return fail(err)
		}
		uc.SetReadBuffer(4 << 20)
		s.uc, s.Addr = uc, uc.LocalAddr().String()
		if err := svc.BindContext(ctx, uc); err != nil {
			return fail(err)
		}
	default:
		return fail(fmt.Errorf("netlab: unknown server kind %q", kind))
	}
	// readiness: a stream endpoint is ready when a connection is accepted by the kernel on its listening socket;
	// a UDP socket and a mock registration are ready as soon as they exist (datagrams queue in the socket).
	if s.ln != nil {
		c, err := net.DialTimeout(s.ln.Addr().Network(), s.Addr, 10*time.Second)
		if err != nil {
			return fail(fmt.Errorf("netlab: %s endpoint not ready: %v", kind, err))
		}
		c.Close()
	}
	return s, nil
}

type nullLogger struct{}

func (nullLogger) Printf(string, ...interface{}) {}

// Network returns the raw network ("tcp", "unix", "udp") of the endpoint ("" for mock).
func (s *Server) Network() string {
	switch s.Kind {
	case "nethttp", "fasthttp", "tcp":
		return "tcp"
	case "unix":
		return "unix"
	case "udp":
		return "udp"
	}
	return ""
}

// URL returns the client URL for the given client implementation.
func (s *Server) URL(client string) string {
	switch client {
	case "mock":
		return "mock://" + s.Addr
	case "http", "fasthttp":
		return "http://" + s.Addr + "/"
	case "ws":
		return "ws://" + s.Addr + "/"
	case "udp":
		return "udp://" + s.Addr
	case "socket":
		if s.Kind == "unix" {
			return "unix://" + s.Addr
		}
		return "tcp://" + s.Addr
	}
	return ""
}

// Quiesce stops accepting and waits (bounded) until every request already received has been handled.
// Only HTTP servers support it; for the others it is Close.
func (s *Server) Quiesce(d time.Duration) {
	if s.hs != nil {
		ctx, cancel := context.WithTimeout(context.Background(), d)
		s.hs.Shutdown(ctx)
		cancel()
	}
	s.Close()
}

// Close tears the endpoint down.
func (s *Server) Close() {
	if s.stop != nil {
		s.stop()
	}
	switch {
	case s.hs != nil:
		s.hs.Close()
	case s.fs != nil:
		done := make(chan struct{})
		go func() { s.fs.Shutdown(); close(done) }()
		select {
		case <-done:
		case <-time.After(2 * time.Second): // hijacked websocket connections are not tracked by Shutdown's wait
		}
	}
	if s.ln != nil {
		s.ln.Close()
	}
	if s.uc != nil {
		s.uc.Close()
	}
	if s.Kind == "mock" && s.Addr != "" {
		s.ms.Close()
	}
	if s.dir != "" {
		os.RemoveAll(s.dir)
	}
}

var clientMu sync.Mutex

// NewClient returns a real hprose client for url using the named client implementation.
// The scheme->transport table of rpc/core is process-global and "http" is claimed by both HTTP clients, so the
// caller must not use an "http" and a "fasthttp" client concurrently in one process (the checks never do:
// a worker runs one scenario at a time and calls Select before each).
func NewClient(client, url string, timeout time.Duration) *core.Client {
	Init()
	Select(client)
	c := core.NewClient(url)
	c.Timeout = timeout
	return c
}

// Select points the scheme "http" at the net/http or the fasthttp client transport.
func Select(client string) {
	clientMu.Lock()
	switch client {
	case "fasthttp":
		rpcfast.RegisterTransport()
	case "http":
		rpchttp.RegisterTransport()
	}
	clientMu.Unlock()
}

// Request submits raw request bytes through the client's IO path (plugins + transport), like Client.Call does.
func Request(c *core.Client, request []byte) ([]byte, error) {
	cc := core.NewClientContext()
	cc.Init(c)
	return c.Request(core.WithContext(context.Background(), cc), request)
}

// CloseClient releases the connections a client holds.
func CloseClient(c *core.Client) {
	if c == nil {
		return
	}
	c.Abort()
	if t, ok := c.GetTransport("http").(*rpchttp.Transport); ok && t != nil {
		t.HTTPClient.CloseIdleConnections()
	}
	if t, ok := c.GetTransport("fasthttp").(*rpcfast.Transport); ok && t != nil {
		t.FastHTTPClient.CloseIdleConnections()
	}
}

// Recorder is an IO plugin (Service.Use) that records the request bytes the service is handed and answers with
// Respond(request) (or, when Respond is nil, passes the request on to the next handler).
type Recorder struct {
	mu      sync.Mutex
	entries []*Entry
	Respond func(request []byte) []byte
}

type Entry struct {
	Request  []byte
	Response []byte
	Done     bool
}

func (r *Recorder) Handler(ctx context.Context, request []byte, next core.NextIOHandler) ([]byte, error) {
	cp := append([]byte{}, request...)
	r.mu.Lock()
	e := &Entry{Request: cp}
	r.entries = append(r.entries, e)
	f := r.Respond
	r.mu.Unlock()
	var resp []byte
	var err error
	if f != nil {
		resp = f(cp)
	} else {
		resp, err = next(ctx, request)
	}
	r.mu.Lock()
	e.Response = append([]byte{}, resp...)
	e.Done = true
	r.mu.Unlock()
	return resp, err
}

func (r *Recorder) Mark() int { r.mu.Lock(); defer r.mu.Unlock(); return len(r.entries) }

// Since returns a copy of the entries recorded after mark.
func (r *Recorder) Since(mark int) []Entry {
	r.mu.Lock()
	defer r.mu.Unlock()
	if mark > len(r.entries) {
		mark = len(r.entries)
	}
	out := make([]Entry, 0, len(r.entries)-mark)
	for _, e := range r.entries[mark:] {
		out = append(out, *e)
	}
	return out
}

// Truncate forgets everything (keeps memory bounded over thousands of scenarios).
func (r *Recorder) Truncate() { r.mu.Lock(); r.entries = nil; r.mu.Unlock() }
