package netlab

// Raw peers: clients that send exactly prescribed bytes to a real server, and scripted servers that answer a
// real client with exactly prescribed bytes.

import (
	"bufio"
	"errors"
	"fmt"
	"io"
	"net"
	"net/http"
	"os"
	"path/filepath"
	"sync"
	"time"
)

// RawStream is a raw TCP or unix-socket client.
type RawStream struct{ net.Conn }

func DialStream(network, addr string) (*RawStream, error) {
	c, err := net.DialTimeout(network, addr, 10*time.Second)
	if err != nil {
		return nil, err
	}
	return &RawStream{c}, nil
}

// CloseWrite half-closes: the peer reads EOF after the bytes sent so far, our read side stays open.
func (r *RawStream) CloseWrite() error {
	switch c := r.Conn.(type) {
	case *net.TCPConn:
		return c.CloseWrite()
	case *net.UnixConn:
		return c.CloseWrite()
	}
	return errors.New("netlab: CloseWrite unsupported")
}

// ReadToEOF reads until the peer closes (eof=true; a reset counts as closed) or the deadline passes (eof=false).
func (r *RawStream) ReadToEOF(d time.Duration) (data []byte, eof bool) {
	r.SetReadDeadline(time.Now().Add(d))
	buf := make([]byte, 32<<10)
	for {
		n, err := r.Read(buf)
		data = append(data, buf[:n]...)
		if err != nil {
			if ne, ok := err.(net.Error); ok && ne.Timeout() {
				return data, false
			}
			return data, true
		}
	}
}

// RawUDP is a raw UDP client socket connected to the server address.
type RawUDP struct{ *net.UDPConn }

func DialUDP(addr string) (*RawUDP, error) {
	ra, err := net.ResolveUDPAddr("udp", addr)
	if err != nil {
		return nil, err
	}
	c, err := net.DialUDP("udp", nil, ra)
	if err != nil {
		return nil, err
	}
	return &RawUDP{c}, nil
}

// Recv waits for one datagram (ok=false on deadline or error).
func (r *RawUDP) Recv(d time.Duration) ([]byte, bool) {
	r.SetReadDeadline(time.Now().Add(d))
	buf := make([]byte, 65536)
	n, err := r.Read(buf)
	if err != nil {
		return nil, false
	}
	return buf[:n], true
}

// RawServer is a scripted peer for real clients.
type RawServer struct {
	Network string
	Addr    string
	ln      net.Listener
	pc      *net.UDPConn
	dir     string
	mu      sync.Mutex
	onConn  func(net.Conn)
	onDgram func(pc *net.UDPConn, from *net.UDPAddr, d []byte)
	conns   map[net.Conn]bool
	closed  bool
}

// StartRawStream listens on an ephemeral TCP port ("tcp") or a temp-dir unix socket ("unix").
func StartRawStream(network string) (*RawServer, error) {
	s := &RawServer{Network: network, conns: map[net.Conn]bool{}}
	var err error
	switch network {
	case "tcp":
		s.ln, err = net.Listen("tcp", "127.0.0.1:0")
		if err == nil {
			s.Addr = s.ln.Addr().String()
		}
	case "unix":
		s.dir, err = os.MkdirTemp("", "netlabraw")
		if err == nil {
			s.Addr = filepath.Join(s.dir, "r.sock")
			s.ln, err = net.Listen("unix", s.Addr)
		}
	default:
		err = fmt.Errorf("netlab: raw stream network %q", network)
	}
	if err != nil {
		s.Close()
		return nil, err
	}
	go func() {
		for {
			c, err := s.ln.Accept()
			if err != nil {
				return
			}
			s.mu.Lock()
			h := s.onConn
			if s.closed {
				s.mu.Unlock()
				c.Close()
				return
			}
			s.conns[c] = true
			s.mu.Unlock()
			go func() {
				defer func() {
					recover()
					c.Close()
					s.mu.Lock()
					delete(s.conns, c)
					s.mu.Unlock()
				}()
				if h != nil {
					h(c)
				}
			}()
		}
	}()
	return s, nil
}

// OnConn sets the script run for every accepted connection (the connection is closed when it returns).
func (s *RawServer) OnConn(h func(net.Conn)) { s.mu.Lock(); s.onConn = h; s.mu.Unlock() }

// StartRawUDP binds an ephemeral UDP socket.
func StartRawUDP() (*RawServer, error) {
	pc, err := net.ListenUDP("udp", &net.UDPAddr{IP: net.IPv4(127, 0, 0, 1)})
	if err != nil {
		return nil, err
	}
	s := &RawServer{Network: "udp", Addr: pc.LocalAddr().String(), pc: pc}
	go func() {
		buf := make([]byte, 65536)
		for {
			n, from, err := pc.ReadFromUDP(buf)
			if err != nil {
				return
			}
			s.mu.Lock()
			h := s.onDgram
			s.mu.Unlock()
			if h != nil {
				h(pc, from, append([]byte{}, buf[:n]...))
			}
		}
	}()
	return s, nil
}

func (s *RawServer) OnDatagram(h func(pc *net.UDPConn, from *net.UDPAddr, d []byte)) {
	s.mu.Lock()
	s.onDgram = h
	s.mu.Unlock()
}

// URL for a real client implementation.
func (s *RawServer) URL(client string) string {
	switch client {
	case "http", "fasthttp":
		return "http://" + s.Addr + "/"
	case "ws":
		return "ws://" + s.Addr + "/"
	case "udp":
		return "udp://" + s.Addr
	case "socket":
		if s.Network == "unix" {
			return "unix://" + s.Addr
		}
		return "tcp://" + s.Addr
	}
	return ""
}

func (s *RawServer) Close() {
	s.mu.Lock()
	s.closed = true
	for c := range s.conns {
		c.Close()
	}
	s.mu.Unlock()
	if s.ln != nil {
		s.ln.Close()
	}
	if s.pc != nil {
		s.pc.Close()
	}
	if s.dir != "" {
		os.RemoveAll(s.dir)
	}
}

// ReadSocketFrame reads one frame of the socket transport as a correct peer would.
func ReadSocketFrame(r io.Reader) (index uint32, body []byte, err error) {
	h := make([]byte, 12)
	if _, err = io.ReadFull(r, h); err != nil {
		return
	}
	length, index, _, ok := ParseSocketHeader(h)
	if !ok {
		return 0, nil, errors.New("netlab: bad crc from real peer")
	}
	body = make([]byte, length)
	_, err = io.ReadFull(r, body)
	return
}

// WSServerHandshake answers a client's opening handshake.
func WSServerHandshake(c net.Conn) (*bufio.Reader, error) {
	br := bufio.NewReader(c)
	req, err := http.ReadRequest(br)
	if err != nil {
		return nil, err
	}
	key := req.Header.Get("Sec-WebSocket-Key")
	_, err = io.WriteString(c, "HTTP/1.1 101 Switching Protocols\r\nUpgrade: websocket\r\nConnection: Upgrade\r\n"+
		"Sec-WebSocket-Accept: "+WSAcceptKey(key)+"\r\nSec-WebSocket-Protocol: hprose\r\n\r\n")
	return br, err
}

// WSClientHandshake performs the client's opening handshake on c.
func WSClientHandshake(c net.Conn, host string) (*bufio.Reader, error) {
	if _, err := c.Write(WSUpgradeRequest(host)); err != nil {
		return nil, err
	}
	c.SetReadDeadline(time.Now().Add(10 * time.Second))
	br := bufio.NewReader(c)
	resp, err := http.ReadResponse(br, nil)
	if err != nil {
		return nil, err
	}
	if resp.StatusCode != 101 {
		return nil, fmt.Errorf("netlab: websocket upgrade refused: %s", resp.Status)
	}
	c.SetReadDeadline(time.Time{})
	return br, nil
}

// WSReadFrame reads one RFC 6455 frame (unmasking it when masked).
func WSReadFrame(br *bufio.Reader) (fin bool, opcode byte, payload []byte, err error) {
	var h [2]byte
	if _, err = io.ReadFull(br, h[:]); err != nil {
		return
	}
	fin, opcode = h[0]&0x80 != 0, h[0]&0x0f
	n := uint64(h[1] & 0x7f)
	switch n {
	case 126:
		var l [2]byte
		if _, err = io.ReadFull(br, l[:]); err != nil {
			return
		}
		n = uint64(l[0])<<8 | uint64(l[1])
	case 127:
		var l [8]byte
		if _, err = io.ReadFull(br, l[:]); err != nil {
			return
		}
		n = 0
		for _, b := range l {
			n = n<<8 | uint64(b)
		}
	}
	var mask [4]byte
	masked := h[1]&0x80 != 0
	if masked {
		if _, err = io.ReadFull(br, mask[:]); err != nil {
			return
		}
	}
	if n > 64<<20 {
		err = errors.New("netlab: websocket frame too large")
		return
	}
	payload = make([]byte, n)
	if _, err = io.ReadFull(br, payload); err != nil {
		return
	}
	if masked {
		for i := range payload {
			payload[i] ^= mask[i%4]
		}
	}
	return
}

// WSReadMessage reads frames until a complete data message (skipping control frames).
func WSReadMessage(br *bufio.Reader) (opcode byte, msg []byte, err error) {
	for {
		fin, op, p, e := WSReadFrame(br)
		if e != nil {
			return 0, nil, e
		}
		if op >= 8 {
			if op == 8 {
				return 8, p, nil
			}
			continue
		}
		if op != 0 {
			opcode = op
		}
		msg = append(msg, p...)
		if fin {
			return opcode, msg, nil
		}
	}
}

// HTTPReadRequest reads one HTTP request and its whole body.
func HTTPReadRequest(br *bufio.Reader) (*http.Request, []byte, error) {
	req, err := http.ReadRequest(br)
	if err != nil {
		return nil, nil, err
	}
	body, err := io.ReadAll(req.Body)
	return req, body, err
}

// RawExchange sends w from a fresh raw peer to a real server and waits for the event that proves the server has
// finished with it. On streams the peer half-closes and reads to EOF: the server closes after its receive loop
// saw EOF, and (with ServerOptions.InlinePool, or on HTTP) requests run inside that loop, so nothing of w is
// still pending when EOF arrives. On UDP there is no connection: a valid sentinel datagram from the same socket
// is sent after w (re-sent up to five times) and its answer awaited; datagrams of one socket pair are handled
// in order by the server's single receive loop. websocket=true performs the opening handshake first.
// settled=false means the event did not happen within slack (callers retry; it is never a verdict).
func RawExchange(srv *Server, websocket bool, w []byte, sentinel func(try int) []byte, isSentinelReply func(d []byte) bool, slack time.Duration) (returned []byte, settled bool, err error) {
	if srv.Network() == "udp" {
		u, err := DialUDP(srv.Addr)
		if err != nil {
			return nil, false, err
		}
		defer u.Close()
		if _, err := u.Write(w); err != nil {
			return nil, false, err
		}
		for try := 0; try < 5; try++ {
			if _, err := u.Write(sentinel(try)); err != nil {
				return nil, false, err
			}
			deadline := time.Now().Add(slack / 5)
			for time.Now().Before(deadline) {
				d, ok := u.Recv(time.Until(deadline))
				if !ok {
					break
				}
				if isSentinelReply(d) {
					return returned, true, nil
				}
				returned = append(returned, d...)
			}
		}
		return returned, false, nil
	}
	c, err := DialStream(srv.Network(), srv.Addr)
	if err != nil {
		return nil, false, err
	}
	defer c.Close()
	var pre []byte
	if websocket {
		br, err := WSClientHandshake(c, srv.Addr)
		if err != nil {
			return nil, false, err
		}
		pre, _ = br.Peek(br.Buffered())
		pre = append([]byte{}, pre...)
	}
	c.SetWriteDeadline(time.Now().Add(slack))
	c.Write(w) // a write error means the server has already rejected and closed: an outcome, not a problem
	c.CloseWrite()
	data, eof := c.ReadToEOF(slack)
	return append(pre, data...), eof, nil
}
