package netlab

// Reference implementations of the wire formats (written from the protocol, not copied from the code under
// test, whose helpers are unexported): the 12-byte socket header, the 8-byte UDP header, the 4-byte websocket
// message prefix, RFC 6455 frames and HTTP/1.1 messages with freely prescribed (possibly false) lengths.

import (
	"bytes"
	"crypto/sha1"
	"encoding/base64"
	"encoding/binary"
	"fmt"
	"hash/crc32"
	"strconv"
)

// SocketHeader: crc32(bytes 4..11) | 0x80000000+length | index   (all big endian).
func SocketHeader(length int, index uint32) []byte {
	h := make([]byte, 12)
	binary.BigEndian.PutUint32(h[4:], uint32(length)|0x80000000)
	binary.BigEndian.PutUint32(h[8:], index)
	binary.BigEndian.PutUint32(h[0:], crc32.ChecksumIEEE(h[4:]))
	return h
}

// ParseSocketHeader is the reference reading of 12 received bytes.
func ParseSocketHeader(h []byte) (length int, index uint32, errFlag bool, crcOK bool) {
	crcOK = crc32.ChecksumIEEE(h[4:12]) == binary.BigEndian.Uint32(h[0:])
	length = int(binary.BigEndian.Uint32(h[4:]) & 0x7fffffff)
	index = binary.BigEndian.Uint32(h[8:])
	errFlag = index&0x80000000 != 0
	index &= 0x7fffffff
	return
}

// SocketFrame is a complete frame: header declaring `declared` bytes followed by body (whatever its length).
func SocketFrame(declared int, index uint32, body []byte) []byte {
	return append(SocketHeader(declared, index), body...)
}

// UDPHeader: crc32(bytes 4..7) | uint16 length | uint16 index.
func UDPHeader(length int, index uint16) []byte {
	h := make([]byte, 8)
	binary.BigEndian.PutUint16(h[4:], uint16(length))
	binary.BigEndian.PutUint16(h[6:], index)
	binary.BigEndian.PutUint32(h[0:], crc32.ChecksumIEEE(h[4:]))
	return h
}

func ParseUDPHeader(h []byte) (length int, index uint16, errFlag bool, crcOK bool) {
	crcOK = crc32.ChecksumIEEE(h[4:8]) == binary.BigEndian.Uint32(h[0:])
	length = int(binary.BigEndian.Uint16(h[4:]))
	index = binary.BigEndian.Uint16(h[6:])
	errFlag = index&0x8000 != 0
	index &= 0x7fff
	return
}

func UDPDatagram(declared int, index uint16, body []byte) []byte {
	return append(UDPHeader(declared, index), body...)
}

// WSPrefix is the 4-byte index that precedes an hprose body inside a websocket binary message.
func WSPrefix(index uint32) []byte {
	h := make([]byte, 4)
	binary.BigEndian.PutUint32(h, index)
	return h
}

// FlipBit returns a copy of b with bit `bit` (0 = most significant bit of byte 0) inverted.
func FlipBit(b []byte, bit int) []byte {
	c := append([]byte{}, b...)
	c[bit/8] ^= 0x80 >> uint(bit%8)
	return c
}

// WSFrame builds one RFC 6455 frame whose header declares `declared` payload bytes and which carries payload
// (whatever its length). Client frames are masked (mask != nil): the payload bytes on the wire are payload^mask.
func WSFrame(fin bool, opcode byte, declared int, payload []byte, mask []byte) []byte {
	var b bytes.Buffer
	b0 := opcode & 0x0f
	if fin {
		b0 |= 0x80
	}
	b.WriteByte(b0)
	mb := byte(0)
	if mask != nil {
		mb = 0x80
	}
	switch {
	case declared < 126:
		b.WriteByte(mb | byte(declared))
	case declared < 65536:
		b.WriteByte(mb | 126)
		b.Write([]byte{byte(declared >> 8), byte(declared)})
	default:
		b.WriteByte(mb | 127)
		var l [8]byte
		binary.BigEndian.PutUint64(l[:], uint64(declared))
		b.Write(l[:])
	}
	if mask != nil {
		b.Write(mask[:4])
		for i, c := range payload {
			b.WriteByte(c ^ mask[i%4])
		}
	} else {
		b.Write(payload)
	}
	return b.Bytes()
}

const wsGUID = "258EAFA5-E914-47DA-95CA-C5AB0DC85B11"

// WSAcceptKey computes Sec-WebSocket-Accept.
func WSAcceptKey(key string) string {
	h := sha1.Sum([]byte(key + wsGUID))
	return base64.StdEncoding.EncodeToString(h[:])
}

// WSUpgradeRequest is the client half of the opening handshake.
func WSUpgradeRequest(host string) []byte {
	return []byte("GET / HTTP/1.1\r\nHost: " + host + "\r\nUpgrade: websocket\r\nConnection: Upgrade\r\n" +
		"Sec-WebSocket-Key: dGhlIHNhbXBsZSBub25jZQ==\r\nSec-WebSocket-Version: 13\r\nSec-WebSocket-Protocol: hprose\r\n\r\n")
}

// HTTPRequest builds a raw HTTP/1.1 POST. contentLength < 0 omits the header; chunked adds
// Transfer-Encoding: chunked and encodes body in chunks of chunkSize (the terminating chunk included).
// The connection is always marked close so that the response ends with EOF.
func HTTPRequest(host string, contentLength int, chunked bool, chunkSize int, body []byte) []byte {
	var b bytes.Buffer
	b.WriteString("POST / HTTP/1.1\r\nHost: " + host + "\r\nConnection: close\r\nContent-Type: application/octet-stream\r\n")
	if contentLength >= 0 {
		b.WriteString("Content-Length: " + strconv.Itoa(contentLength) + "\r\n")
	}
	if chunked {
		b.WriteString("Transfer-Encoding: chunked\r\n")
	}
	b.WriteString("\r\n")
	if chunked {
		if chunkSize <= 0 {
			chunkSize = len(body)
		}
		for off := 0; off < len(body); off += chunkSize {
			end := off + chunkSize
			if end > len(body) {
				end = len(body)
			}
			fmt.Fprintf(&b, "%x\r\n", end-off)
			b.Write(body[off:end])
			b.WriteString("\r\n")
		}
		b.WriteString("0\r\n\r\n")
	} else {
		b.Write(body)
	}
	return b.Bytes()
}

// HTTPResponse builds a raw HTTP/1.1 200 response declaring contentLength (omitted when < 0) and carrying body.
func HTTPResponse(contentLength int, body []byte) []byte {
	var b bytes.Buffer
	b.WriteString("HTTP/1.1 200 OK\r\nContent-Type: text/plain\r\nConnection: close\r\n")
	if contentLength >= 0 {
		b.WriteString("Content-Length: " + strconv.Itoa(contentLength) + "\r\n")
	}
	b.WriteString("\r\n")
	b.Write(body)
	return b.Bytes()
}
