// Package refcheck holds the oracle shared by C02 and C03: parse the encoder's bytes with the independent
// reader (hpref), denote the Go value independently, and compare the two abstract values.
package refcheck

import (
	"fmt"

	"verif/mc/hpref"
)

// Normalize applies the one normalisation the properties allow on the abstract level: nil and empty
// lists / maps / byte strings are interchangeable (the encoder writes a nil inner slice of a 2-D fast
// path as an empty list). It rewrites the graph in place and is cycle-safe.
func Normalize(v *hpref.Value) *hpref.Value {
	seen := map[*hpref.Value]bool{}
	var walk func(v *hpref.Value)
	walk = func(v *hpref.Value) {
		if v == nil || seen[v] {
			return
		}
		seen[v] = true
		for _, e := range v.Elems {
			walk(e)
		}
		for _, p := range v.Pairs {
			walk(p[0])
			walk(p[1])
		}
		switch v.Kind {
		case hpref.List:
			if len(v.Elems) == 0 {
				*v = hpref.Value{Kind: hpref.Null, Ref: -1}
			}
		case hpref.Map:
			if len(v.Pairs) == 0 {
				*v = hpref.Value{Kind: hpref.Null, Ref: -1}
			}
		case hpref.Bytes:
			if len(v.Bytes) == 0 {
				*v = hpref.Value{Kind: hpref.Null, Ref: -1}
			}
		}
	}
	walk(v)
	return v
}

// Result of checking one encoded stream.
type Result struct {
	Kind string // "" ok | "not-well-formed" | "wrong-value-count" | "boundary" | "denotes-another-value" | "skipped"
	What string
}

// Check parses data (one encoder, no Reset between the values unless resets is given) and compares each
// parsed value with the denotation of the corresponding Go value.
func Check(data []byte, simple bool, values []interface{}, ends []int, resets []int) Result {
	var parsed *hpref.Parsed
	var err error
	opt := hpref.Options{Simple: simple, AllowError: true} // an error value is legal as a top-level value only
	if resets != nil {
		parsed, err = hpref.ParseSegments(data, resets, opt)
	} else {
		parsed, err = hpref.Parse(data, opt)
	}
	if err != nil {
		return Result{"not-well-formed", fmt.Sprintf("independent reader rejects the stream: %v", err)}
	}
	if len(parsed.Values) != len(values) {
		return Result{"wrong-value-count", fmt.Sprintf("%d values encoded, the stream contains %d", len(values), len(parsed.Values))}
	}
	for i := range values {
		if ends != nil && parsed.Ends[i] != ends[i] {
			return Result{"boundary", fmt.Sprintf("value %d ends at byte %d, the encoder's buffer length after it was %d", i, parsed.Ends[i], ends[i])}
		}
		want, derr := hpref.Denote(values[i], !simple)
		if derr != nil {
			return Result{"skipped", derr.Error()}
		}
		if d := hpref.Diff(Normalize(parsed.Values[i]), Normalize(want)); d != "" {
			return Result{"denotes-another-value", fmt.Sprintf("value %d: stream denotes %s, the Go value denotes %s (first difference: %s)", i, trunc(parsed.Values[i].String()), trunc(want.String()), d)}
		}
	}
	return Result{}
}

func trunc(s string) string {
	if len(s) > 240 {
		return s[:240] + "..."
	}
	return s
}
