// Package rpclab publishes one hprose service on every transport of the library at once — on ephemeral
// loopback ports and on unix sockets inside a private temporary directory — and hands out clients for
// each of them. Nothing here sleeps: a listening socket queues connections (and a bound UDP socket queues
// datagrams) from the moment Listen returns, and Start finishes with one real call per transport as the
// readiness handshake. Raw peers (frame builders, scripted servers and clients) live in raw.go.
package rpclab

import (
	"context"
	"fmt"
	"net"
	"net/http"
	"os"
	"path/filepath"
	"sync"
	"sync/atomic"
	"time"

	"github.com/hprose/hprose-golang/v3/rpc"
	"github.com/hprose/hprose-golang/v3/rpc/core"
	rpchttp "github.com/hprose/hprose-golang/v3/rpc/http"
	rpcfast "github.com/hprose/hprose-golang/v3/rpc/http/fasthttp"
	"github.com/hprose/hprose-golang/v3/rpc/mock"
	"github.com/valyala/fasthttp"
)

// Transport names. The first seven are the transports of the property statements (client stack ->
// matching server stack); the last three pair a client stack with the other HTTP server stack.
const (
	Mock     = "mock"
	HTTP     = "http"     // net/http client -> net/http server
	FastHTTP = "fasthttp" // fasthttp client -> fasthttp server
	TCP      = "tcp"
	Unix     = "unix"
	WS       = "websocket" // websocket client -> net/http server (upgrade)
	UDP      = "udp"

	WSFast     = "websocket@fasthttp" // websocket client -> fasthttp server (upgrade)
	HTTPToFast = "http@fasthttp"      // net/http client -> fasthttp server
	FastToHTTP = "fasthttp@http"      // fasthttp client -> net/http server
)

var (
	// Core is the transport set named by the properties.
	Core = []string{Mock, HTTP, FastHTTP, TCP, Unix, WS, UDP}
	// Cross are the mixed client/server stacks (thorough tier).
	Cross = []string{WSFast, HTTPToFast, FastToHTTP}
)

// HasPool reports whether the server side of tr takes a core.WorkerPool (the http handlers and the mock
// handler have no such field: the axis does not exist there).
func HasPool(tr string) bool {
	switch tr {
	case TCP, Unix, WS, WSFast, UDP:
		return true
	}
	return false
}

// Multiplexed reports whether the client transport carries concurrent calls over one connection.
func Multiplexed(tr string) bool {
	switch tr {
	case TCP, Unix, WS, WSFast, UDP:
		return true
	}
	return false
}

func usesFastClient(tr string) bool { return tr == FastHTTP || tr == FastToHTTP }

func init() {
	// rpc's init registers mock, net/http, socket, udp and websocket. The fasthttp client transport claims
	// the same URL schemes as the net/http one; the scheme -> transport table is process-global, so both
	// are registered once here (every later NewClient then owns an instance of each) and Select flips the
	// table between them.
	rpcfast.RegisterTransport()
	rpchttp.RegisterTransport()
}

var selectMu sync.Mutex

// Select makes clients use the client stack of tr for http:// URLs. It is process-global: callers never
// mix the two HTTP client stacks concurrently.
func Select(tr string) {
	selectMu.Lock()
	defer selectMu.Unlock()
	if usesFastClient(tr) {
		rpcfast.RegisterTransport()
	} else {
		rpchttp.RegisterTransport()
	}
}

// Pool is a fixed-size worker pool implementing core.WorkerPool.
type Pool struct {
	ch        chan func()
	Submitted int64
}

func NewPool(workers int) *Pool {
	p := &Pool{ch: make(chan func(), 256)}
	for i := 0; i < workers; i++ {
		go func() {
			for f := range p.ch {
				f()
			}
		}()
	}
	return p
}

func (p *Pool) Submit(f func()) {
	atomic.AddInt64(&p.Submitted, 1)
	p.ch <- f
}

func (p *Pool) Count() int64 { return atomic.LoadInt64(&p.Submitted) }

// Lab is one service published on a set of transports.
type Lab struct {
	Service *core.Service
	Pool    *Pool
	Dir     string
	urls    map[string]string
	closers []func()
}

var labSeq int64

// Start publishes svc on the server stacks needed for the named transports. With pool, every handler
// that has a Pool field gets a 4-worker pool.
func Start(svc *core.Service, transports []string, pool bool) (*Lab, error) {
	l := &Lab{Service: svc, urls: map[string]string{}}
	if pool {
		l.Pool = NewPool(4)
		rpc.SocketHandler(svc).Pool = l.Pool
		rpc.UDPHandler(svc).Pool = l.Pool
		rpc.WebSocketHandler(svc).Pool = l.Pool
	}
	var err error
	if l.Dir, err = os.MkdirTemp("", "rpclab"); err != nil {
		return nil, err
	}
	l.closers = append(l.closers, func() { os.RemoveAll(l.Dir) })
	started := map[string]string{} // server kind -> host:port / path
	for _, tr := range transports {
		kind := serverKind(tr)
		addr, ok := started[kind]
		if !ok {
			if addr, err = l.startServer(kind); err != nil {
				l.Close()
				return nil, fmt.Errorf("start %s: %v", kind, err)
			}
			started[kind] = addr
		}
		switch tr {
		case Mock:
			l.urls[tr] = "mock://" + addr
		case HTTP, FastHTTP, HTTPToFast, FastToHTTP:
			l.urls[tr] = "http://" + addr + "/"
		case WS, WSFast:
			l.urls[tr] = "ws://" + addr + "/"
		case TCP:
			l.urls[tr] = "tcp://" + addr
		case Unix:
			l.urls[tr] = "unix://" + addr
		case UDP:
			l.urls[tr] = "udp://" + addr
		default:
			l.Close()
			return nil, fmt.Errorf("unknown transport %q", tr)
		}
	}
	// readiness handshake: one real call ("~" lists the published names) per transport
	for _, tr := range transports {
		Select(tr)
		c := l.Client(tr)
		c.Timeout = 5 * time.Second
		var lastErr error
		ok := false
		for i := 0; i < 5 && !ok; i++ {
			if _, lastErr = c.Invoke("~", nil); lastErr == nil {
				ok = true
			}
		}
		c.Abort()
		if !ok {
			l.Close()
			return nil, fmt.Errorf("transport %s not ready: %v", tr, lastErr)
		}
	}
	return l, nil
}

func serverKind(tr string) string {
	switch tr {
	case HTTP, WS, FastToHTTP:
		return "nethttp"
	case FastHTTP, WSFast, HTTPToFast:
		return "fasthttp"
	}
	return tr
}

func (l *Lab) startServer(kind string) (string, error) {
	svc := l.Service
	switch kind {
	case Mock:
		addr := fmt.Sprintf("lab%d-%d", os.Getpid(), atomic.AddInt64(&labSeq, 1))
		server := mock.Server{Address: addr}
		if err := svc.Bind(server); err != nil {
			return "", err
		}
		l.closers = append(l.closers, server.Close)
		return addr, nil
	case "nethttp":
		ln, err := net.Listen("tcp", "127.0.0.1:0")
		if err != nil {
			return "", err
		}
		server := &http.Server{}
		if err := svc.Bind(server); err != nil {
			return "", err
		}
		go server.Serve(ln)
		l.closers = append(l.closers, func() { server.Close() })
		return ln.Addr().String(), nil
	case "fasthttp":
		ln, err := net.Listen("tcp", "127.0.0.1:0")
		if err != nil {
			return "", err
		}
		server := &fasthttp.Server{}
		if err := svc.Bind(server); err != nil {
			return "", err
		}
		go server.Serve(ln)
		l.closers = append(l.closers, func() { ln.Close(); go server.Shutdown() })
		return ln.Addr().String(), nil
	case TCP:
		ln, err := net.Listen("tcp", "127.0.0.1:0")
		if err != nil {
			return "", err
		}
		if err := svc.Bind(ln); err != nil {
			return "", err
		}
		l.closers = append(l.closers, func() { ln.Close() })
		return ln.Addr().String(), nil
	case Unix:
		path := filepath.Join(l.Dir, "s.sock")
		ln, err := net.Listen("unix", path)
		if err != nil {
			return "", err
		}
		if err := svc.Bind(ln); err != nil {
			return "", err
		}
		l.closers = append(l.closers, func() { ln.Close() })
		return path, nil
	case UDP:
		conn, err := net.ListenUDP("udp", &net.UDPAddr{IP: net.IPv4(127, 0, 0, 1)})
		if err != nil {
			return "", err
		}
		if err := svc.Bind(conn); err != nil {
			return "", err
		}
		l.closers = append(l.closers, func() { conn.Close() })
		return conn.LocalAddr().String(), nil
	}
	return "", fmt.Errorf("unknown server kind %q", kind)
}

// URL returns the client URL of tr.
func (l *Lab) URL(tr string) string { return l.urls[tr] }

// Addr returns host:port (or the socket path) of tr's server.
func (l *Lab) Addr(tr string) string {
	u := l.urls[tr]
	for _, p := range []string{"mock://", "http://", "ws://", "tcp://", "unix://", "udp://"} {
		if len(u) > len(p) && u[:len(p)] == p {
			u = u[len(p):]
		}
	}
	if n := len(u); n > 0 && u[n-1] == '/' && u[0] != '/' {
		u = u[:n-1]
	}
	return u
}

// Client returns a new client for tr. The caller must have called Select(tr) (Start leaves the table at
// the last transport it probed, so callers always Select explicitly).
func (l *Lab) Client(tr string) *core.Client {
	return core.NewClient(l.urls[tr])
}

// Close stops every server of the lab.
func (l *Lab) Close() {
	for i := len(l.closers) - 1; i >= 0; i-- {
		l.closers[i]()
	}
	l.closers = nil
}

// ServiceCtx is the context Service.Handle expects (used by raw servers that borrow the library's codec
// for their healthy answers).
func ServiceCtx(svc *core.Service) context.Context {
	return core.WithContext(context.Background(), core.NewServiceContext(svc))
}
