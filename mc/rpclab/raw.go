package rpclab

import (
	"bufio"
	"context"
	"errors"
	"fmt"
	"hash/crc32"
	"io"
	"net"
	"net/http"
	"os"
	"path/filepath"
	"sync"
	"time"

	"github.com/fasthttp/websocket"
	"github.com/hprose/hprose-golang/v3/rpc/core"
)

// ---- frame formats (re-implemented from rpc/socket/common.go, rpc/udp/common.go, rpc/websocket/common.go;
// every healthy raw exchange of a scenario validates them against the library) ----

// SocketHeader is the 12-byte header of the tcp/unix transports: CRC32-IEEE of bytes 4..11, then the body
// length with the top bit set, then the request index (top bit = error flag in responses).
func SocketHeader(length int, index uint32) []byte {
	h := make([]byte, 12)
	h[4] = byte(length>>24&0x7f) | 0x80
	h[5] = byte(length >> 16)
	h[6] = byte(length >> 8)
	h[7] = byte(length)
	h[8] = byte(index >> 24)
	h[9] = byte(index >> 16)
	h[10] = byte(index >> 8)
	h[11] = byte(index)
	crc := crc32.ChecksumIEEE(h[4:])
	h[0] = byte(crc >> 24)
	h[1] = byte(crc >> 16)
	h[2] = byte(crc >> 8)
	h[3] = byte(crc)
	return h
}

// SocketFrame is header + body.
func SocketFrame(index uint32, body []byte) []byte {
	return append(SocketHeader(len(body), index), body...)
}

// ParseSocketHeader returns the declared length, the index and whether the checksum is right.
func ParseSocketHeader(h []byte) (length int, index uint32, crcOK bool) {
	index = uint32(h[8])<<24 | uint32(h[9])<<16 | uint32(h[10])<<8 | uint32(h[11])
	length = int(h[4]&0x7f)<<24 | int(h[5])<<16 | int(h[6])<<8 | int(h[7])
	crc := uint32(h[0])<<24 | uint32(h[1])<<16 | uint32(h[2])<<8 | uint32(h[3])
	return length, index, crc == crc32.ChecksumIEEE(h[4:12])
}

// UDPHeader is the 8-byte header of the udp transport: CRC32 of bytes 4..7, 16-bit length, 16-bit index
// (top bit = error flag in responses).
func UDPHeader(length int, index uint16) []byte {
	h := make([]byte, 8)
	h[4] = byte(length >> 8)
	h[5] = byte(length)
	h[6] = byte(index >> 8)
	h[7] = byte(index)
	crc := crc32.ChecksumIEEE(h[4:])
	h[0] = byte(crc >> 24)
	h[1] = byte(crc >> 16)
	h[2] = byte(crc >> 8)
	h[3] = byte(crc)
	return h
}

func UDPFrame(index uint16, body []byte) []byte { return append(UDPHeader(len(body), index), body...) }

func ParseUDPHeader(h []byte) (length int, index uint16, crcOK bool) {
	index = uint16(h[6])<<8 | uint16(h[7])
	length = int(h[4])<<8 | int(h[5])
	crc := uint32(h[0])<<24 | uint32(h[1])<<16 | uint32(h[2])<<8 | uint32(h[3])
	return length, index, crc == crc32.ChecksumIEEE(h[4:8])
}

// WSFrame is the 4-byte index followed by the body (one binary WebSocket message).
func WSFrame(index uint32, body []byte) []byte {
	return append([]byte{byte(index >> 24), byte(index >> 16), byte(index >> 8), byte(index)}, body...)
}

// FlipCRC corrupts the checksum of a socket/udp frame.
func FlipCRC(frame []byte) []byte {
	out := append([]byte{}, frame...)
	out[0] ^= 0x5a
	return out
}

// ---- raw client: sends exactly the bytes a scenario prescribes to a library server ----

type RawConn interface {
	// Send transmits b: raw bytes on a stream, one datagram on udp, one binary message on websocket.
	Send(b []byte) error
	// SendText sends a text message (websocket only).
	SendText(b []byte) error
	// Recv returns the next chunk / datagram / message, or an error (io.EOF when the peer closed, a
	// timeout error when nothing arrived in time).
	Recv(timeout time.Duration) ([]byte, error)
	Close() error
}

type streamConn struct{ c net.Conn }

func (s streamConn) Send(b []byte) error     { _, err := s.c.Write(b); return err }
func (s streamConn) SendText(b []byte) error { return errors.New("not a websocket") }
func (s streamConn) Recv(timeout time.Duration) ([]byte, error) {
	s.c.SetReadDeadline(time.Now().Add(timeout))
	buf := make([]byte, 1<<16)
	n, err := s.c.Read(buf)
	return buf[:n], err
}
func (s streamConn) Close() error { return s.c.Close() }

type wsConn struct{ c *websocket.Conn }

func (w wsConn) Send(b []byte) error     { return w.c.WriteMessage(websocket.BinaryMessage, b) }
func (w wsConn) SendText(b []byte) error { return w.c.WriteMessage(websocket.TextMessage, b) }
func (w wsConn) Recv(timeout time.Duration) ([]byte, error) {
	w.c.SetReadDeadline(time.Now().Add(timeout))
	_, b, err := w.c.ReadMessage()
	return b, err
}
func (w wsConn) Close() error { return w.c.Close() }

// RawDial opens a raw connection to the server of tr in lab l. For the HTTP transports the connection is
// a plain TCP stream to the HTTP server.
func RawDial(l *Lab, tr string) (RawConn, error) {
	addr := l.Addr(tr)
	switch tr {
	case TCP, HTTP, FastHTTP, HTTPToFast, FastToHTTP:
		c, err := net.DialTimeout("tcp", addr, 5*time.Second)
		if err != nil {
			return nil, err
		}
		return streamConn{c}, nil
	case Unix:
		c, err := net.DialTimeout("unix", addr, 5*time.Second)
		if err != nil {
			return nil, err
		}
		return streamConn{c}, nil
	case UDP:
		c, err := net.DialTimeout("udp", addr, 5*time.Second)
		if err != nil {
			return nil, err
		}
		return streamConn{c}, nil
	case WS, WSFast:
		d := websocket.Dialer{HandshakeTimeout: 5 * time.Second}
		c, resp, err := d.Dial(l.URL(tr), http.Header{"Sec-WebSocket-Protocol": []string{"hprose"}})
		if resp != nil {
			resp.Body.Close()
		}
		if err != nil {
			return nil, err
		}
		return wsConn{c}, nil
	}
	return nil, fmt.Errorf("no raw client for %s", tr)
}

// ---- raw server: a scripted peer for the library's clients ----

// Reply is what the raw server sends instead of the healthy answer: each element of Frames is written
// as it is (raw bytes on a stream and on a hijacked HTTP connection, one datagram on udp, one binary —
// or, with Text, text — message on websocket); Close closes the connection afterwards.
type Reply struct {
	Frames [][]byte
	Text   bool
	Close  bool
}

// Hook decides per request: nil = answer healthily (the body is handed to Service.Handle and the answer
// framed like the library does).
type Hook func(index uint32, body []byte) *Reply

// RawServer is a scripted server speaking the framing of one transport.
type RawServer struct {
	URL  string
	stop []func()
}

func (r *RawServer) Close() {
	for i := len(r.stop) - 1; i >= 0; i-- {
		r.stop[i]()
	}
}

// StartRawServer starts a raw server for the client stack of tr.
func StartRawServer(tr string, svc *core.Service, hook Hook) (*RawServer, error) {
	rs := &RawServer{}
	handle := func(body []byte) []byte {
		resp, _ := svc.Handle(ServiceCtx(svc), body)
		return resp
	}
	switch tr {
	case TCP, Unix:
		var ln net.Listener
		var err error
		if tr == TCP {
			ln, err = net.Listen("tcp", "127.0.0.1:0")
			if err == nil {
				rs.URL = "tcp://" + ln.Addr().String()
			}
		} else {
			var dir string
			if dir, err = os.MkdirTemp("", "rpclabraw"); err == nil {
				rs.stop = append(rs.stop, func() { os.RemoveAll(dir) })
				path := filepath.Join(dir, "r.sock")
				ln, err = net.Listen("unix", path)
				rs.URL = "unix://" + path
			}
		}
		if err != nil {
			return nil, err
		}
		rs.stop = append(rs.stop, func() { ln.Close() })
		go func() {
			for {
				c, err := ln.Accept()
				if err != nil {
					return
				}
				go serveStream(c, hook, handle)
			}
		}()
	case UDP:
		pc, err := net.ListenUDP("udp", &net.UDPAddr{IP: net.IPv4(127, 0, 0, 1)})
		if err != nil {
			return nil, err
		}
		rs.URL = "udp://" + pc.LocalAddr().String()
		rs.stop = append(rs.stop, func() { pc.Close() })
		go func() {
			buf := make([]byte, 65536)
			for {
				n, addr, err := pc.ReadFromUDP(buf)
				if err != nil {
					return
				}
				if n < 8 {
					continue
				}
				_, index, _ := ParseUDPHeader(buf[:8])
				body := append([]byte{}, buf[8:n]...)
				go func() {
					if r := hook(uint32(index), body); r != nil {
						for _, f := range r.Frames {
							pc.WriteToUDP(f, addr)
						}
						return
					}
					pc.WriteToUDP(UDPFrame(index, handle(body)), addr)
				}()
			}
		}()
	case WS, HTTP, FastHTTP:
		ln, err := net.Listen("tcp", "127.0.0.1:0")
		if err != nil {
			return nil, err
		}
		if tr == WS {
			rs.URL = "ws://" + ln.Addr().String() + "/"
		} else {
			rs.URL = "http://" + ln.Addr().String() + "/"
		}
		server := &http.Server{Handler: http.HandlerFunc(func(w http.ResponseWriter, req *http.Request) {
			if websocket.IsWebSocketUpgrade(req) {
				up := websocket.Upgrader{Subprotocols: []string{"hprose"}, CheckOrigin: func(*http.Request) bool { return true }}
				c, err := up.Upgrade(w, req, nil)
				if err != nil {
					return
				}
				serveWS(c, hook, handle)
				return
			}
			body, _ := io.ReadAll(req.Body)
			if r := hook(0, body); r != nil {
				hj, ok := w.(http.Hijacker)
				if !ok {
					return
				}
				c, _, err := hj.Hijack()
				if err != nil {
					return
				}
				for _, f := range r.Frames {
					c.Write(f)
				}
				c.Close()
				return
			}
			resp := handle(body)
			w.Header().Set("Content-Length", fmt.Sprint(len(resp)))
			w.Write(resp)
		})}
		go server.Serve(ln)
		rs.stop = append(rs.stop, func() { server.Close() })
	default:
		return nil, fmt.Errorf("no raw server for %s", tr)
	}
	return rs, nil
}

func serveStream(c net.Conn, hook Hook, handle func([]byte) []byte) {
	defer c.Close()
	var wmu sync.Mutex
	rd := bufio.NewReader(c)
	for {
		h := make([]byte, 12)
		if _, err := io.ReadFull(rd, h); err != nil {
			return
		}
		length, index, ok := ParseSocketHeader(h)
		if !ok {
			return
		}
		body := make([]byte, length)
		if _, err := io.ReadFull(rd, body); err != nil {
			return
		}
		go func() {
			if r := hook(index, body); r != nil {
				wmu.Lock()
				for _, f := range r.Frames {
					c.Write(f)
				}
				wmu.Unlock()
				if r.Close {
					c.Close()
				}
				return
			}
			resp := handle(body)
			wmu.Lock()
			c.Write(SocketFrame(index, resp))
			wmu.Unlock()
		}()
	}
}

func serveWS(c *websocket.Conn, hook Hook, handle func([]byte) []byte) {
	defer c.Close()
	var wmu sync.Mutex
	for {
		mt, data, err := c.ReadMessage()
		if err != nil {
			return
		}
		if mt != websocket.BinaryMessage || len(data) < 4 {
			continue
		}
		index := uint32(data[0])<<24 | uint32(data[1])<<16 | uint32(data[2])<<8 | uint32(data[3])
		body := append([]byte{}, data[4:]...)
		go func() {
			if r := hook(index, body); r != nil {
				wmu.Lock()
				for _, f := range r.Frames {
					if r.Text {
						c.WriteMessage(websocket.TextMessage, f)
					} else {
						c.WriteMessage(websocket.BinaryMessage, f)
					}
				}
				wmu.Unlock()
				if r.Close {
					c.Close()
				}
				return
			}
			resp := handle(body)
			wmu.Lock()
			c.WriteMessage(websocket.BinaryMessage, WSFrame(index, resp))
			wmu.Unlock()
		}()
	}
}

// HTTPResponse renders a raw HTTP/1.1 response with a freely chosen Content-Length.
func HTTPResponse(status int, declaredLength int, body []byte) []byte {
	head := fmt.Sprintf("HTTP/1.1 %d %s\r\nContent-Type: text/plain\r\nContent-Length: %d\r\nConnection: close\r\n\r\n", status, http.StatusText(status), declaredLength)
	return append([]byte(head), body...)
}

// Call is a small convenience: one call with its own timeout and return type interface{}; a panic in the
// client entry point is returned instead of propagating.
func Call(c *core.Client, timeout time.Duration, name string, args ...interface{}) (res []interface{}, err error, panicked interface{}) {
	defer func() {
		if p := recover(); p != nil {
			panicked = p
		}
	}()
	cc := core.NewClientContext()
	cc.Timeout = timeout
	res, err = c.InvokeContext(core.WithContext(context.Background(), cc), name, args)
	return
}

// Request sends raw request bytes through the client's IO plugins and transport.
func Request(c *core.Client, timeout time.Duration, body []byte) (resp []byte, err error, panicked interface{}) {
	defer func() {
		if p := recover(); p != nil {
			panicked = p
		}
	}()
	cc := core.NewClientContext()
	cc.Timeout = timeout
	cc.Init(c)
	resp, err = c.Request(core.WithContext(context.Background(), cc), body)
	return
}
