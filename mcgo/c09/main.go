// C09 — concurrent calls each get their own response. Schedule exploration of the real socket and udp
// client transports multiplexing several callers on one connection against a scripted peer that answers
// in every order, with stray and duplicated response identifiers and (udp) identifier wrap-around; and
// of the real socket server handler demultiplexing several requests of one connection.
package main

import (
	"context"
	"fmt"
	"reflect"
	"strings"
	"time"

	"github.com/hprose/hprose-golang/v3/rpc/core"
	"github.com/hprose/hprose-golang/v3/rpc/plugins/reverse"
	"github.com/hprose/hprose-golang/v3/rpc/socket"
	"github.com/hprose/hprose-golang/v3/rpc/udp"
	"github.com/hprose/hprose-golang/v3/rpc/websocket"
	"verif/fakews"
	"verif/mcgo/h"
	"verif/mcgo/sockfake"
	"verif/vs"
)

const ID = "C09"

func only(tr string) {
	core.VerifResetTransports()
	switch tr {
	case "socket":
		socket.RegisterTransport()
	case "udp":
		udp.RegisterTransport()
	case "websocket":
		websocket.RegisterTransport()
	}
}

// websocket framing: one binary message = 4-byte big-endian index (high bit = error) + body
func wsFrame(index int, body []byte) []byte {
	return append([]byte{byte(index >> 24), byte(index >> 16), byte(index >> 8), byte(index)}, body...)
}
func wsParse(d []byte) (int, []byte) {
	return int(d[0])<<24 | int(d[1])<<16 | int(d[2])<<8 | int(d[3]), d[4:]
}

func wsClient(callers int, strays bool, quick, thorough int) h.Scenario {
	name := fmt.Sprintf("websocket-client/callers=%d/strays=%v", callers, strays)
	return h.Scenario{Name: name, Quick: quick, Thorough: thorough, Run: func(ch vs.Chooser, trace bool) (*vs.Sched, h.Outcome) {
		got := make([]string, callers)
		errs := make([]error, callers)
		only("websocket")
		fakews.Dial = func(url string) (*fakews.Conn, error) {
			var hold []held
			flushArmed := false
			c := &fakews.Conn{Name: "wsconn"}
			c.React = func(c *fakews.Conn, m fakews.Message) []fakews.Message {
				idx, body := wsParse(m.Data)
				if vs.Choose(2, "peer-answers-now-or-later") == 0 {
					return []fakews.Message{{Type: fakews.BinaryMessage, Data: wsFrame(idx, sockfake.Reply(body))}}
				}
				hold = append(hold, held{idx, append([]byte{}, body...)})
				if !flushArmed {
					flushArmed = true
					vs.AddTimer(1000, "peer-answers-held-requests", func() {
						if strays {
							c.Deliver(fakews.Message{Type: fakews.BinaryMessage, Data: wsFrame(0x7ffffff0, []byte("re:payload-of-caller-stray"))})
							c.Deliver(fakews.Message{Type: fakews.TextMessage, Data: []byte("ignored text message")})
						}
						ord := order(len(hold))
						for _, k := range ord {
							c.Deliver(fakews.Message{Type: fakews.BinaryMessage, Data: wsFrame(hold[k].index, sockfake.Reply(hold[k].body))})
						}
						if strays {
							c.Deliver(fakews.Message{Type: fakews.BinaryMessage, Data: wsFrame(hold[ord[0]].index, []byte("re:payload-of-caller-duplicate"))})
						}
						hold = nil
						flushArmed = false
					})
				}
				return nil
			}
			return c, nil
		}
		s := vs.Run(ch, vs.Config{Trace: trace}, func() {
			client := core.NewClient("ws://peer/")
			for i := 0; i < callers; i++ {
				i := i
				vs.GoFG(fmt.Sprintf("caller%d", i), func() {
					got[i], errs[i] = call(client, fmt.Sprintf("payload-of-caller-%d", i))
				})
			}
		})
		return s, judgeCallers(name, s, got, errs)
	}}
}

func wsServer(nreq int, quick, thorough int) h.Scenario {
	name := fmt.Sprintf("websocket-server/requests=%d", nreq)
	return h.Scenario{Name: name, Quick: quick, Thorough: thorough, Run: func(ch vs.Chooser, trace bool) (*vs.Sched, h.Outcome) {
		conn := &fakews.Conn{Name: "wssconn"}
		s := vs.Run(ch, vs.Config{Trace: trace}, func() {
			service := core.NewService()
			service.Use(func(ctx context.Context, request []byte, next core.NextIOHandler) ([]byte, error) {
				vs.Point("service-working")
				return append([]byte("re:"), request...), nil
			})
			hd := &websocket.Handler{}
			hd.Service = service
			for i := 0; i < nreq; i++ {
				conn.Deliver(fakews.Message{Type: fakews.BinaryMessage, Data: wsFrame(100+i, []byte(fmt.Sprintf("request-%d", i)))})
			}
			vs.AddTimer(1000, "client-closes", func() { conn.PeerClose(nil) })
			hd.Serve(context.Background(), conn)
		})
		var o h.Outcome
		var seen []string
		answered := map[int]int{}
		for _, m := range conn.Sent {
			if len(m.Data) < 4 {
				o.Viol = append(o.Viol, h.V{Sig: "ws-server|short-response-message", What: fmt.Sprintf("%s: %q", name, m.Data)})
				continue
			}
			idx, body := wsParse(m.Data)
			seen = append(seen, fmt.Sprintf("%d:%s", idx, body))
			answered[idx]++
			if want := fmt.Sprintf("re:request-%d", idx-100); string(body) != want {
				o.Viol = append(o.Viol, h.V{Sig: "ws-server|response-under-wrong-identifier", What: fmt.Sprintf("%s: identifier %d carries %q, want %q", name, idx, body, want)})
			}
		}
		o.Key = strings.Join(seen, " ")
		if len(s.Hangs) == 0 && !s.Pruned && s.Aborted == "" {
			for i := 0; i < nreq; i++ {
				if answered[100+i] != 1 {
					o.Viol = append(o.Viol, h.V{Sig: "ws-server|request-not-answered-exactly-once", What: fmt.Sprintf("%s: request %d answered %d times (responses %v)", name, 100+i, answered[100+i], seen)})
				}
			}
		}
		return s, o
	}}
}

type held struct {
	index int
	body  []byte
}

// order lets the explorer pick a permutation of n items
func order(n int) []int {
	rest := make([]int, n)
	for i := range rest {
		rest[i] = i
	}
	var out []int
	for len(rest) > 1 {
		i := vs.Choose(len(rest), "peer-order")
		out = append(out, rest[i])
		rest = append(append([]int{}, rest[:i]...), rest[i+1:]...)
	}
	return append(out, rest...)
}

func call(client *core.Client, payload string) (string, error) {
	cc := core.NewClientContext()
	cc.Init(client)
	cc.Timeout = -1
	r, err := client.Request(core.WithContext(context.Background(), cc), []byte(payload))
	return string(r), err
}

func judgeCallers(name string, s *vs.Sched, got []string, errs []error) h.Outcome {
	var o h.Outcome
	o.Key = strings.Join(got, ",")
	if len(s.Hangs) > 0 || s.Pruned || s.Aborted != "" {
		return o
	}
	for i := range got {
		want := fmt.Sprintf("re:payload-of-caller-%d", i)
		if errs[i] != nil {
			o.Viol = append(o.Viol, h.V{Sig: "caller-got-error", What: fmt.Sprintf("%s: caller %d got error %v although the peer answered every request", name, i, errs[i])})
		} else if got[i] != want {
			sig := "caller-got-wrong-response"
			if strings.HasPrefix(got[i], "re:payload-of-caller-") {
				sig = "caller-got-another-callers-response"
			}
			o.Viol = append(o.Viol, h.V{Sig: sig, What: fmt.Sprintf("%s: caller %d received %q, its own response is %q", name, i, got[i], want)})
		}
	}
	return o
}

// ---- socket client ----

func socketClient(callers int, strays bool, quick, thorough int) h.Scenario {
	name := fmt.Sprintf("socket-client/callers=%d/strays=%v", callers, strays)
	return h.Scenario{Name: name, Quick: quick, Thorough: thorough, Run: func(ch vs.Chooser, trace bool) (*vs.Sched, h.Outcome) {
		got := make([]string, callers)
		errs := make([]error, callers)
		only("socket")
		s := vs.Run(ch, vs.Config{Trace: trace, Dial: func(network, addr string) (vs.Conn, error) {
			var hold []held
			flushArmed := false
			c := &vs.ScriptConn{Name: "conn"}
			flush := func() {
				// everybody is blocked: answer what is still held, in an order the explorer picks, with a stray
				// identifier before and a duplicate after
				var out []byte
				if strays {
					out = append(out, sockfake.Frame(0x7ffffff0, []byte("re:payload-of-caller-stray"))...)
				}
				ord := order(len(hold))
				for _, k := range ord {
					out = append(out, sockfake.Frame(hold[k].index, sockfake.Reply(hold[k].body))...)
				}
				if strays && len(hold) > 0 {
					out = append(out, sockfake.Frame(hold[ord[0]].index, []byte("re:payload-of-caller-duplicate"))...)
				}
				hold = nil
				flushArmed = false
				c.Deliver(out)
			}
			c.React = func(c *vs.ScriptConn, in []byte) (int, []byte, bool) {
				n, idx, body := sockfake.ParseFrame(in)
				if n == 0 {
					return 0, nil, false
				}
				if vs.Choose(2, "peer-answers-now-or-later") == 0 {
					return n, sockfake.Frame(idx, sockfake.Reply(body)), false
				}
				hold = append(hold, held{idx, append([]byte{}, body...)})
				if !flushArmed {
					flushArmed = true
					vs.AddTimer(1000, "peer-answers-held-requests", flush)
				}
				return n, nil, false
			}
			return c, nil
		}}, func() {
			client := core.NewClient("tcp://peer/")
			for i := 0; i < callers; i++ {
				i := i
				vs.GoFG(fmt.Sprintf("caller%d", i), func() {
					got[i], errs[i] = call(client, fmt.Sprintf("payload-of-caller-%d", i))
				})
			}
		})
		return s, judgeCallers(name, s, got, errs)
	}}
}

// ---- udp client, request counter close to its 15-bit wrap-around ----

func udpClient(callers int, wrap bool, quick, thorough int) h.Scenario {
	name := fmt.Sprintf("udp-client/callers=%d/wrap=%v", callers, wrap)
	return h.Scenario{Name: name, Quick: quick, Thorough: thorough, Run: func(ch vs.Chooser, trace bool) (*vs.Sched, h.Outcome) {
		got := make([]string, callers)
		errs := make([]error, callers)
		only("udp")
		var indices []int
		s := vs.Run(ch, vs.Config{Trace: trace, Dial: func(network, addr string) (vs.Conn, error) {
			var hold []held
			flushArmed := false
			c := &vs.DgramConn{Name: "uconn"}
			c.React = func(c *vs.DgramConn, d []byte) [][]byte {
				idx, body, ok := sockfake.UParse(d)
				if !ok {
					return nil
				}
				indices = append(indices, idx)
				if string(body) == "warm-up" || vs.Choose(2, "peer-answers-now-or-later") == 0 {
					return [][]byte{sockfake.UFrame(idx, sockfake.Reply(body))}
				}
				hold = append(hold, held{idx, append([]byte{}, body...)})
				if !flushArmed {
					flushArmed = true
					vs.AddTimer(1000, "peer-answers-held-requests", func() {
						c.Deliver(sockfake.UFrame(0x7ff0, []byte("re:payload-of-caller-stray")))
						ord := order(len(hold))
						for _, k := range ord {
							c.Deliver(sockfake.UFrame(hold[k].index, sockfake.Reply(hold[k].body)))
						}
						c.Deliver(sockfake.UFrame(hold[ord[0]].index, []byte("re:payload-of-caller-duplicate")))
						hold = nil
						flushArmed = false
					})
				}
				return nil
			}
			return c, nil
		}}, func() {
			client := core.NewClient("udp://peer/")
			if wrap {
				call(client, "warm-up") // creates the pooled connection
				client.GetTransport("udp").(*udp.Transport).VerifSetCounter(0x7ffe)
			}
			for i := 0; i < callers; i++ {
				i := i
				vs.GoFG(fmt.Sprintf("caller%d", i), func() {
					got[i], errs[i] = call(client, fmt.Sprintf("payload-of-caller-%d", i))
				})
			}
		})
		o := judgeCallers(name, s, got, errs)
		seen := map[int]bool{}
		for _, x := range indices[min(len(indices), 1):] {
			if seen[x] && len(s.Hangs) == 0 && !s.Pruned {
				o.Viol = append(o.Viol, h.V{Sig: "udp|identifier-reused-while-pending", What: fmt.Sprintf("%s: request identifiers on the wire %v", name, indices)})
			}
			seen[x] = true
		}
		return s, o
	}}
}

// ---- udp client: the peer answers one call with an error datagram (its identifier with the error flag) ----

// Caller 0's request is refused by the peer with an error datagram; caller 1's is answered, now or later.
// The error concerns caller 0 only: caller 1 gets its own response.
func udpClientErrorDatagram(quick, thorough int) h.Scenario {
	name := "udp-client/error-datagram-for-one-of-two-calls"
	return h.Scenario{Name: name, Quick: quick, Thorough: thorough, Run: func(ch vs.Chooser, trace bool) (*vs.Sched, h.Outcome) {
		got := make([]string, 2)
		errs := make([]error, 2)
		only("udp")
		s := vs.Run(ch, vs.Config{Trace: trace, Dial: func(network, addr string) (vs.Conn, error) {
			var hold []held
			c := &vs.DgramConn{Name: "uconn"}
			c.React = func(c *vs.DgramConn, d []byte) [][]byte {
				idx, body, ok := sockfake.UParse(d)
				if !ok {
					return nil
				}
				if string(body) == "payload-of-caller-0" {
					return [][]byte{sockfake.UFrame(idx|0x8000, []byte("the peer refuses this call"))}
				}
				if vs.Choose(2, "peer-answers-now-or-later") == 0 {
					return [][]byte{sockfake.UFrame(idx, sockfake.Reply(body))}
				}
				hold = append(hold, held{idx, append([]byte{}, body...)})
				vs.AddTimer(1000, "peer-answers-held-request", func() {
					for _, hd := range hold {
						c.Deliver(sockfake.UFrame(hd.index, sockfake.Reply(hd.body)))
					}
					hold = nil
				})
				return nil
			}
			return c, nil
		}}, func() {
			client := core.NewClient("udp://peer/")
			for i := 0; i < 2; i++ {
				i := i
				vs.GoFG(fmt.Sprintf("caller%d", i), func() {
					got[i], errs[i] = call(client, fmt.Sprintf("payload-of-caller-%d", i))
				})
			}
		})
		var o h.Outcome
		o.Key = fmt.Sprint(got, errs[0] != nil, errs[1] != nil)
		if len(s.Hangs) > 0 || s.Pruned || s.Aborted != "" {
			return s, o
		}
		if errs[0] == nil {
			o.Viol = append(o.Viol, h.V{Sig: "udp|refused-call-got-a-response", What: fmt.Sprintf("%s: caller 0 got %q although the peer refused its call", name, got[0])})
		}
		if errs[1] != nil || got[1] != "re:payload-of-caller-1" {
			o.Viol = append(o.Viol, h.V{Sig: "udp|error-datagram-for-one-call-fails-another", What: fmt.Sprintf("%s: caller 1 got %q, %v; the peer answered its request, the error datagram named caller 0's", name, got[1], errs[1])})
		}
		return s, o
	}}
}

// ---- udp client: a call that stays pending while the 15-bit identifier space goes once round ----

// The 32767 calls in between are not run: once the first request is on the wire the request counter is set back,
// so that the next call is handed the identifier the pending call is using (which is what a full lap of completed
// calls leads to). The peer holds both requests and answers them in an order the explorer picks.
func udpClientLap(quick, thorough int) h.Scenario {
	name := "udp-client/pending-call-meets-its-identifier-again"
	return h.Scenario{Name: name, Quick: quick, Thorough: thorough, Run: func(ch vs.Chooser, trace bool) (*vs.Sched, h.Outcome) {
		got := make([]string, 2)
		errs := make([]error, 2)
		only("udp")
		var indices []int
		s := vs.Run(ch, vs.Config{Trace: trace, Dial: func(network, addr string) (vs.Conn, error) {
			var hold []held
			c := &vs.DgramConn{Name: "uconn"}
			c.React = func(c *vs.DgramConn, d []byte) [][]byte {
				idx, body, ok := sockfake.UParse(d)
				if !ok {
					return nil
				}
				if string(body) == "warm-up" {
					return [][]byte{sockfake.UFrame(idx, sockfake.Reply(body))}
				}
				indices = append(indices, idx)
				hold = append(hold, held{idx, append([]byte{}, body...)})
				if len(hold) == 1 {
					vs.AddTimer(1000, "peer-answers-held-requests", func() {
						for _, k := range order(len(hold)) {
							c.Deliver(sockfake.UFrame(hold[k].index, sockfake.Reply(hold[k].body)))
						}
						hold = nil
					})
				}
				return nil
			}
			return c, nil
		}}, func() {
			client := core.NewClient("udp://peer/")
			call(client, "warm-up") // creates the pooled connection
			tr := client.GetTransport("udp").(*udp.Transport)
			tr.VerifSetCounter(0x1000)
			vs.GoFG("caller0", func() { got[0], errs[0] = call(client, "payload-of-caller-0") })
			for len(indices) == 0 {
				vs.Gosched() // until the first request is on the wire
			}
			tr.VerifSetCounter(0x1000) // ... 32767 calls later
			vs.GoFG("caller1", func() { got[1], errs[1] = call(client, "payload-of-caller-1") })
		})
		o := judgeCallers(name, s, got, errs)
		if len(indices) == 2 && indices[0] == indices[1] && len(s.Hangs) == 0 && !s.Pruned {
			o.Viol = append(o.Viol, h.V{Sig: "udp|identifier-reused-while-pending", What: fmt.Sprintf("%s: both requests travel under identifier %#x while the first is still pending", name, indices[0])})
		}
		return s, o
	}}
}

// ---- socket server handler: several requests of one connection, completion order is the scheduler's ----

// With alias the service answers with the request slice itself (an IO-level pass-through): the response then
// shares memory with whatever buffer the handler read the request into, and a handler that recycles that buffer
// before the response has been written lets the next frame overwrite it.
func socketServer(nreq int, pool bool, quick, thorough int, alias ...bool) h.Scenario {
	identity := len(alias) > 0 && alias[0]
	name := fmt.Sprintf("socket-server/requests=%d/pool=%v", nreq, pool)
	if identity {
		name += "/response-is-the-request-slice"
	}
	return h.Scenario{Name: name, Quick: quick, Thorough: thorough, Run: func(ch vs.Chooser, trace bool) (*vs.Sched, h.Outcome) {
		conn := &vs.ScriptConn{Name: "sconn"}
		s := vs.Run(ch, vs.Config{Trace: trace}, func() {
			service := core.NewService()
			service.Use(func(ctx context.Context, request []byte, next core.NextIOHandler) ([]byte, error) {
				vs.Point("service-working")
				if identity {
					return request, nil
				}
				return append([]byte("re:"), request...), nil
			})
			hd := &socket.Handler{Service: service}
			if pool {
				hd.Pool = inlinePool{}
			}
			var in []byte
			for i := 0; i < nreq; i++ {
				in = append(in, sockfake.Frame(100+i, []byte(fmt.Sprintf("request-%d", i)))...)
			}
			conn.Deliver(in)
			// once every thread is blocked (all responses written, the receiver waiting for more input) the
			// client closes the connection
			vs.AddTimer(1000, "client-closes", func() { conn.PeerClose(nil) })
			hd.Serve(context.Background(), conn)
		})
		var o h.Outcome
		out := conn.Unconsumed()
		var seen []string
		answered := map[int]int{}
		for len(out) > 0 {
			n, idx, body := sockfake.ParseFrame(out)
			if n == 0 {
				o.Viol = append(o.Viol, h.V{Sig: "server|torn-response-frame", What: fmt.Sprintf("%s: the bytes written to the connection do not parse as frames: %q", name, out)})
				break
			}
			out = out[n:]
			seen = append(seen, fmt.Sprintf("%d:%s", idx, body))
			answered[idx]++
			want := fmt.Sprintf("re:request-%d", idx-100)
			if identity {
				want = want[3:]
			}
			if string(body) != want {
				o.Viol = append(o.Viol, h.V{Sig: "server|response-under-wrong-identifier", What: fmt.Sprintf("%s: identifier %d carries %q, want %q", name, idx, body, want)})
			}
		}
		o.Key = strings.Join(seen, " ")
		if len(s.Hangs) == 0 && !s.Pruned && s.Aborted == "" {
			for i := 0; i < nreq; i++ {
				if answered[100+i] != 1 {
					o.Viol = append(o.Viol, h.V{Sig: "server|request-not-answered-exactly-once", What: fmt.Sprintf("%s: request %d answered %d times (responses %v)", name, 100+i, answered[100+i], seen)})
				}
			}
		}
		return s, o
	}}
}

type inlinePool struct{}

func (inlinePool) Submit(task func()) { vs.Go(task) }

func main() {
	scen := []h.Scenario{
		socketClient(2, false, 2, 3), socketClient(2, true, 2, 3), socketClient(3, true, 1, 2),
		udpClient(2, false, 2, 3), udpClient(2, true, 2, 3), udpClient(3, true, 1, 2),
		udpClientLap(2, 3), udpClientErrorDatagram(2, 3),
		socketServer(2, false, 2, 3), socketServer(3, false, 1, 2), socketServer(2, true, 2, 3),
		socketServer(2, false, 2, 3, true), socketServer(3, false, 1, 2, true), socketServer(2, true, 2, 3, true),
		reverseScenario(2, 0, 2, 3), reverseScenario(2, time.Second, 2, 3),
		wsClient(2, true, 2, 3), wsClient(3, true, 1, 2), wsServer(2, 2, 3), wsServer(3, 1, 2),
	}
	h.Main(ID, scen, nil)
}

// ---- reverse calls: service -> provider, matched by index (rpc/plugins/reverse) ----

func reverseScenario(callers int, idle time.Duration, quick, thorough int) h.Scenario {
	name := fmt.Sprintf("reverse-caller/callers=%d/idle-timeout=%v", callers, idle)
	return h.Scenario{Name: name, Quick: quick, Thorough: thorough, AllowHang: true, Run: func(ch vs.Chooser, trace bool) (*vs.Sched, h.Outcome) {
		got := make([]string, callers)
		errs := make([]error, callers)
		done := make([]bool, callers)
		var delivered []string
		cfg := vs.Config{Trace: trace}
		if idle > 0 {
			cfg.EagerHorizon = idle // the provider's idle time-out may strike at any scheduling point
		}
		s := vs.Run(ch, cfg, func() {
			service := core.NewService()
			caller := reverse.NewCaller(service)
			caller.Timeout = 0 // a reverse call without time-out: only the provider's answer ends it
			caller.HeartBeat = 0
			caller.IdleTimeout = idle
			pctx := func() context.Context {
				sc := core.NewServiceContext(service)
				sc.RequestHeaders().Set("id", "prov")
				return core.WithContext(context.Background(), sc)
			}
			begin, end := service.Get("!").Func(), service.Get("=").Func()
			rvSlice := end.Type().In(1)
			var callersDone vs.WaitGroup
			for i := 0; i < callers; i++ {
				i := i
				callersDone.Add(1)
				vs.GoFG(fmt.Sprintf("caller%d", i), func() {
					defer callersDone.Done()
					r, err := caller.Invoke("prov", "echo", []interface{}{fmt.Sprintf("arg-of-caller-%d", i)}, reflect.TypeOf(""))
					errs[i] = err
					if len(r) > 0 {
						got[i] = fmt.Sprint(r[0])
					}
					done[i] = true
				})
			}
			vs.Go(func() { // the provider: poll, answer (in an order the explorer picks), poll again
				answered := 0
				for poll := 0; poll < 2*callers+2 && answered < callers; poll++ {
					out := begin.Call([]reflect.Value{reflect.ValueOf(pctx())})[0]
					n := out.Len()
					if n == 0 {
						continue
					}
					results := reflect.MakeSlice(rvSlice, 0, n)
					for _, k := range order(n) {
						c := out.Index(k)
						idx := c.Index(0).Elem().Interface().(int)
						args := c.Index(2).Elem().Interface().([]interface{})
						delivered = append(delivered, fmt.Sprint(args[0]))
						rv := reflect.New(rvSlice.Elem()).Elem()
						rv.Index(0).Set(reflect.ValueOf(idx))
						rv.Index(1).Set(reflect.ValueOf("re:" + fmt.Sprint(args[0])))
						rv.Index(2).Set(reflect.ValueOf(""))
						results = reflect.Append(results, rv)
					}
					end.Call([]reflect.Value{reflect.ValueOf(pctx()), results})
					answered += n
				}
			})
			callersDone.Wait()
		})
		var o h.Outcome
		o.Key = strings.Join(got, ",")
		if s.Pruned || s.Aborted != "" {
			return s, o
		}
		for i := range got {
			want := fmt.Sprintf("re:arg-of-caller-%d", i)
			switch {
			case !done[i]:
				o.Key += " HANG"
				o.Viol = append(o.Viol, h.V{Sig: "reverse|call-never-returns", What: fmt.Sprintf("%s: reverse call %d never returns although the provider keeps polling (calls handed to the provider: %v; blocked: %s)", name, i, delivered, strings.Join(append(s.Hangs, s.Leaked...), "; "))})
			case errs[i] != nil:
				o.Viol = append(o.Viol, h.V{Sig: "reverse|call-got-error", What: fmt.Sprintf("%s: reverse call %d: %v", name, i, errs[i])})
			case got[i] != want:
				o.Viol = append(o.Viol, h.V{Sig: "reverse|call-got-another-calls-result", What: fmt.Sprintf("%s: reverse call %d received %q, its own result is %q", name, i, got[i], want)})
			}
		}
		seen := map[string]int{}
		for _, d := range delivered {
			seen[d]++
			if seen[d] > 1 {
				o.Viol = append(o.Viol, h.V{Sig: "reverse|call-delivered-twice", What: fmt.Sprintf("%s: %q handed to the provider %d times", name, d, seen[d])})
			}
		}
		return s, o
	}}
}
