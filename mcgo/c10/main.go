// C10 — every call terminates. Schedule exploration of the real socket and udp client transports and of
// the mock transport (rewritten copy) against fault-scripted peers, with Abort and context cancellation
// racing, under the virtual clock: a call whose connection is lost must end without its own time-out
// timer having fired, and the client must stay usable.
package main

import (
	"context"
	"errors"
	"fmt"
	"os"
	"strings"
	"time"

	"github.com/hprose/hprose-golang/v3/rpc/core"
	"github.com/hprose/hprose-golang/v3/rpc/mock"
	"github.com/hprose/hprose-golang/v3/rpc/socket"
	"github.com/hprose/hprose-golang/v3/rpc/udp"
	"github.com/hprose/hprose-golang/v3/rpc/websocket"
	"verif/fakews"
	"verif/mcgo/h"
	"verif/mcgo/sockfake"
	"verif/vs"
)

const ID = "C10"

const callTimeout = 30 * time.Second

type callRes struct {
	done    bool
	resp    string
	err     error
	elapsed time.Duration
}

// followUps makes up to three further calls. A call issued while the client has not yet noticed that the
// connection died may itself fail (it is then the call that experiences the loss); after that the
// client must be usable again. It returns the first successful (or the last) result and the number of failures.
func followUps(client *core.Client) (callRes, int) {
	var r callRes
	fails := 0
	for k := 0; k < 3; k++ {
		r = doCall(client, context.Background(), "follow", callTimeout)
		if r.err == nil {
			break
		}
		fails++
	}
	return r, fails
}

func doCall(client *core.Client, ctx context.Context, payload string, timeout time.Duration) callRes {
	cc := core.NewClientContext()
	cc.Init(client)
	cc.Timeout = timeout // -1: no time-out at all
	start := vs.Elapsed()
	r, err := client.Request(core.WithContext(ctx, cc), []byte(payload))
	return callRes{true, string(r), err, vs.Elapsed() - start}
}

func errClass(err error) string {
	switch {
	case err == nil:
		return "ok"
	case errors.Is(err, context.DeadlineExceeded) || core.IsTimeoutError(err):
		return "timeout"
	case errors.Is(err, context.Canceled):
		return "canceled"
	}
	return "error"
}

type scen struct {
	fault    sockfake.Fault
	callers  int
	timeout  time.Duration // -1 none
	abort    bool
	cancel   bool
	quick    int
	thorough int
}

func (sc scen) name(tr string) string {
	to := "none"
	if sc.timeout > 0 {
		to = sc.timeout.String()
	}
	n := fmt.Sprintf("%s/%s+%s/callers=%d/timeout=%s", tr, sc.fault.Pos, sc.fault.Act, sc.callers, to)
	if sc.abort {
		n += "/abort"
	}
	if sc.cancel {
		n += "/cancel"
	}
	return n
}

// connLost reports whether the scripted fault ends the connection (so pending calls must fail promptly).
func connLost(f sockfake.Fault) bool {
	switch f.Act {
	case "close", "reset", "bad-checksum", "garbage", "close-message", "short-message":
		return true // a frame that fails its checksum makes the client drop the connection
	}
	return false // silent / oversized-length: the connection stays open and nothing more arrives
}

func socketScenario(sc scen) h.Scenario {
	name := sc.name("socket")
	var maxExecs int64
	if sc.callers >= 2 && !sc.abort {
		maxExecs = 450000 // bound 1 of the two-caller scenarios must complete in the quick tier (the register-after-close hang needs it)
		if os.Getenv("VERIF_TIER") == "thorough" {
			maxExecs = 0
		}
	}
	return h.Scenario{Name: name, Quick: sc.quick, Thorough: sc.thorough, AllowHang: true, MaxExecs: maxExecs, Run: func(ch vs.Chooser, trace bool) (*vs.Sched, h.Outcome) {
		res := make([]callRes, sc.callers)
		var follow callRes
		followFails := 0
		dials := 0
		var conns []*vs.ScriptConn
		var pendingConns, pendingCalls int
		var leakedBefore int
		abortArmed := false
		only("socket")
		s := vs.Run(ch, vs.Config{Trace: trace, Dial: func(network, addr string) (vs.Conn, error) {
			dials++
			var c *vs.ScriptConn
			if dials == 1 {
				c = sockfake.Faulty("conn1", sc.fault)
			} else {
				c = sockfake.Echo(fmt.Sprintf("conn%d", dials))
			}
			conns = append(conns, c)
			return c, nil
		}}, func() {
			client := core.NewClient("tcp://peer/")
			ctx, cancel := vs.WithCancel(context.Background())
			var wg vs.WaitGroup
			for i := 0; i < sc.callers; i++ {
				i := i
				wg.Add(1)
				vs.GoFG(fmt.Sprintf("caller%d", i), func() {
					defer wg.Done()
					res[i] = doCall(client, ctx, fmt.Sprintf("req%d", i), sc.timeout)
				})
			}
			if sc.abort {
				wg.Add(1)
				vs.GoFG("aborter", func() {
					defer wg.Done()
					// Abort only concerns calls that are pending when it starts: the call certainly is once its
					// request has been written to the connection
					abortArmed = len(conns) > 0 && conns[0].Writes >= 2*sc.callers
					client.Abort()
				})
			}
			if sc.cancel {
				wg.Add(1)
				vs.GoFG("canceller", func() { defer wg.Done(); cancel() })
			}
			wg.Wait()
			_, leakedBefore = vs.NumThreads()
			// the client must stay usable: the next call gets a healthy peer on a new connection
			follow, followFails = followUps(client)
			pendingConns, pendingCalls = client.GetTransport("socket").(*socket.Transport).VerifPending()
			_ = cancel
		})
		sc2 := sc
		sc2.abort = sc.abort && abortArmed
		o := judge(name, sc2, s, res, follow, followFails, pendingConns, pendingCalls, leakedBefore, len(conns))
		if sc.abort {
			o.Key += fmt.Sprint(" abort-after-request-written=", abortArmed)
		}
		return s, o
	}}
}

// slowDial: the first call's dial takes two minutes (a peer that does not answer the SYN); a second call with a
// 30 s time-out is issued meanwhile. Its time-out is its own: it must end no later than 30 s after it began,
// whatever the first call's dial does.
func slowDialScenario(tr string) h.Scenario {
	name := tr + "/slow-dial/second-caller-with-timeout"
	return h.Scenario{Name: name, Quick: 1, Thorough: 2, AllowHang: true, Run: func(ch vs.Chooser, trace bool) (*vs.Sched, h.Outcome) {
		var res [2]callRes
		only(tr)
		dials := 0
		s := vs.Run(ch, vs.Config{Trace: trace, Dial: func(network, addr string) (vs.Conn, error) {
			dials++
			if dials == 1 {
				vs.Sleep(2 * time.Minute)
			}
			if tr == "udp" {
				return sockfake.UEcho(fmt.Sprintf("uconn%d", dials)), nil
			}
			return sockfake.Echo(fmt.Sprintf("conn%d", dials)), nil
		}}, func() {
			scheme := map[string]string{"socket": "tcp", "udp": "udp"}[tr]
			client := core.NewClient(scheme + "://peer/")
			var wg vs.WaitGroup
			wg.Add(2)
			vs.GoFG("caller0", func() { defer wg.Done(); res[0] = doCall(client, context.Background(), "req0", -1) })
			vs.GoFG("caller1", func() {
				defer wg.Done()
				vs.Sleep(time.Second) // the first call is in its dial
				res[1] = doCall(client, context.Background(), "req1", callTimeout)
			})
			wg.Wait()
		})
		var o h.Outcome
		o.Key = fmt.Sprintf("%s/%v %s/%v", errClass(res[0].err), res[0].elapsed, errClass(res[1].err), res[1].elapsed)
		if s.Pruned || s.Aborted != "" {
			return s, o
		}
		switch {
		case !res[1].done:
			o.Viol = append(o.Viol, h.V{Sig: "never-returns|slow-dial-of-another-call|with-timeout", What: fmt.Sprintf("%s: the call with a %v time-out never returns (%s)", name, callTimeout, strings.Join(s.Hangs, "; "))})
		case res[1].elapsed > callTimeout:
			o.Viol = append(o.Viol, h.V{Sig: "ends-after-its-timeout|" + tr + "|another-call-is-dialling", What: fmt.Sprintf("%s: the call with a %v time-out ended after %v (%v): it waited for the pool lock that the first call holds while it dials", name, callTimeout, res[1].elapsed, res[1].err)})
		}
		if res[0].done && res[0].err == nil && res[0].resp != "re:req0" {
			o.Viol = append(o.Viol, h.V{Sig: "wrong-response", What: fmt.Sprintf("%s: call 0 got %q", name, res[0].resp)})
		}
		return s, o
	}}
}

// herd: callers that find no connection at the same time share one dial: one of them connects, the others wait
// for it (a connection per caller, all but one dropped again, is a burst of connections for the server and of
// OnConnect / OnClose callbacks for the application each time the pool is empty).
func herdScenario(tr string) h.Scenario {
	name := tr + "/first-calls-arrive-together"
	return h.Scenario{Name: name, Quick: 2, Thorough: 3, Run: func(ch vs.Chooser, trace bool) (*vs.Sched, h.Outcome) {
		var res [2]callRes
		only(tr)
		dials := 0
		s := vs.Run(ch, vs.Config{Trace: trace, Dial: func(network, addr string) (vs.Conn, error) {
			dials++
			vs.Gosched() // a dial takes a moment: the other caller gets to look into the pool meanwhile
			if tr == "udp" {
				return sockfake.UEcho(fmt.Sprintf("uconn%d", dials)), nil
			}
			return sockfake.Echo(fmt.Sprintf("conn%d", dials)), nil
		}}, func() {
			scheme := map[string]string{"socket": "tcp", "udp": "udp"}[tr]
			client := core.NewClient(scheme + "://peer/")
			var wg vs.WaitGroup
			wg.Add(2)
			vs.GoFG("caller0", func() { defer wg.Done(); res[0] = doCall(client, context.Background(), "req0", callTimeout) })
			vs.GoFG("caller1", func() { defer wg.Done(); res[1] = doCall(client, context.Background(), "req1", callTimeout) })
			wg.Wait()
			client.Abort()
		})
		var o h.Outcome
		o.Key = fmt.Sprintf("%s %s dials=%d", errClass(res[0].err), errClass(res[1].err), dials)
		if s.Pruned || s.Aborted != "" || len(s.Hangs) > 0 {
			return s, o
		}
		for i, r := range res {
			if r.err != nil || r.resp != fmt.Sprintf("re:req%d", i) {
				o.Viol = append(o.Viol, h.V{Sig: "first-calls-together|call-fails|" + tr, What: fmt.Sprintf("%s: call %d returned %q, %v", name, i, r.resp, r.err)})
			}
		}
		if dials > 1 {
			o.Viol = append(o.Viol, h.V{Sig: "first-calls-together|several-dials-for-one-server|" + tr, What: fmt.Sprintf("%s: two calls that found the pool empty made %d connections to the one server", name, dials)})
		}
		return s, o
	}}
}

func judge(name string, sc scen, s *vs.Sched, res []callRes, follow callRes, followFails int, pendingConns, pendingCalls, leakedBefore, nconns int) h.Outcome {
	var o h.Outcome
	var keys []string
	for _, r := range res {
		if !r.done {
			keys = append(keys, "HANG")
		} else {
			keys = append(keys, errClass(r.err))
		}
	}
	o.Key = strings.Join(keys, ",") + " follow=" + errClass(follow.err)
	if s.Pruned || s.Aborted != "" {
		return o
	}
	lost := connLost(sc.fault)
	for i, r := range res {
		switch {
		case !r.done:
			// allowed only: no time-out, no abort/cancel, connection alive and silent
			if sc.timeout > 0 || sc.abort || sc.cancel || lost {
				why := "the connection was lost"
				if sc.timeout > 0 {
					why = "it has a time-out"
				}
				if sc.abort || sc.cancel {
					why = "Abort/cancel was called"
				}
				o.Viol = append(o.Viol, h.V{Sig: "never-returns|" + condition(sc), What: fmt.Sprintf("%s: call %d never returns although %s (%s)", name, i, why, strings.Join(s.Hangs, "; "))})
			}
		case r.err == nil:
			if r.resp != fmt.Sprintf("re:req%d", i) && !strings.HasPrefix(sc.fault.Pos, "mid-response") {
				o.Viol = append(o.Viol, h.V{Sig: "wrong-response", What: fmt.Sprintf("%s: call %d got %q", name, i, r.resp)})
			}
		default:
			// promptness: when the connection is lost or Abort/cancel strikes, the call must not have
			// needed its own time-out timer (virtual time does not advance otherwise)
			if (lost || sc.abort || sc.cancel) && sc.timeout > 0 && r.elapsed >= sc.timeout {
				o.Viol = append(o.Viol, h.V{Sig: "not-prompt|" + condition(sc), What: fmt.Sprintf("%s: call %d ended only when its own %v time-out fired (error %v)", name, i, sc.timeout, r.err)})
			}
		}
	}
	allDone := true
	for _, r := range res {
		allDone = allDone && r.done
	}
	if allDone {
		if !follow.done {
			o.Viol = append(o.Viol, h.V{Sig: "follow-up-never-returns|" + condition(sc), What: fmt.Sprintf("%s: after the failure the next call on the same client never returns (%s)", name, strings.Join(s.Hangs, "; "))})
		} else if follow.err != nil || follow.resp != "re:follow" || followFails > 1 {
			// if the first connection is alive and merely silent, the follow-ups share it: they may time out
			if lost || sc.abort {
				o.Viol = append(o.Viol, h.V{Sig: "client-unusable-after-failure|" + condition(sc), What: fmt.Sprintf("%s: of the calls after the failure %d failed, the last returned %q, %v (connections dialled: %d)", name, followFails, follow.resp, follow.err, nconns)})
			}
		} else if pendingCalls != 0 {
			o.Viol = append(o.Viol, h.V{Sig: "pending-entries-left", What: fmt.Sprintf("%s: %d pending-call entries on %d pooled connections after all calls returned", name, pendingCalls, pendingConns)})
		}
		// goroutines must not accumulate: at quiescence, after every call has returned, the only library goroutines
		// left are the loops of the connections still pooled (two per connection; the mock transport has none)
		if follow.done && len(s.Hangs) == 0 && len(s.Leaked) > 2*pendingConns {
			o.Viol = append(o.Viol, h.V{Sig: "goroutines-left|" + strings.SplitN(name, "/", 2)[0] + "|" + condition(sc), What: fmt.Sprintf("%s: %d goroutines are still blocked after every call has returned, with %d connection(s) left in the pool: %s", name, len(s.Leaked), pendingConns, strings.Join(s.Leaked, "; "))})
		}
	}
	return o
}

func condition(sc scen) string {
	c := sc.fault.Act
	if sc.abort {
		c += "+abort"
	}
	if sc.cancel {
		c += "+cancel"
	}
	if sc.timeout > 0 {
		c += "|with-timeout"
	} else {
		c += "|no-timeout"
	}
	return c
}

// ---- udp: datagram transport, faults = dropped request / unreachable peer / garbage datagram ----

func udpScenario(fault string, callers int, timeout time.Duration, abort bool, quick, thorough int) h.Scenario {
	sc := scen{fault: sockfake.Fault{Pos: "datagram", Act: fault}, callers: callers, timeout: timeout, abort: abort}
	name := sc.name("udp")
	return h.Scenario{Name: name, Quick: quick, Thorough: thorough, AllowHang: true, Run: func(ch vs.Chooser, trace bool) (*vs.Sched, h.Outcome) {
		res := make([]callRes, callers)
		var follow callRes
		followFails := 0
		dials := 0
		var pendingConns, pendingCalls int
		var uconn *vs.DgramConn
		abortArmed := false
		only("udp")
		s := vs.Run(ch, vs.Config{Trace: trace, Dial: func(network, addr string) (vs.Conn, error) {
			dials++
			if dials > 1 {
				return sockfake.UEcho(fmt.Sprintf("uconn%d", dials)), nil
			}
			first := true
			uconn = &vs.DgramConn{Name: "uconn1"}
			uconn.React = func(c *vs.DgramConn, d []byte) [][]byte {
				idx, body, ok := sockfake.UParse(d)
				if !ok || !first {
					return nil
				}
				first = false
				switch fault {
				case "silent": // the request (or its answer) is lost
					return nil
				case "reset": // ICMP port unreachable
					c.Fail(errors.New("read: connection refused"))
					return nil
				case "garbage":
					return [][]byte{[]byte("xx")}
				case "bad-checksum":
					f := sockfake.UFrame(idx, sockfake.Reply(body))
					f[0] ^= 0xff
					return [][]byte{f}
				}
				panic(fault)
			}
			return uconn, nil
		}}, func() {
			client := core.NewClient("udp://peer/")
			var wg vs.WaitGroup
			for i := 0; i < callers; i++ {
				i := i
				wg.Add(1)
				vs.GoFG(fmt.Sprintf("caller%d", i), func() {
					defer wg.Done()
					res[i] = doCall(client, context.Background(), fmt.Sprintf("req%d", i), timeout)
				})
			}
			if abort {
				wg.Add(1)
				vs.GoFG("aborter", func() {
					defer wg.Done()
					abortArmed = uconn != nil && uconn.Writes >= callers
					client.Abort()
				})
			}
			wg.Wait()
			follow, followFails = followUps(client)
			pendingConns, pendingCalls = client.GetTransport("udp").(*udp.Transport).VerifPending()
		})
		sc2 := sc
		sc2.abort = abort && abortArmed
		o := judge(name, sc2, s, res, follow, followFails, pendingConns, pendingCalls, 0, dials)
		if abort {
			o.Key += fmt.Sprint(" abort-after-request-written=", abortArmed)
		}
		return s, o
	}}
}

// ---- mock transport: handler answers, errs, panics or never returns ----

func mockScenario(behaviour string, timeout time.Duration, abort, cancel bool) h.Scenario {
	name := fmt.Sprintf("mock/%s/timeout=%v/abort=%v/cancel=%v", behaviour, timeout, abort, cancel)
	return h.Scenario{Name: name, Quick: 2, Thorough: 3, AllowHang: true, Run: func(ch vs.Chooser, trace bool) (*vs.Sched, h.Outcome) {
		var res callRes
		only("mock")
		s := vs.Run(ch, vs.Config{Trace: trace}, func() {
			service := core.NewService()
			never := make(chan struct{})
			service.Use(func(ctx context.Context, request []byte, next core.NextIOHandler) (resp []byte, err error) {
				defer func() {
					if r := recover(); r != nil { // containment of plugin panics is C11's subject, not C10's
						resp, err = nil, fmt.Errorf("%v", r)
					}
				}()
				switch behaviour {
				case "error":
					return nil, errors.New("boom")
				case "panic":
					panic("boom")
				case "never":
					vs.Recv(never)
				}
				return []byte("re:" + string(request)), nil
			})
			server := mock.Server{Address: "c10-" + behaviour}
			service.Bind(server)
			client := core.NewClient("mock://" + server.Address)
			ctx, cancelFn := vs.WithCancel(context.Background())
			var wg vs.WaitGroup
			wg.Add(1)
			vs.GoFG("caller", func() { defer wg.Done(); res = doCall(client, ctx, "req0", timeout) })
			if abort {
				wg.Add(1)
				vs.GoFG("aborter", func() { defer wg.Done(); client.Abort() })
			}
			if cancel {
				wg.Add(1)
				vs.GoFG("canceller", func() { defer wg.Done(); cancelFn() })
			}
			wg.Wait()
			_ = cancelFn
		})
		var o h.Outcome
		if !res.done {
			o.Key = "HANG"
		} else {
			o.Key = errClass(res.err)
		}
		if s.Pruned || s.Aborted != "" {
			return s, o
		}
		if !res.done && (behaviour != "never" || timeout > 0 || cancel) {
			o.Viol = append(o.Viol, h.V{Sig: "mock|never-returns|" + behaviour, What: fmt.Sprintf("%s: the call never returns (%s)", name, strings.Join(s.Hangs, "; "))})
		}
		if res.done && res.err == nil && res.resp != "re:req0" && behaviour == "answer" {
			o.Viol = append(o.Viol, h.V{Sig: "mock|wrong-response", What: fmt.Sprintf("%s: got %q", name, res.resp)})
		}
		return s, o
	}}
}

func only(tr string) {
	core.VerifResetTransports()
	switch tr {
	case "socket":
		socket.RegisterTransport()
	case "udp":
		udp.RegisterTransport()
	case "mock":
		mock.RegisterTransport()
	case "websocket":
		websocket.RegisterTransport()
	}
}

// ---- websocket: message transport; faults = silent / close / reset / close message / short message ----

func wsScenario(fault string, callers int, timeout time.Duration, abort bool, quick, thorough int) h.Scenario {
	sc := scen{fault: sockfake.Fault{Pos: "message", Act: fault}, callers: callers, timeout: timeout, abort: abort}
	name := sc.name("websocket")
	var maxExecs int64
	if callers >= 2 && os.Getenv("VERIF_TIER") != "thorough" {
		maxExecs = 450000
	}
	return h.Scenario{Name: name, Quick: quick, Thorough: thorough, AllowHang: true, MaxExecs: maxExecs, Run: func(ch vs.Chooser, trace bool) (*vs.Sched, h.Outcome) {
		res := make([]callRes, callers)
		var follow callRes
		followFails := 0
		dials := 0
		var first *fakews.Conn
		abortArmed := false
		only("websocket")
		echo := func(c *fakews.Conn, m fakews.Message) []fakews.Message {
			return []fakews.Message{{Type: fakews.BinaryMessage, Data: append(append([]byte{}, m.Data[:4]...), append([]byte("re:"), m.Data[4:]...)...)}}
		}
		fakews.Dial = func(url string) (*fakews.Conn, error) {
			dials++
			if dials > 1 {
				return &fakews.Conn{Name: fmt.Sprintf("ws%d", dials), React: echo}, nil
			}
			done := false
			first = &fakews.Conn{Name: "ws1"}
			first.React = func(c *fakews.Conn, m fakews.Message) []fakews.Message {
				if done {
					return nil
				}
				done = true
				switch fault {
				case "silent":
					return nil
				case "close":
					c.PeerClose(nil)
					return nil
				case "reset":
					c.PeerClose(errors.New("read: connection reset by peer"))
					return nil
				case "close-message":
					return []fakews.Message{{Type: fakews.CloseMessage, Data: nil}}
				case "short-message":
					return []fakews.Message{{Type: fakews.BinaryMessage, Data: []byte{1, 2}}}
				case "answer-then-close":
					c.PeerClose(nil)
					return echo(c, m)
				}
				panic(fault)
			}
			return first, nil
		}
		var pendingConns, pendingCalls int
		s := vs.Run(ch, vs.Config{Trace: trace}, func() {
			client := core.NewClient("ws://peer/")
			var wg vs.WaitGroup
			for i := 0; i < callers; i++ {
				i := i
				wg.Add(1)
				vs.GoFG(fmt.Sprintf("caller%d", i), func() {
					defer wg.Done()
					res[i] = doCall(client, context.Background(), fmt.Sprintf("req%d", i), timeout)
				})
			}
			if abort {
				wg.Add(1)
				vs.GoFG("aborter", func() {
					defer wg.Done()
					abortArmed = first != nil && len(first.Sent) >= callers
					client.Abort()
				})
			}
			wg.Wait()
			follow, followFails = followUps(client)
			pendingConns, pendingCalls = client.GetTransport("websocket").(*websocket.Transport).VerifPending()
		})
		sc2 := sc
		sc2.abort = abort && abortArmed
		if fault == "answer-then-close" {
			sc2.fault.Pos = "after-response"
			sc2.fault.Act = "close"
		}
		o := judge(name, sc2, s, res, follow, followFails, pendingConns, pendingCalls, 0, dials)
		if abort {
			o.Key += fmt.Sprint(" abort-after-request-written=", abortArmed)
		}
		return s, o
	}}
}

func main() {
	mock.RegisterHandler()
	thorough := os.Getenv("VERIF_TIER") == "thorough"
	var scens []h.Scenario
	for _, pos := range sockfake.Positions() {
		for _, act := range sockfake.Actions() {
			f := sockfake.Fault{Pos: pos, Act: act}
			if strings.HasPrefix(pos, "mid-response") && act != "close" && act != "reset" && act != "silent" {
				continue // bytes following a partial frame are that frame's body: nothing the client could detect
			}
			scens = append(scens, socketScenario(scen{fault: f, callers: 1, timeout: callTimeout, quick: 1, thorough: 2}))
			if thorough || pos == "after-request" {
				scens = append(scens, socketScenario(scen{fault: f, callers: 1, timeout: -1, quick: 1, thorough: 2}))
			}
			if act == "close" || (thorough && act == "reset") {
				if thorough || pos == "after-header" || pos == "after-response" {
					scens = append(scens, socketScenario(scen{fault: f, callers: 2, timeout: -1, quick: 1, thorough: 2}))
					scens = append(scens, socketScenario(scen{fault: f, callers: 2, timeout: callTimeout, quick: 1, thorough: 2}))
				}
			}
		}
	}
	for _, to := range []time.Duration{-1, callTimeout} {
		scens = append(scens, socketScenario(scen{fault: sockfake.Fault{Pos: "after-request", Act: "silent"}, callers: 1, timeout: to, abort: true, quick: 1, thorough: 2}))
		scens = append(scens, socketScenario(scen{fault: sockfake.Fault{Pos: "after-request", Act: "silent"}, callers: 1, timeout: to, cancel: true, quick: 2, thorough: 3}))
		if thorough {
			scens = append(scens, socketScenario(scen{fault: sockfake.Fault{Pos: "after-response", Act: "silent"}, callers: 2, timeout: to, abort: true, quick: 1, thorough: 1}))
		}
		for _, f := range []string{"silent", "reset", "garbage", "bad-checksum"} {
			scens = append(scens, udpScenario(f, 1, to, false, 1, 2))
		}
		scens = append(scens, udpScenario("silent", 1, to, true, 1, 2))
		for _, f := range []string{"silent", "close", "reset", "close-message", "short-message", "answer-then-close"} {
			scens = append(scens, wsScenario(f, 1, to, false, 1, 2))
		}
		scens = append(scens, wsScenario("silent", 1, to, true, 1, 2))
		scens = append(scens, wsScenario("close", 2, to, false, 1, 2), wsScenario("answer-then-close", 2, to, false, 1, 2))
		scens = append(scens, udpScenario("reset", 2, to, false, 1, 2))
		if to > 0 {
			scens = append(scens, slowDialScenario("socket"), slowDialScenario("udp"), herdScenario("socket"), herdScenario("udp"))
		}
		for _, b := range []string{"answer", "error", "panic", "never"} {
			scens = append(scens, mockScenario(b, to, false, false))
		}
		scens = append(scens, mockScenario("never", to, true, false), mockScenario("never", to, false, true))
	}
	h.Main(ID, scens, nil)
}
