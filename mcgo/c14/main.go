// C14 — serialization under concurrency and pooled coders. (a) schedule exploration of concurrent first
// use of fresh types (registries reset per execution); (b) every sequence of pooled-coder operations up
// to a depth against the result each operation gives on a fresh state (the pool shim is a LIFO: maximal
// reuse). Parts (c) (aliasing of the input buffer) and (d) (free-running -race pass) are in the auxiliary
// binary mc/checks/c14aux.
package main

import (
	"bytes"
	"context"
	"fmt"
	"reflect"
	"sort"
	"strings"

	hio "github.com/hprose/hprose-golang/v3/io"
	"github.com/hprose/hprose-golang/v3/rpc/core"
	"verif/mcgo/h"
	"verif/vs"
)

const ID = "C14"

// fresh types: nested in one another and recursive
type B struct {
	X int
	S string
}
type A struct {
	PB *B
	VB B
	N  string
}
type R struct {
	V    int
	Next *R
	Kids []*R
}
type M struct {
	Mp map[string]*B
	L  []B
}

func valA() A  { b := &B{7, "seven"}; return A{PB: b, VB: B{8, "seven"}, N: "seven"} }
func valB() B  { return B{9, "nine"} }
func valR() *R { r := &R{V: 1}; r.Next = &R{V: 2, Next: r}; r.Kids = []*R{r, r.Next}; return r }
func valM() M  { b := &B{1, "one"}; return M{Mp: map[string]*B{"k": b}, L: []B{{2, "one"}, {3, "three"}}} }

func enc(v interface{}, simple bool) string {
	b, err := hio.Formatter{Simple: simple}.Marshal(v)
	if err != nil {
		return "ERR " + err.Error()
	}
	return string(b)
}

func dec(data string, p interface{}, simple bool) string {
	err := hio.Formatter{Simple: simple}.Unmarshal([]byte(data), p)
	if err != nil {
		return "ERR " + err.Error()
	}
	return render(reflect.ValueOf(p).Elem(), 0)
}

// render prints a value with cycle cut-off (fmt %v does not terminate on cycles)
func render(v reflect.Value, depth int) string {
	if depth > 6 {
		return "..."
	}
	if v.IsValid() && v.CanInterface() {
		if pk := v.Type().PkgPath(); pk == "math/big" || pk == "time" {
			return fmt.Sprint(v.Interface())
		}
		if v.Kind() == reflect.Ptr && !v.IsNil() {
			if pk := v.Type().Elem().PkgPath(); pk == "math/big" || pk == "time" {
				return fmt.Sprint(v.Interface())
			}
		}
	}
	switch v.Kind() {
	case reflect.Ptr:
		if v.IsNil() {
			return "nil"
		}
		return "&" + render(v.Elem(), depth+1)
	case reflect.Struct:
		var p []string
		for i := 0; i < v.NumField(); i++ {
			p = append(p, v.Type().Field(i).Name+":"+render(v.Field(i), depth+1))
		}
		return "{" + strings.Join(p, " ") + "}"
	case reflect.Slice:
		var p []string
		for i := 0; i < v.Len(); i++ {
			p = append(p, render(v.Index(i), depth+1))
		}
		return "[" + strings.Join(p, " ") + "]"
	case reflect.Map:
		var p []string
		for _, k := range v.MapKeys() {
			p = append(p, fmt.Sprint(k)+":"+render(v.MapIndex(k), depth+1))
		}
		sort.Strings(p)
		return "map[" + strings.Join(p, " ") + "]"
	case reflect.Interface:
		if v.IsNil() {
			return "nil"
		}
		return fmt.Sprintf("(%s)%s", v.Elem().Type(), render(v.Elem(), depth+1))
	}
	return fmt.Sprint(v.Interface())
}

type body struct {
	name string
	run  func() string
}

func bodies() map[string]body {
	encA := enc(valA(), false)
	encR := enc(valR(), false)
	encM := enc(valM(), false)
	return map[string]body{
		"marshalA":    {"marshalA", func() string { return enc(valA(), false) }},
		"marshalAsim": {"marshalAsim", func() string { return enc(valA(), true) }},
		"marshalB":    {"marshalB", func() string { return enc(valB(), false) }},
		"marshalPB":   {"marshalPB", func() string { b := valB(); return enc(&b, true) }},
		"marshalR":    {"marshalR", func() string { return enc(valR(), false) }},
		"marshalM":    {"marshalM", func() string { return enc(valM(), false) }},
		"unmarshalA":  {"unmarshalA", func() string { var a A; return dec(encA, &a, false) }},
		"unmarshalR":  {"unmarshalR", func() string { var r *R; return dec(encR, &r, false) }},
		"unmarshalM":  {"unmarshalM", func() string { var m M; return dec(encM, &m, false) }},
		"unmarshalAi": {"unmarshalAi", func() string { var i interface{}; return dec(encA, &i, false) }},
	}
}

var baseline = map[string]string{}

func concurrentFirstUse(names ...string) h.Scenario {
	name := "first-use/" + strings.Join(names, "+")
	bs := bodies()
	return h.Scenario{Name: name, Quick: 3, Thorough: 6, Run: func(ch vs.Chooser, trace bool) (*vs.Sched, h.Outcome) {
		hio.VerifResetRegistries()
		hio.VerifDrainPools()
		results := make([]string, len(names))
		s := vs.Run(ch, vs.Config{Trace: trace}, func() {
			for i, n := range names {
				i, n := i, n
				vs.GoFG(fmt.Sprintf("t%d-%s", i, n), func() {
					defer func() {
						if r := recover(); r != nil {
							results[i] = fmt.Sprint("PANIC ", r)
						}
					}()
					results[i] = bs[n].run()
				})
			}
		})
		var o h.Outcome
		ok := true
		if len(s.Hangs) == 0 && !s.Pruned && s.Aborted == "" {
			for i, n := range names {
				if results[i] != baseline[n] {
					ok = false
					kind := "wrong-result"
					if strings.HasPrefix(results[i], "PANIC") {
						kind = "panic"
					}
					o.Viol = append(o.Viol, h.V{Sig: "first-use|" + kind + "|" + n + "|while|" + strings.Join(names, "+"),
						What: fmt.Sprintf("%s: thread %d (%s) produced %q, alone it produces %q", name, i, n, results[i], baseline[n])})
				}
			}
		}
		o.Key = fmt.Sprint("all-equal-to-sequential=", ok)
		if !ok {
			o.Key += " " + fmt.Sprintf("%q", results)
		}
		return s, o
	}}
}

// ---- (b) pooled coder operation sequences ----

type pop struct {
	name string
	run  func() string
}

func pooledOps() []pop {
	refVal := []interface{}{"shared", "shared", valA(), []int{1, 2}}
	refBytes, _ := hio.Formatter{Simple: false}.Marshal(refVal)
	simBytes, _ := hio.Marshal([]interface{}{"x", 1.5, int64(1) << 40, map[string]interface{}{"k": 1}})
	structList, _ := hio.Formatter{Simple: false}.Marshal([]interface{}{&B{1, "b"}, &B{2, "b"}})
	un := func(f hio.Formatter, data []byte) string {
		var v interface{}
		err := f.Unmarshal(data, &v)
		return fmt.Sprintf("%s err=%v", render(reflect.ValueOf(&v).Elem(), 0), err)
	}
	unR := func(f hio.Formatter, data []byte) string {
		var v interface{}
		err := f.UnmarshalFromReader(bytes.NewReader(data), &v)
		return fmt.Sprintf("%s err=%v", render(reflect.ValueOf(&v).Elem(), 0), err)
	}
	service := core.NewService()
	service.AddFunction(func(a string, b B) string { return a + b.S }, "f")
	return []pop{
		{"marshal-simple", func() string { b, err := hio.Marshal([]interface{}{"shared", "shared", valB()}); return fmt.Sprintf("%q %v", b, err) }},
		{"marshal-ref", func() string { b, err := hio.Formatter{Simple: false}.Marshal(refVal); return fmt.Sprintf("%q %v", b, err) }},
		{"marshal-error", func() string { b, err := hio.Formatter{Simple: false}.Marshal([]interface{}{"shared", make(chan int)}); return fmt.Sprintf("%q %v", b, err != nil) }},
		{"unmarshal-ref-ok", func() string { return un(hio.Formatter{Simple: false}, refBytes) }},
		{"unmarshal-simple-ok", func() string { return un(hio.Formatter{Simple: true}, simBytes) }},
		{"unmarshal-ref-truncated", func() string { return un(hio.Formatter{Simple: false}, refBytes[:len(refBytes)-9]) }},
		{"unmarshal-ref-badtag", func() string { return un(hio.Formatter{Simple: false}, []byte("a2{s6\"shared\"X}")) }},
		{"unmarshal-ref-bigint-f32-simap", func() string {
			return un(hio.Formatter{Simple: false, LongType: hio.LongTypeBigInt, RealType: hio.RealTypeFloat32, MapType: hio.MapTypeSIMap}, simBytes)
		}},
		{"unmarshal-ref-structs", func() string { return un(hio.Formatter{Simple: false}, structList) }},
		{"reader-ref-ok", func() string { return unR(hio.Formatter{Simple: false}, refBytes) }},
		{"reader-simple-truncated", func() string { return unR(hio.Formatter{Simple: true}, simBytes[:len(simBytes)-3]) }},
		{"codec-client-encode-ref", func() string {
			cc := core.NewClientContext()
			b, err := core.NewClientCodec().Encode("f", []interface{}{"shared", &B{1, "shared"}}, cc)
			return fmt.Sprintf("%q %v", b, err)
		}},
		{"codec-client-encode-simple", func() string {
			cc := core.NewClientContext()
			b, err := core.NewClientCodec(core.WithSimple(true)).Encode("f", []interface{}{"shared", &B{1, "shared"}}, cc)
			return fmt.Sprintf("%q %v", b, err)
		}},
		{"codec-service-decode", func() string {
			sc := core.NewServiceContext(service)
			name, args, err := service.Codec.Decode([]byte("Cs1\"f\"a2{s6\"shared\"c1\"B\"2{s1\"x\"s1\"s\"}o0{1r2;}}z"), sc)
			return fmt.Sprintf("%s %v %v", name, args, err)
		}},
		{"codec-client-decode-value-structs", func() string {
			cc := core.NewClientContext()
			cc.ReturnType = []reflect.Type{reflect.TypeOf((*interface{})(nil)).Elem()}
			c := core.NewClientCodec(core.WithStructType(hio.StructTypeValue), core.WithListType(hio.ListTypeSlice), core.WithLongType(hio.LongTypeBigInt))
			r, err := c.Decode(append(append([]byte("R"), structList...), 'z'), cc)
			return fmt.Sprintf("%s %v", render(reflect.ValueOf(r), 0), err)
		}},
		{"codec-client-decode-error", func() string {
			cc := core.NewClientContext()
			_, err := core.NewClientCodec().Decode([]byte("Es4\"boom\"z"), cc)
			return fmt.Sprint(err)
		}},
		// direct users of the public pool API
		{"pool-encoder-with-writer", func() string {
			enc := hio.GetEncoder()
			w := new(bytes.Buffer)
			enc.Writer = w
			err := enc.Encode([]interface{}{"to-my-writer", "to-my-writer"})
			hio.FreeEncoder(enc)
			sinks = append(sinks, sink{w, w.Len()})
			return fmt.Sprintf("%q %v", w.String(), err)
		}},
		{"pool-decoder-with-options", func() string {
			dec := hio.GetDecoder().ResetBytes(structList)
			dec.StructType, dec.ListType, dec.LongType = hio.StructTypeValue, hio.ListTypeSlice, hio.LongTypeBigInt
			var v interface{}
			dec.Decode(&v)
			err := dec.Error
			hio.FreeDecoder(dec)
			return fmt.Sprintf("%s err=%v", render(reflect.ValueOf(&v).Elem(), 0), err)
		}},
		{"pool-decoder-failing-input-then-good-input", func() string {
			// one user, two inputs on the decoder it holds: the first is cut short, the second is whole
			dec := hio.GetDecoder().ResetBytes(append([]byte{}, refBytes[:len(refBytes)/2]...))
			var v, w interface{}
			dec.Decode(&v)
			first := dec.Error != nil
			dec.ResetBytes(append([]byte{}, refBytes...)).Reset()
			dec.Decode(&w)
			err := dec.Error
			hio.FreeDecoder(dec)
			return fmt.Sprintf("first-input-failed=%v %s err=%v", first, render(reflect.ValueOf(&w).Elem(), 0), err)
		}},
		{"pool-decoder-bytes-then-reader", func() string {
			input := append([]byte{}, simBytes...)
			dec := hio.GetDecoder().ResetBytes(input)
			var v, w interface{}
			dec.Decode(&v)
			dec.ResetReader(bytes.NewReader(refBytes))
			dec.Simple(false)
			dec.Decode(&w)
			err := dec.Error
			hio.FreeDecoder(dec)
			return fmt.Sprintf("%s %s err=%v caller's-input-intact=%v", render(reflect.ValueOf(&v).Elem(), 0), render(reflect.ValueOf(&w).Elem(), 0), err, bytes.Equal(input, simBytes))
		}},
	}
}

// sinks are the writers that users of pooled encoders have set; after its user has freed the encoder nothing may
// arrive in a writer any more.
type sink struct {
	w *bytes.Buffer
	n int
}

var sinks []sink

func sinksGrew() bool {
	for _, s := range sinks {
		if s.w.Len() != s.n {
			return true
		}
	}
	return false
}

func pooledSequences(shard, nshards int, thorough bool) h.SeqResult {
	var res h.SeqResult
	ops := pooledOps()
	fresh := make([]string, len(ops))
	for i, op := range ops {
		hio.VerifDrainPools()
		vs.Seq(vs.Config{}, func() { fresh[i] = op.run() })
	}
	// the second input of one decoder decodes as it does on a decoder of its own: the error of the first is
	// not visible any more (an absolute expectation: "fresh" would carry the same fault)
	if shard == 0 {
		var w interface{}
		refBytes, _ := hio.Formatter{Simple: false}.Marshal([]interface{}{"shared", "shared", valA(), []int{1, 2}})
		d := hio.NewDecoder(append([]byte{}, refBytes...)).Simple(false)
		d.Decode(&w)
		want := fmt.Sprintf("first-input-failed=true %s err=%v", render(reflect.ValueOf(&w).Elem(), 0), d.Error)
		for i, op := range ops {
			if op.name == "pool-decoder-failing-input-then-good-input" && fresh[i] != want {
				res.Violate("pooled|error-of-the-previous-input-visible-after-ResetBytes", fmt.Sprintf("one decoder, a truncated input and then ResetBytes(whole input): %q, a decoder of its own gives %q", fresh[i], want), map[string]interface{}{"kind": "pooled-sequence", "ops": []string{op.name}})
			}
		}
	}
	depth := 3
	if thorough {
		depth = 4
	}
	h.ForEachSeq(len(ops), depth, shard, nshards, func(seq []int) {
		hio.VerifDrainPools()
		sinks = nil
		var names []string
		vs.Seq(vs.Config{}, func() {
			for k, x := range seq {
				names = append(names, ops[x].name)
				got := func() (r string) {
					defer func() {
						if p := recover(); p != nil {
							r = fmt.Sprint("PANIC ", p)
						}
					}()
					r = ops[x].run()
					if sinksGrew() {
						r += " [A WRITER SET BY AN EARLIER USER OF A POOLED ENCODER RECEIVED BYTES]"
					}
					return r
				}()
				res.Transitions++
				if strings.Contains(got, "caller's-input-intact=false") {
					res.Violate("pooled|decoder-overwrites-the-input-of-an-earlier-ResetBytes", fmt.Sprintf("sequence %v: operation %d: after ResetBytes(input) and ResetReader(r) on one decoder the reader's data was read into the caller's input slice: %q", names, k, got), map[string]interface{}{"kind": "pooled-sequence", "ops": names})
					return
				}
				if got != fresh[x] {
					prev := "(first)"
					if k > 0 {
						prev = ops[seq[k-1]].name
					}
					sig := "pooled|result-depends-on-previous-use|op=" + ops[x].name + "|after=" + prev
					if strings.Contains(got, "A WRITER SET BY AN EARLIER USER") {
						sig = "pooled|writer-set-by-an-earlier-user-of-a-pooled-encoder-receives-bytes"
					}
					res.Violate(sig,
						fmt.Sprintf("sequence %v: operation %d gives %q, on fresh coders it gives %q", names, k, got, fresh[x]),
						map[string]interface{}{"kind": "pooled-sequence", "ops": names})
					return
				}
			}
		})
		res.Traces++
		if res.Traces%3001 == 1 {
			res.Samples = append(res.Samples, map[string]interface{}{"kind": "pooled coder sequence", "ops": names})
		}
	})
	res.States = res.Traces
	res.Info = map[string]interface{}{"pooled_ops": fmt.Sprint(len(ops)), "pooled_depth": fmt.Sprint(depth)}
	return res
}

var _ = context.Background

func main() {
	hio.VerifSnapshotRegistries()
	// sequential baseline: what each body produces alone (fresh registries each time)
	for n, b := range bodies() {
		hio.VerifResetRegistries()
		baseline[n] = b.run()
	}
	hio.VerifResetRegistries()
	scen := []h.Scenario{
		concurrentFirstUse("marshalA", "marshalB"),
		concurrentFirstUse("marshalA", "marshalPB"),
		concurrentFirstUse("marshalAsim", "marshalA"),
		concurrentFirstUse("marshalR", "marshalR"),
		concurrentFirstUse("marshalM", "marshalB"),
		concurrentFirstUse("unmarshalA", "marshalA"),
		concurrentFirstUse("unmarshalA", "unmarshalA"),
		concurrentFirstUse("unmarshalR", "unmarshalR"),
		concurrentFirstUse("unmarshalM", "marshalM"),
		concurrentFirstUse("unmarshalAi", "unmarshalA"),
		concurrentFirstUse("marshalA", "marshalB", "unmarshalA"),
	}
	h.Main(ID, scen, nil, h.SeqPart{Name: "pooled", Shards: 32, Run: pooledSequences})
}
