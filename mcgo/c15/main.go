// C15 — plugin onion. Breadth-first search over Use/Unuse/Call sequences on a real client and a real
// service (mock transport, rewritten copy, virtual scheduler), against a list model; plus schedule
// exploration of Use/Unuse racing with calls.
package main

import (
	"context"
	"fmt"
	"sort"
	"strings"

	"github.com/hprose/hprose-golang/v3/rpc/core"
	"github.com/hprose/hprose-golang/v3/rpc/mock"
	"verif/mcgo/h"
	"verif/vs"
)

const ID = "C15"

var trace []string

func rec(s string) { trace = append(trace, s) }

// ---- distinct handlers: top-level functions (distinct code), one two-sided plugin type per side ----

func mkInv(name string) core.InvokeHandler {
	return func(ctx context.Context, n string, args []interface{}, next core.NextInvokeHandler) ([]interface{}, error) {
		rec("enter " + name)
		r, err := next(ctx, n, args)
		rec("leave " + name)
		return r, err
	}
}

// The handlers below are written out one by one on purpose: closures of one function literal share their
// code pointer, and Unuse identifies handlers by code pointer (see the "aliasing" part).
func cinv1(ctx context.Context, n string, args []interface{}, next core.NextInvokeHandler) ([]interface{}, error) {
	rec("enter cinv1")
	r, err := next(ctx, n, args)
	rec("leave cinv1")
	return r, err
}
func cinv2(ctx context.Context, n string, args []interface{}, next core.NextInvokeHandler) ([]interface{}, error) {
	rec("enter cinv2")
	r, err := next(ctx, n, args)
	rec("leave cinv2")
	return r, err
}

// cinvRW rewrites the argument on the way in and the result on the way out.
func cinvRW(ctx context.Context, n string, args []interface{}, next core.NextInvokeHandler) ([]interface{}, error) {
	rec("enter cinvRW")
	a := append([]interface{}{}, args...)
	a[0] = fmt.Sprint(a[0]) + "+rw"
	r, err := next(ctx, n, a)
	if err == nil && len(r) > 0 {
		r[0] = fmt.Sprint(r[0]) + "+wr"
	}
	rec("leave cinvRW")
	return r, err
}

// cinvSC short-circuits: the call never goes further in.
func cinvSC(ctx context.Context, n string, args []interface{}, next core.NextInvokeHandler) ([]interface{}, error) {
	rec("enter cinvSC")
	rec("leave cinvSC")
	return []interface{}{"short"}, nil
}
func cio1(ctx context.Context, req []byte, next core.NextIOHandler) ([]byte, error) {
	rec("enter cio1")
	r, err := next(ctx, req)
	rec("leave cio1")
	return r, err
}
func cio2(ctx context.Context, req []byte, next core.NextIOHandler) ([]byte, error) {
	rec("enter cio2")
	r, err := next(ctx, req)
	rec("leave cio2")
	return r, err
}
func sinv1(ctx context.Context, n string, args []interface{}, next core.NextInvokeHandler) ([]interface{}, error) {
	rec("enter sinv1")
	r, err := next(ctx, n, args)
	rec("leave sinv1")
	return r, err
}
func sinv2(ctx context.Context, n string, args []interface{}, next core.NextInvokeHandler) ([]interface{}, error) {
	rec("enter sinv2")
	r, err := next(ctx, n, args)
	rec("leave sinv2")
	return r, err
}
func sio1(ctx context.Context, req []byte, next core.NextIOHandler) ([]byte, error) {
	rec("enter sio1")
	r, err := next(ctx, req)
	rec("leave sio1")
	return r, err
}

type twoSided struct{ name string }

func (p *twoSided) IOHandler(ctx context.Context, req []byte, next core.NextIOHandler) ([]byte, error) {
	rec("enter " + p.name + ".io")
	r, err := next(ctx, req)
	rec("leave " + p.name + ".io")
	return r, err
}
func (p *twoSided) InvokeHandler(ctx context.Context, n string, args []interface{}, next core.NextInvokeHandler) ([]interface{}, error) {
	rec("enter " + p.name + ".inv")
	r, err := next(ctx, n, args)
	rec("leave " + p.name + ".inv")
	return r, err
}

type hdl struct {
	name    string
	side    string // "c" | "s"
	inv, io string // names recorded by its invoke / io part ("" = none)
	value   func() core.PluginHandler
}

var cplug, splug = &twoSided{"cplug"}, &twoSided{"splug"}

var handlers = []hdl{
	{"cinv1", "c", "cinv1", "", func() core.PluginHandler { return core.InvokeHandler(cinv1) }},
	{"cinv2", "c", "cinv2", "", func() core.PluginHandler { return core.InvokeHandler(cinv2) }},
	{"cio1", "c", "", "cio1", func() core.PluginHandler { return core.IOHandler(cio1) }},
	{"cio2", "c", "", "cio2", func() core.PluginHandler { return core.IOHandler(cio2) }},
	{"cplug", "c", "cplug.inv", "cplug.io", func() core.PluginHandler { return cplug }},
	{"cinvRW", "c", "cinvRW", "", func() core.PluginHandler { return core.InvokeHandler(cinvRW) }},
	{"cinvSC", "c", "cinvSC", "", func() core.PluginHandler { return core.InvokeHandler(cinvSC) }},
	{"sinv1", "s", "sinv1", "", func() core.PluginHandler { return core.InvokeHandler(sinv1) }},
	{"sinv2", "s", "sinv2", "", func() core.PluginHandler { return core.InvokeHandler(sinv2) }},
	{"sio1", "s", "", "sio1", func() core.PluginHandler { return core.IOHandler(sio1) }},
	{"splug", "s", "splug.inv", "splug.io", func() core.PluginHandler { return splug }},
}

type op struct {
	kind string // "use" | "unuse" | "use2"
	a, b int    // handler indices
}

func (o op) String() string {
	if o.kind == "use2" {
		return fmt.Sprintf("Use(%s,%s)", handlers[o.a].name, handlers[o.b].name)
	}
	return fmt.Sprintf("%s(%s)", map[string]string{"use": "Use", "unuse": "Unuse"}[o.kind], handlers[o.a].name)
}

func alphabet() []op {
	var ops []op
	for i := range handlers {
		ops = append(ops, op{"use", i, 0}, op{"unuse", i, 0})
	}
	ops = append(ops, op{"use2", 0, 2}, op{"use2", 4, 1}, op{"use2", 7, 9})
	return ops
}

// ---- the list model ----

type model struct{ cinv, cio, sio, sinv []string }

func (m model) key() string {
	return strings.Join(m.cinv, ",") + "|" + strings.Join(m.cio, ",") + "|" + strings.Join(m.sio, ",") + "|" + strings.Join(m.sinv, ",")
}

func remove(l []string, x string) []string {
	var out []string
	for _, y := range l {
		if y != x {
			out = append(out, y)
		}
	}
	return out
}

func (m model) apply(o op) model {
	m = model{append([]string{}, m.cinv...), append([]string{}, m.cio...), append([]string{}, m.sio...), append([]string{}, m.sinv...)}
	idx := []int{o.a}
	if o.kind == "use2" {
		idx = []int{o.a, o.b}
	}
	for _, i := range idx {
		hd := handlers[i]
		inv, io := &m.cinv, &m.cio
		if hd.side == "s" {
			inv, io = &m.sinv, &m.sio
		}
		if o.kind == "unuse" {
			if hd.inv != "" {
				*inv = remove(*inv, hd.inv)
			}
			if hd.io != "" {
				*io = remove(*io, hd.io)
			}
		} else {
			if hd.inv != "" {
				*inv = append(*inv, hd.inv)
			}
			if hd.io != "" {
				*io = append(*io, hd.io)
			}
		}
	}
	return m
}

// expected trace and result of one call: first added outermost, results travel back in reverse order
func (m model) expect(arg string) (tr []string, result string) {
	var layers []string
	layers = append(layers, m.cinv...)
	short := -1
	for i, n := range m.cinv {
		if n == "cinvSC" {
			short = i
			break
		}
	}
	if short >= 0 {
		layers = append([]string{}, m.cinv[:short+1]...)
	} else {
		layers = append(layers, m.cio...)
		layers = append(layers, m.sio...)
		layers = append(layers, m.sinv...)
	}
	for _, l := range layers {
		tr = append(tr, "enter "+l)
		if l == "cinvRW" {
			arg += "+rw"
		}
	}
	if short >= 0 {
		result = "short"
	} else {
		tr = append(tr, "fn "+arg)
		result = "hello " + arg
	}
	for i := len(layers) - 1; i >= 0; i-- {
		tr = append(tr, "leave "+layers[i])
		if layers[i] == "cinvRW" {
			result += "+wr"
		}
	}
	return
}

// ---- one real run of an operation sequence, with a call after every operation ----

var addrSeq int

func newPair() (*core.Client, *core.Service, mock.Server) {
	addrSeq++
	service := core.NewService()
	service.AddFunction(func(name string) string { rec("fn " + name); return "hello " + name }, "hello")
	server := mock.Server{Address: fmt.Sprintf("c15-%d", addrSeq)}
	if err := service.Bind(server); err != nil {
		panic(err)
	}
	client := core.NewClient("mock://" + server.Address)
	return client, service, server
}

func applyReal(client *core.Client, service *core.Service, o op) {
	idx := []int{o.a}
	if o.kind == "use2" {
		idx = []int{o.a, o.b}
	}
	var cs, ss []core.PluginHandler
	for _, i := range idx {
		if handlers[i].side == "c" {
			cs = append(cs, handlers[i].value())
		} else {
			ss = append(ss, handlers[i].value())
		}
	}
	if o.kind == "unuse" {
		if len(cs) > 0 {
			client.Unuse(cs...)
		}
		if len(ss) > 0 {
			service.Unuse(ss...)
		}
		return
	}
	if len(cs) > 0 {
		client.Use(cs...)
	}
	if len(ss) > 0 {
		service.Use(ss...)
	}
}

func call(client *core.Client) (tr []string, result string) {
	trace = nil
	r, err := client.Invoke("hello", []interface{}{"w"})
	if err != nil {
		result = "ERR " + err.Error()
	} else if len(r) > 0 {
		result = fmt.Sprint(r[0])
	}
	return trace, result
}

// runSeq replays ops on a fresh pair; a call follows every operation and is compared with the model.
func runSeq(ops []op, res *h.SeqResult, checkAll bool) model {
	var m model
	vs.Seq(vs.Config{}, func() {
		client, service, server := newPair()
		defer server.Close()
		for i, o := range ops {
			applyReal(client, service, o)
			m = m.apply(o)
			res.Transitions++
			if !checkAll && i < len(ops)-1 {
				continue
			}
			got, gr := call(client)
			want, wr := m.expect("w")
			res.Transitions++
			if strings.Join(got, ";") != strings.Join(want, ";") || gr != wr {
				sig := "onion|wrong-trace"
				if gr != wr && strings.Join(got, ";") == strings.Join(want, ";") {
					sig = "onion|wrong-result"
				}
				res.Violate(sig, fmt.Sprintf("after %v: call trace %v result %q, list model says %v result %q", ops[:i+1], got, gr, want, wr),
					map[string]interface{}{"kind": "sequence", "ops": fmt.Sprint(ops[:i+1])})
			}
		}
	})
	res.Traces++
	return m
}

func bfs(shard, nshards int, thorough bool) h.SeqResult {
	var res h.SeqResult
	ops := alphabet()
	depth := 5
	if thorough {
		depth = 6
	}
	// breadth-first over model states; a successor is built by replaying the shortest path on a fresh pair
	type node struct{ path []op }
	seen := map[string]bool{model{}.key(): true}
	frontier := []node{{}}
	ord := 0
	for d := 0; d < depth; d++ {
		var next []node
		for _, n := range frontier {
			for _, o := range ops {
				path := append(append([]op{}, n.path...), o)
				var m model
				for _, x := range path {
					m = m.apply(x)
				}
				ord++
				if ord%nshards == shard {
					runSeq(path, &res, false)
					if len(res.Samples) < 2 && ord%997 == shard {
						tr, r := m.expect("w")
						res.Samples = append(res.Samples, map[string]interface{}{"kind": "plugin op sequence", "ops": fmt.Sprint(path), "call_trace": tr, "result": r})
					}
				}
				if k := m.key(); !seen[k] {
					seen[k] = true
					next = append(next, node{path})
				}
			}
		}
		frontier = next
	}
	if shard == 0 {
		res.States = int64(len(seen))
	}
	res.Info = map[string]interface{}{"bfs_depth": fmt.Sprint(depth), "ops": fmt.Sprint(len(ops))}
	return res
}

// path independence (thorough: every sequence up to depth 4 without deduplication, a call after every op)
func allSeqs(shard, nshards int, thorough bool) h.SeqResult {
	var res h.SeqResult
	ops := alphabet()
	depth := 3
	if thorough {
		depth = 4
	}
	h.ForEachSeq(len(ops), depth, shard, nshards, func(seq []int) {
		path := make([]op, len(seq))
		for i, x := range seq {
			path[i] = ops[x]
		}
		runSeq(path, &res, true)
	})
	res.Info = map[string]interface{}{"all_sequences_depth": fmt.Sprint(depth)}
	return res
}

// ---- aliasing: handlers the property calls distinct but Unuse cannot tell apart ----

type inst struct{ name string }

func (p *inst) Handler(ctx context.Context, n string, args []interface{}, next core.NextInvokeHandler) ([]interface{}, error) {
	rec("enter " + p.name)
	r, err := next(ctx, n, args)
	rec("leave " + p.name)
	return r, err
}

// other is a plugin type of its own with the shape of inst.
type other struct{ name string }

func (p *other) Handler(ctx context.Context, n string, args []interface{}, next core.NextInvokeHandler) ([]interface{}, error) {
	rec("enter " + p.name)
	r, err := next(ctx, n, args)
	rec("leave " + p.name)
	return r, err
}

func aliasing(shard, nshards int, thorough bool) h.SeqResult {
	var res h.SeqResult
	if shard != 0 {
		return res
	}
	type variant struct {
		name string
		a, b core.PluginHandler
		ua   core.PluginHandler
	}
	i1, i2 := &inst{"inst1"}, &inst{"inst2"}
	f1, f2 := mkInv("clo1"), mkInv("clo2")
	o2 := &other{"other2"}
	vars := []variant{
		{"method-values-of-two-instances", i1.Handler, i2.Handler, i1.Handler},
		{"two-instances-of-one-plugin-type", i1, i2, i1},
		{"closures-of-one-function-literal", f1, f2, f1},
		{"plugin-objects-of-two-types", i1, o2, i1},
		{"plugin-object-that-was-never-installed", i2, i2, &inst{"absent"}},
		{"plugin-object-of-another-type-that-was-never-installed", o2, o2, &inst{"absent"}},
		{"closure-that-was-never-installed", f2, f2, mkInv("absent")},
	}
	for _, v := range vars {
		vs.Seq(vs.Config{}, func() {
			client, _, server := newPair()
			defer server.Close()
			client.Use(v.a, v.b)
			client.Unuse(v.ua)
			got, _ := call(client)
			res.Transitions += 3
			names := map[string]string{"method-values-of-two-instances": "inst2", "two-instances-of-one-plugin-type": "inst2", "closures-of-one-function-literal": "clo2",
				"plugin-objects-of-two-types": "other2", "plugin-object-that-was-never-installed": "inst2", "plugin-object-of-another-type-that-was-never-installed": "other2", "closure-that-was-never-installed": "clo2"}
			want := []string{"enter " + names[v.name], "fn w", "leave " + names[v.name]}
			if strings.Contains(v.name, "never-installed") {
				// a and b are one handler installed twice: it runs twice, the Unuse of the absent one changes nothing
				n := names[v.name]
				want = []string{"enter " + n, "enter " + n, "fn w", "leave " + n, "leave " + n}
			}
			if strings.Join(got, ";") != strings.Join(want, ";") {
				res.Violate("onion|unuse-removes-another-handler|"+v.name, fmt.Sprintf("Use(a, b); Unuse(a) with %s: the next call's trace is %v, expected %v (b is still installed)", v.name, got, want),
					map[string]interface{}{"kind": "aliasing", "variant": v.name})
			}
		})
		res.Traces++
	}
	return res
}

// ---- Use/Unuse racing with calls ----

func racing() h.Scenario {
	name := "onion/use-unuse-vs-calls"
	return h.Scenario{Name: name, Quick: 3, Thorough: 4, Run: func(ch vs.Chooser, tr bool) (*vs.Sched, h.Outcome) {
		var traces [][]string
		var results []string
		s := vs.Run(ch, vs.Config{Trace: tr}, func() {
			client, _, server := newPair()
			_ = server
			var wg vs.WaitGroup
			wg.Add(2)
			vs.GoFG("caller", func() {
				defer wg.Done()
				for k := 0; k < 2; k++ {
					t, r := call(client)
					traces = append(traces, t)
					results = append(results, r)
				}
			})
			vs.GoFG("admin", func() {
				defer wg.Done()
				client.Use(core.InvokeHandler(cinv1))
				client.Use(core.IOHandler(cio1))
				client.Unuse(core.InvokeHandler(cinv1))
			})
			wg.Wait()
		})
		var o h.Outcome
		var keys []string
		for i, t := range traces {
			joined := strings.Join(t, ";")
			keys = append(keys, joined)
			ok := false
			for _, inv := range [][]string{nil, {"cinv1"}} {
				for _, io := range [][]string{nil, {"cio1"}} {
					want, _ := model{cinv: inv, cio: io}.expect("w")
					if strings.Join(want, ";") == joined {
						ok = true
					}
				}
			}
			if !ok {
				o.Viol = append(o.Viol, h.V{Sig: "onion|race|corrupt-chain", What: fmt.Sprintf("call %d passed through %v, which is the onion of no handler list that existed during the call", i, t)})
			}
			if results[i] != "hello w" {
				o.Viol = append(o.Viol, h.V{Sig: "onion|race|wrong-result", What: fmt.Sprintf("call %d returned %q", i, results[i])})
			}
		}
		sort.Strings(keys)
		o.Key = strings.Join(keys, " || ")
		return s, o
	}}
}

// inflight: a call is inside its first handler (the gate, installed from the start) when another thread adds
// a handler to the chain the call has not reached yet (client: the IO chain, service: the invoke chain). The
// call was in flight when the handler was added: it must not pass through it - in any schedule.
func inflight(side string) h.Scenario {
	name := "onion/use-while-a-call-is-in-flight/" + side
	return h.Scenario{Name: name, Quick: 3, Thorough: 4, Run: func(ch vs.Chooser, tr bool) (*vs.Sched, h.Outcome) {
		var got []string
		var result string
		s := vs.Run(ch, vs.Config{Trace: tr}, func() {
			client, service, server := newPair()
			_ = server
			entered := make(chan struct{})
			added := make(chan struct{})
			if side == "client" {
				client.Use(core.InvokeHandler(func(ctx context.Context, n string, args []interface{}, next core.NextInvokeHandler) ([]interface{}, error) {
					rec("enter gate")
					vs.Send(entered, struct{}{})
					vs.Recv(added) // the call stays here until the late handler has been added
					r, err := next(ctx, n, args)
					rec("leave gate")
					return r, err
				}))
			} else {
				service.Use(core.IOHandler(func(ctx context.Context, req []byte, next core.NextIOHandler) ([]byte, error) {
					rec("enter gate")
					vs.Send(entered, struct{}{})
					vs.Recv(added)
					r, err := next(ctx, req)
					rec("leave gate")
					return r, err
				}))
			}
			var wg vs.WaitGroup
			wg.Add(2)
			vs.GoFG("caller", func() {
				defer wg.Done()
				got, result = call(client)
			})
			vs.GoFG("admin", func() {
				defer wg.Done()
				vs.Recv(entered)
				if side == "client" {
					client.Use(core.IOHandler(cio1))
				} else {
					service.Use(core.InvokeHandler(sinv1))
				}
				vs.Send(added, struct{}{})
			})
			wg.Wait()
		})
		var o h.Outcome
		o.Key = strings.Join(got, ";")
		if len(s.Hangs) == 0 && !s.Pruned && s.Aborted == "" {
			want := []string{"enter gate", "fn w", "leave gate"}
			if strings.Join(got, ";") != strings.Join(want, ";") {
				o.Viol = append(o.Viol, h.V{Sig: "onion|race|handler-added-during-a-call-runs-in-that-call|" + side, What: fmt.Sprintf("%s: the call was inside its first handler when the handler was added; it passed through %v, expected %v", side, got, want)})
			}
			if result != "hello w" {
				o.Viol = append(o.Viol, h.V{Sig: "onion|race|wrong-result", What: fmt.Sprintf("the call returned %q", result)})
			}
		}
		return s, o
	}}
}

// torn: a plugin with an invoke half and an IO half is added (and removed again) while calls run: a call passes
// through both halves or through neither.
func torn(side string) h.Scenario {
	name := "onion/two-sided-plugin-vs-calls/" + side
	return h.Scenario{Name: name, Quick: 3, Thorough: 4, Run: func(ch vs.Chooser, tr bool) (*vs.Sched, h.Outcome) {
		var traces [][]string
		s := vs.Run(ch, vs.Config{Trace: tr}, func() {
			client, service, server := newPair()
			_ = server
			p := &twoSided{"p"}
			var wg vs.WaitGroup
			wg.Add(2)
			vs.GoFG("caller", func() {
				defer wg.Done()
				for k := 0; k < 2; k++ {
					t, _ := call(client)
					traces = append(traces, t)
				}
			})
			vs.GoFG("admin", func() {
				defer wg.Done()
				if side == "client" {
					client.Use(p)
					client.Unuse(p)
				} else {
					service.Use(p)
					service.Unuse(p)
				}
			})
			wg.Wait()
		})
		var o h.Outcome
		var keys []string
		for i, t := range traces {
			joined := strings.Join(t, ";")
			keys = append(keys, joined)
			if strings.Contains(joined, "enter p.inv") != strings.Contains(joined, "enter p.io") {
				o.Viol = append(o.Viol, h.V{Sig: "onion|race|half-of-a-two-sided-plugin|" + side, What: fmt.Sprintf("%s: call %d passed through %v: one half of the plugin only", side, i, t)})
			}
		}
		sort.Strings(keys)
		o.Key = strings.Join(keys, " || ")
		return s, o
	}}
}

func main() {
	mock.RegisterHandler()
	mock.RegisterTransport()
	h.Main(ID, []h.Scenario{racing(), inflight("client"), inflight("service"), torn("client"), torn("service")}, nil,
		h.SeqPart{Name: "bfs", Shards: 32, Run: bfs},
		h.SeqPart{Name: "allseqs", Shards: 32, Run: allSeqs},
		h.SeqPart{Name: "aliasing", Shards: 1, Run: aliasing})
}
