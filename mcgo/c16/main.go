// C16 — cluster plugin. Every outcome script x retry budget x idempotent flag/override x server count x
// mode on the real plugin (virtual time makes back-off sleeps free) against a reference retry loop;
// Forking and Broadcast under schedule exploration with every outcome vector.
//go:debug panicnil=1
package main

import (
	"context"
	"errors"
	"fmt"
	"sort"
	"strings"
	"time"

	"github.com/hprose/hprose-golang/v3/rpc/core"
	"github.com/hprose/hprose-golang/v3/rpc/plugins/cluster"
	"verif/mcgo/h"
	"verif/vs"
)

const ID = "C16"

var errSrv = errors.New("server error")

func urlsFor(n int) []string {
	out := make([]string, n)
	for i := range out {
		out[i] = fmt.Sprintf("mock://s%d", i)
	}
	return out
}

type attempt struct {
	url string
	out byte
}

type cfgT struct {
	mode     string // failover | failtry | failfast
	retry    int
	idemDef  bool   // plugin default
	override string // "" | "idem=true" | "idem=false" | "retry=1"
	servers  int
}

func (c cfgT) String() string {
	return fmt.Sprintf("%s/retry=%d/idempotent=%v/override=%q/servers=%d", c.mode, c.retry, c.idemDef, c.override, c.servers)
}

func makeCluster(c cfgT) *cluster.Cluster {
	switch c.mode {
	case "failover":
		return cluster.New(cluster.FailoverConfig(cluster.WithRetry(c.retry), cluster.WithIdempotent(c.idemDef)))
	case "failtry":
		return cluster.New(cluster.FailtryConfig(cluster.WithRetry(c.retry), cluster.WithIdempotent(c.idemDef)))
	}
	return cluster.New(cluster.FailfastConfig(func(context.Context) {}))
}

// runScript makes up to three consecutive calls on one plugin instance; the outcome script is consumed by
// successive attempts across the calls (exhausted script: every further attempt succeeds).
func runScript(c cfgT, script string, res *h.SeqResult) {
	type callLog struct {
		attempts []attempt
		resp     string
		err      error
	}
	var calls []callLog
	vs.Seq(vs.Config{}, func() {
		client := core.NewClient(urlsFor(c.servers)...)
		cl := makeCluster(c)
		pos := 0
		for k := 0; k < 3 && (k == 0 || pos < len(script)); k++ {
			var lg callLog
			cc := core.NewClientContext()
			cc.Init(client)
			switch c.override {
			case "idem=true":
				cc.Items().Set("idempotent", true)
			case "idem=false":
				cc.Items().Set("idempotent", false)
			case "retry=1":
				cc.Items().Set("retry", 1)
			}
			ctx := core.WithContext(context.Background(), cc)
			next := func(ctx context.Context, request []byte) ([]byte, error) {
				out := byte('S')
				if pos < len(script) {
					out = script[pos]
				}
				pos++
				u := core.GetClientContext(ctx).URL.String()
				lg.attempts = append(lg.attempts, attempt{u, out})
				res.Transitions++
				switch out {
				case 'E':
					return nil, errSrv
				case 'P':
					panic("server panic")
				case 'N':
					panic(nil)
				}
				return []byte(fmt.Sprintf("resp#%d@%s", len(lg.attempts), u)), nil
			}
			func() {
				panicking := true
				defer func() {
					if r := recover(); r != nil || panicking {
						lg.err = fmt.Errorf("ESCAPED PANIC: %v", r)
					}
				}()
				var r []byte
				r, lg.err = cl.Handler(ctx, []byte("req"), next)
				lg.resp = string(r)
				panicking = false
			}()
			calls = append(calls, lg)
		}
	})
	res.Traces++
	// reference retry loop
	idem := c.idemDef
	retry := c.retry
	switch c.override {
	case "idem=true":
		idem = true
	case "idem=false":
		idem = false
	case "retry=1":
		retry = 1
	}
	if c.mode == "failfast" {
		idem, retry = false, 0
	}
	pos := 0
	rep := map[string]interface{}{"kind": "script", "config": c.String(), "script": script}
	for k, lg := range calls {
		where := fmt.Sprintf("%s script=%q call #%d attempts=%v", c, script, k, fmtAttempts(lg.attempts))
		max := 1
		if idem {
			max = retry + 1
		}
		// expected attempts: until the first S or the budget
		want := 0
		okAt := -1
		for want < max {
			out := byte('S')
			if pos+want < len(script) {
				out = script[pos+want]
			}
			want++
			if out == 'S' {
				okAt = want
				break
			}
		}
		pos += len(lg.attempts)
		n := len(lg.attempts)
		if !idem && n > 1 {
			res.Violate("cluster|non-idempotent-call-sent-twice", where, rep)
		}
		if n > max {
			res.Violate("cluster|retry-budget-exceeded", where+fmt.Sprintf(": %d attempts, budget retry+1=%d", n, max), rep)
		}
		if n != want {
			res.Violate("cluster|wrong-number-of-attempts", where+fmt.Sprintf(": %d attempts, reference loop makes %d", n, want), rep)
			continue
		}
		last := lg.attempts[n-1]
		if okAt > 0 {
			wantResp := fmt.Sprintf("resp#%d@%s", okAt, last.url)
			if lg.err != nil || lg.resp != wantResp {
				res.Violate("cluster|success-not-returned", where+fmt.Sprintf(": got %q err %v, want the successful attempt's response %q", lg.resp, lg.err, wantResp), rep)
			}
		} else {
			switch last.out {
			case 'E':
				if lg.err != errSrv {
					res.Violate("cluster|last-error-not-returned", where+fmt.Sprintf(": got err %v", lg.err), rep)
				}
			case 'P', 'N':
				if _, ok := lg.err.(*core.PanicError); !ok {
					res.Violate("cluster|last-error-not-returned", where+fmt.Sprintf(": got err %T %v, want the panic as an error", lg.err, lg.err), rep)
				}
			}
		}
		if c.mode == "failover" && c.servers >= 2 {
			for i := 1; i < n; i++ {
				if lg.attempts[i].url == lg.attempts[i-1].url {
					res.Violate("cluster|failover-retries-the-failed-server", where+fmt.Sprintf(": attempt %d goes to %s, the server that just failed", i+1, lg.attempts[i].url), rep)
					break
				}
			}
		}
		if c.mode != "failover" || c.servers == 1 {
			for i := 0; i < n; i++ {
				if lg.attempts[i].url != "mock://s0" {
					res.Violate("cluster|unexpected-server", where, rep)
					break
				}
			}
		}
		for _, a := range lg.attempts {
			if !strings.HasPrefix(a.url, "mock://s") {
				res.Violate("cluster|not-a-configured-server", where, rep)
			}
		}
	}
	if res.Traces%7919 == 1 {
		var cs []string
		for _, lg := range calls {
			cs = append(cs, fmtAttempts(lg.attempts))
		}
		res.Samples = append(res.Samples, map[string]interface{}{"kind": "cluster script", "config": c.String(), "script": script, "calls": cs})
	}
}

func fmtAttempts(as []attempt) string {
	var p []string
	for _, a := range as {
		p = append(p, fmt.Sprintf("%s:%c", strings.TrimPrefix(a.url, "mock://"), a.out))
	}
	return "[" + strings.Join(p, " ") + "]"
}

func scripts(shard, nshards int, thorough bool) h.SeqResult {
	var res h.SeqResult
	maxLen := 7
	if thorough {
		maxLen = 9
	}
	var cfgs []cfgT
	for _, mode := range []string{"failover", "failtry", "failfast"} {
		for retry := 0; retry <= 3; retry++ {
			for _, idem := range []bool{false, true} {
				for _, ov := range []string{"", "idem=true", "idem=false", "retry=1"} {
					for servers := 1; servers <= 3; servers++ {
						if mode == "failfast" && (retry > 0 || ov == "retry=1") {
							continue
						}
						cfgs = append(cfgs, cfgT{mode, retry, idem, ov, servers})
					}
				}
			}
		}
	}
	alpha := "SEPN" // N: the attempt panics with a nil value (go:debug panicnil=1: recover returns nil for it)
	n := 0
	h.ForEachSeq(4, maxLen, shard, nshards, func(seq []int) {
		b := make([]byte, len(seq))
		for i, x := range seq {
			b[i] = alpha[x]
		}
		for _, c := range cfgs {
			runScript(c, string(b), &res)
		}
		n++
	})
	res.States = int64(n)
	res.Info = map[string]interface{}{"script_max_len": fmt.Sprint(maxLen), "configs": fmt.Sprint(len(cfgs))}
	return res
}

// ---- Forking and Broadcast: one thread per server, every outcome vector, all schedules ----

func forking(n int) h.Scenario {
	name := fmt.Sprintf("forking/servers=%d", n)
	return h.Scenario{Name: name, Quick: 3, Thorough: 5, Run: func(ch vs.Chooser, trace bool) (*vs.Sched, h.Outcome) {
		outs := make([]int, n)
		calls := make([]int, n)
		var resp string
		var err error
		returned := false
		s := vs.Run(ch, vs.Config{Trace: trace}, func() {
			client := core.NewClient(urlsFor(n)...)
			for i := range outs {
				outs[i] = vs.Choose(4, "server-outcome")
			}
			cc := core.NewClientContext()
			cc.Init(client)
			ctx := core.WithContext(context.Background(), cc)
			var r []byte
			r, err = cluster.Forking(ctx, []byte("req"), func(ctx context.Context, request []byte) ([]byte, error) {
				var i int
				fmt.Sscanf(core.GetClientContext(ctx).URL.String(), "mock://s%d", &i)
				calls[i]++
				vs.Point("server-working")
				switch outs[i] {
				case 1:
					return nil, errSrv
				case 2:
					panic("server panic")
				case 3:
					panic(nil)
				}
				return []byte(fmt.Sprintf("resp@s%d", i)), nil
			})
			resp = string(r)
			returned = true
		})
		var o h.Outcome
		o.Key = fmt.Sprintf("outs=%v resp=%q err=%v", outs, resp, err != nil)
		if !returned {
			return s, o // the generic hang oracle reports it
		}
		anyOK := false
		for _, x := range outs {
			if x == 0 {
				anyOK = true
			}
		}
		if anyOK {
			ok := err == nil && strings.HasPrefix(resp, "resp@s")
			if ok {
				var i int
				fmt.Sscanf(resp, "resp@s%d", &i)
				ok = i >= 0 && i < n && outs[i] == 0
			}
			if !ok {
				o.Viol = append(o.Viol, h.V{Sig: "forking|success-not-returned", What: fmt.Sprintf("%s outcomes %v (0=ok 1=error 2=panic 3=panic(nil)): returned %q err %v although a server succeeded", name, outs, resp, err)})
			}
		} else if err == nil {
			o.Viol = append(o.Viol, h.V{Sig: "forking|success-without-successful-server", What: fmt.Sprintf("%s outcomes %v: returned %q without error although every server failed", name, outs, resp)})
		}
		for i, c := range calls {
			if c > 1 {
				o.Viol = append(o.Viol, h.V{Sig: "forking|server-called-twice", What: fmt.Sprintf("%s: server %d called %d times", name, i, c)})
			}
		}
		return s, o
	}}
}

func broadcast(n int) h.Scenario {
	name := fmt.Sprintf("broadcast/servers=%d", n)
	return h.Scenario{Name: name, Quick: 2, Thorough: 3, Run: func(ch vs.Chooser, trace bool) (*vs.Sched, h.Outcome) {
		outs := make([]int, n)
		calls := make([]int, n)
		finished := make([]bool, n)
		var result []interface{}
		var err error
		returned := false
		allFinishedAtReturn := true
		s := vs.Run(ch, vs.Config{Trace: trace}, func() {
			client := core.NewClient(urlsFor(n)...)
			for i := range outs {
				outs[i] = vs.Choose(4, "server-outcome")
			}
			cc := core.NewClientContext()
			cc.Init(client)
			ctx := core.WithContext(context.Background(), cc)
			result, err = cluster.Broadcast(ctx, "f", nil, func(ctx context.Context, name string, args []interface{}) ([]interface{}, error) {
				var i int
				fmt.Sscanf(core.GetClientContext(ctx).URL.String(), "mock://s%d", &i)
				calls[i]++
				vs.Point("server-working")
				defer func() { finished[i] = true }()
				switch outs[i] {
				case 1:
					return nil, errSrv
				case 2:
					panic("server panic")
				case 3:
					panic(nil)
				}
				return []interface{}{fmt.Sprintf("r@s%d", i)}, nil
			})
			returned = true
			for _, f := range finished {
				if !f {
					allFinishedAtReturn = false
				}
			}
		})
		var o h.Outcome
		o.Key = fmt.Sprintf("outs=%v err=%v", outs, err != nil)
		if !returned {
			return s, o
		}
		anyFail := false
		for i, c := range calls {
			if c != 1 {
				o.Viol = append(o.Viol, h.V{Sig: "broadcast|not-exactly-once", What: fmt.Sprintf("%s: server %d invoked %d times", name, i, c)})
			}
			if outs[i] != 0 {
				anyFail = true
			} else if len(result) != n || fmt.Sprint(result[i]) != fmt.Sprintf("[r@s%d]", i) {
				o.Viol = append(o.Viol, h.V{Sig: "broadcast|wrong-result-slot", What: fmt.Sprintf("%s outcomes %v: result %v", name, outs, result)})
			}
		}
		if !allFinishedAtReturn {
			o.Viol = append(o.Viol, h.V{Sig: "broadcast|returned-before-all-servers-finished", What: name})
		}
		if anyFail != (err != nil) {
			o.Viol = append(o.Viol, h.V{Sig: "broadcast|error-mismatch", What: fmt.Sprintf("%s outcomes %v: err %v", name, outs, err)})
		}
		return s, o
	}}
}

// two calls racing on one failover plugin instance (the rotation index is shared)
func failoverRace() h.Scenario {
	name := "failover/concurrent-calls=2/servers=2"
	return h.Scenario{Name: name, Quick: 3, Thorough: 4, Run: func(ch vs.Chooser, trace bool) (*vs.Sched, h.Outcome) {
		logs := make([][]string, 2)
		errs := make([]error, 2)
		s := vs.Run(ch, vs.Config{Trace: trace}, func() {
			client := core.NewClient(urlsFor(2)...)
			cl := cluster.New(cluster.FailoverConfig(cluster.WithRetry(2), cluster.WithIdempotent(true)))
			var wg vs.WaitGroup
			for k := 0; k < 2; k++ {
				k := k
				wg.Add(1)
				vs.GoFG(fmt.Sprintf("call%d", k), func() {
					defer wg.Done()
					cc := core.NewClientContext()
					cc.Init(client)
					ctx := core.WithContext(context.Background(), cc)
					_, errs[k] = cl.Handler(ctx, []byte("r"), func(ctx context.Context, request []byte) ([]byte, error) {
						u := core.GetClientContext(ctx).URL.String()
						logs[k] = append(logs[k], u)
						vs.Point("server-working")
						if len(logs[k]) <= 1+k { // call0 fails once, call1 fails twice
							return nil, errSrv
						}
						return []byte("ok"), nil
					})
				})
			}
			wg.Wait()
		})
		var o h.Outcome
		o.Key = fmt.Sprint(logs)
		if len(s.Hangs) == 0 && !s.Pruned {
			for k := range logs {
				if errs[k] != nil || len(logs[k]) != 2+k {
					o.Viol = append(o.Viol, h.V{Sig: "failover|race|wrong-attempts", What: fmt.Sprintf("%s: call %d attempts %v err %v", name, k, logs[k], errs[k])})
				}
				for i := 1; i < len(logs[k]); i++ {
					if logs[k][i] == logs[k][i-1] {
						o.Viol = append(o.Viol, h.V{Sig: "failover|race|retries-the-failed-server", What: fmt.Sprintf("%s: call %d attempts %v: attempt %d goes to the server that just failed", name, k, logs[k], i+1)})
						break
					}
				}
				for _, u := range logs[k] {
					if u != "mock://s0" && u != "mock://s1" {
						o.Viol = append(o.Viol, h.V{Sig: "failover|race|not-a-configured-server", What: fmt.Sprintf("%s: call %d went to %q", name, k, u)})
					}
				}
			}
		}
		return s, o
	}}
}

var _ = sort.Strings
var _ = time.Second

func main() {
	scen := []h.Scenario{forking(2), forking(3), broadcast(2), broadcast(3), failoverRace()}
	h.Main(ID, scen, nil, h.SeqPart{Name: "scripts", Shards: 48, Run: scripts})
}
