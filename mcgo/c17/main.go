// C17 — limiters. Controlled-scheduler exploration of the real ConcurrentLimiter and RateLimiter
// (rewritten copy) plus exhaustive sequential histories of the rate limiter under the virtual clock
// against a reference token bucket.
package main

import (
	"context"
	"errors"
	"fmt"
	"math"
	"sort"
	"time"

	"github.com/hprose/hprose-golang/v3/rpc/core"
	"github.com/hprose/hprose-golang/v3/rpc/plugins/limiter"
	"verif/lib/report"
	"verif/mcgo/h"
	"verif/vs"
)

const ID = "C17"

// ---------- concurrent limiter ----------

func climit(limit, n int, timeout time.Duration, heldRelease bool) h.Scenario {
	name := fmt.Sprintf("climit/limit=%d/requests=%d/timeout=%v", limit, n, timeout)
	return h.Scenario{Name: name, Quick: 3, Thorough: 5, Run: func(ch vs.Chooser, trace bool) (*vs.Sched, h.Outcome) {
		var inflight, maxInflight int
		entered := make([]bool, n)
		results := make([]string, n)
		var final int
		cfg := vs.Config{Trace: trace}
		if timeout > 0 {
			cfg.EagerHorizon = timeout // the wait time-out may strike at any scheduling point
		}
		s := vs.Run(ch, cfg, func() {
			var l *limiter.ConcurrentLimiter
			if timeout > 0 {
				l = limiter.NewConcurrentLimiter(limit, timeout)
			} else {
				l = limiter.NewConcurrentLimiter(limit)
			}
			var wg vs.WaitGroup
			for i := 0; i < n; i++ {
				i := i
				wg.Add(1)
				vs.GoFG(fmt.Sprintf("req%d", i), func() {
					defer wg.Done()
					defer func() {
						if r := recover(); r != nil {
							results[i] = "panic"
						}
					}()
					next := func(ctx context.Context, request []byte) ([]byte, error) {
						entered[i] = true
						inflight++
						if inflight > maxInflight {
							maxInflight = inflight
						}
						vs.Point("inside-next") // the request is executing: anything may happen meanwhile
						defer func() { inflight-- }()
						switch vs.Choose(3, "service-outcome") {
						case 1:
							return nil, errors.New("service error")
						case 2:
							panic("service panic")
						}
						return []byte("ok"), nil
					}
					_, err := l.Handler(context.Background(), []byte("r"), next)
					switch {
					case err == nil:
						results[i] = "ok"
					case err == core.ErrTimeout:
						results[i] = "timeout"
					default:
						results[i] = "error"
					}
				})
			}
			wg.Wait()
			final = l.ConcurrentRequests()
		})
		var o h.Outcome
		rs := append([]string{}, results...)
		sort.Strings(rs)
		o.Key = fmt.Sprintf("results=%v max-inflight=%d final=%d", rs, maxInflight, final)
		if maxInflight > limit {
			o.Viol = append(o.Viol, h.V{Sig: "climit|over-limit", What: fmt.Sprintf("%s: %d requests executing beyond a limiter of %d", name, maxInflight, limit)})
		}
		for i := range results {
			if results[i] == "timeout" && entered[i] {
				o.Viol = append(o.Viol, h.V{Sig: "climit|timeout-but-executed", What: name + ": a request that got the time-out error was executed"})
			}
			if results[i] == "" && len(s.Hangs) == 0 && !s.Pruned && s.Aborted == "" {
				o.Viol = append(o.Viol, h.V{Sig: "climit|no-result", What: name + ": a request thread ended without a result"})
			}
		}
		if len(s.Hangs) == 0 && !s.Pruned && s.Aborted == "" && final != 0 {
			o.Viol = append(o.Viol, h.V{Sig: "climit|permit-lost", What: fmt.Sprintf("%s: ConcurrentRequests()=%d after all requests ended (results %v)", name, final, results)})
		}
		if timeout == 0 {
			for _, r := range results {
				if r == "timeout" {
					o.Viol = append(o.Viol, h.V{Sig: "climit|timeout-without-timeout", What: name + ": time-out error although no time-out is configured"})
				}
			}
		}
		return s, o
	}}
}

// climitGivesUp: the limiter (limit 1, no time-out of its own) is full - its one request stays inside until the
// queued one has returned - and the queued request's caller gives up (its context is cancelled). The queued
// request returns with an error, is never executed, and no permit is lost.
func climitGivesUp() h.Scenario {
	name := "climit/limit=1/queued-caller-gives-up"
	return h.Scenario{Name: name, Quick: 3, Thorough: 5, Run: func(ch vs.Chooser, trace bool) (*vs.Sched, h.Outcome) {
		var queuedErr error
		queuedRan, queuedReturned := false, false
		final := -1
		s := vs.Run(ch, vs.Config{Trace: trace}, func() {
			l := limiter.NewConcurrentLimiter(1)
			inside := make(chan struct{})
			gone := make(chan struct{})
			var wg vs.WaitGroup
			wg.Add(3)
			vs.GoFG("holder", func() {
				defer wg.Done()
				l.Handler(context.Background(), []byte("r"), func(ctx context.Context, request []byte) ([]byte, error) {
					vs.Send(inside, struct{}{})
					vs.Recv(gone) // executing until the queued request has returned
					return []byte("ok"), nil
				})
			})
			ctx, cancel := vs.WithCancel(context.Background())
			vs.GoFG("queued", func() {
				defer wg.Done()
				vs.Recv(inside) // the limiter is full now
				_, queuedErr = l.Handler(ctx, []byte("r"), func(ctx context.Context, request []byte) ([]byte, error) {
					queuedRan = true
					return []byte("ok"), nil
				})
				queuedReturned = true
				vs.Send(gone, struct{}{})
			})
			vs.GoFG("caller-gives-up", func() {
				defer wg.Done()
				cancel()
			})
			wg.Wait()
			final = l.ConcurrentRequests()
		})
		var o h.Outcome
		o.Key = fmt.Sprintf("returned=%v ran=%v err=%v final=%d", queuedReturned, queuedRan, queuedErr != nil, final)
		if len(s.Hangs) == 0 && !s.Pruned && s.Aborted == "" {
			switch {
			case queuedRan:
				o.Viol = append(o.Viol, h.V{Sig: "climit|over-limit", What: name + ": the queued request was executed while the limiter's one permit was held"})
			case queuedErr == nil:
				o.Viol = append(o.Viol, h.V{Sig: "climit|gave-up-without-error", What: name + ": the queued request returned without an error and without having run"})
			case final != 0:
				o.Viol = append(o.Viol, h.V{Sig: "climit|permit-lost", What: fmt.Sprintf("%s: ConcurrentRequests()=%d after both requests ended", name, final)})
			}
		}
		return s, o
	}}
}

// ---------- rate limiter: reference model ----------

const unit = int64(time.Second) // 1 permit per second: interval = 1e9 ns, all instants are multiples of 0.5 s (exact in float64)

type bucket struct {
	next    int64
	burst   float64
	timeout int64
}

// acquire returns (admission instant, timedOut)
func (b *bucket) acquire(now int64, k int) (int64, bool) {
	last := b.next
	if d := last - now; b.timeout > 0 && d > b.timeout {
		return now, true // turned away: nothing is taken from the bucket
	}
	p := float64(now-last)/float64(unit) - float64(k)
	if p > b.burst {
		p = b.burst
	}
	b.next = now - int64(p*float64(unit))
	if last <= now {
		return now, false
	}
	return last, false
}

type rop struct {
	adv    int64 // advance the clock by this much (0 = none) ...
	k      int   // ... then acquire k permits (0 = no acquire)
	cancel int64 // the caller's context ends this long after the acquire began (0 = never)
}

var ropAlphabet = []rop{{0, 1, 0}, {0, 2, 0}, {unit / 2, 0, 0}, {unit, 0, 0}, {3 * unit, 0, 0}, {0, 1, unit / 4}, {0, 2, 3 * unit / 4}} // the callers give up at instants no admission can fall on: no ties
var burstAlphabet = []float64{0, 1, 2, math.Inf(1)}
var rtimeoutAlphabet = []int64{0, unit, 3 * unit}

type adm struct {
	at      int64
	k       int
	timeout bool
	gaveUp  bool // the caller's context ended before the permits were due: not admitted
	tie     bool // (model only) the permits fall due at the very instant the caller gives up: either outcome is right
}

// sameHistory compares an implementation history with the model's; at a tie both outcomes are accepted.
func sameHistory(impl, model []adm) bool {
	if len(impl) != len(model) {
		return false
	}
	for i := range impl {
		a, m := impl[i], model[i]
		if a.at != m.at || a.k != m.k || a.timeout != m.timeout || (a.gaveUp != m.gaveUp && !m.tie) {
			return false
		}
	}
	return true
}

func runRateSeq(burst float64, timeout int64, seq []rop) (impl, model []adm) {
	vs.Seq(vs.Config{}, func() {
		opts := []limiter.Option{limiter.WithTimeout(time.Duration(timeout))}
		if !math.IsInf(burst, 1) {
			opts = append(opts, limiter.WithMaxPermits(burst))
		}
		l := limiter.NewRateLimiter(1, opts...)
		m := &bucket{next: vs.Now().UnixNano(), burst: burst, timeout: timeout}
		base := vs.Now().UnixNano()
		for _, op := range seq {
			if op.adv > 0 {
				vs.Sleep(time.Duration(op.adv))
			}
			if op.k > 0 {
				now := vs.Now().UnixNano()
				before := m.next
				at, to := m.acquire(now, op.k)
				ctx := context.Background()
				gaveUp, tie := false, false
				if op.cancel > 0 {
					var cancel context.CancelFunc
					ctx, cancel = vs.WithTimeout(ctx, time.Duration(op.cancel))
					defer cancel()
					if !to && at > now+op.cancel {
						// the permits are due after the caller's deadline: turned away at once, nothing is taken
						at, gaveUp = now, true
						m.next = before
					}
					tie = !to && at == now+op.cancel
				}
				model = append(model, adm{at - base, op.k, to, gaveUp, tie})
				err := l.Acquire(ctx, op.k)
				impl = append(impl, adm{vs.Now().UnixNano() - base, op.k, err == core.ErrTimeout, err != nil && err != core.ErrTimeout && (ctx.Err() != nil || err == context.DeadlineExceeded), false})
				if err != nil && err != core.ErrTimeout && err != context.DeadlineExceeded && ctx.Err() == nil {
					impl[len(impl)-1].at = -1
				}
			}
		}
	})
	return
}

// envelopeExcess computes, over all closed intervals [a_i, a_j] between admissions, the largest value of
// (permits admitted in the interval) - (burst + rate * (a_j - a_i)). With inner=true the first and the
// last request of the interval are not counted (see the comment at the call site).
func envelopeExcess(burst float64, h []adm, inner bool) float64 {
	var as []adm
	for _, a := range h {
		if !a.timeout && !a.gaveUp {
			as = append(as, a)
		}
	}
	sort.SliceStable(as, func(i, j int) bool { return as[i].at < as[j].at })
	worst := math.Inf(-1)
	for i := range as {
		sum := 0
		for j := i; j < len(as); j++ {
			sum += as[j].k
			x := sum
			if inner {
				x -= as[j].k
				if j > i {
					x -= as[i].k
				}
			}
			e := float64(x) - burst - float64(as[j].at-as[i].at)/float64(unit)
			if e > worst {
				worst = e
			}
		}
	}
	return worst
}

func rateSequential(run *report.Run) (states, transitions, traces int64, samples []interface{}) {
	depth := 5
	if run.Thorough() {
		depth = 7
	}
	seenStates := map[string]bool{}
	var seq []rop
	var rec func(d int)
	n := int64(0)
	rec = func(d int) {
		if len(seq) > 0 {
			for _, burst := range burstAlphabet {
				for _, to := range rtimeoutAlphabet {
					impl, model := runRateSeq(burst, to, seq)
					traces++
					transitions += int64(len(seq))
					n++
					seenStates[fmt.Sprint(burst, to, model)] = true
					if !sameHistory(impl, model) {
						run.Violate(ID+"|rate|sequential-differs-from-token-bucket", fmt.Sprintf("burst=%v timeout=%v ops=%v: implementation %v, reference %v (entries: admission instant ns, permits, timed out)", burst, to, seq, impl, model),
							map[string]interface{}{"kind": "rate-seq", "burst": fmt.Sprint(burst), "timeout": to, "ops": fmt.Sprint(seq)})
					}
					if !math.IsInf(burst, 1) {
						// The limiter is a "pay later" bucket (as Guava's): a request is admitted as soon as the
						// bucket is not in debt, whatever its size, and the debt delays the next request; the cap
						// (burst) is applied after the request's own permits have been taken. What this guarantees
						// is the envelope with the two boundary requests of the interval left out: enforced.
						if e := envelopeExcess(burst, impl, true); e > 1e-9 {
							run.Violate(ID+"|rate|envelope-exceeded", fmt.Sprintf("burst=%v timeout=%v ops=%v: admissions %v: permits admitted strictly between two admissions exceed burst + rate*elapsed by %.1f", burst, to, seq, impl, e),
								map[string]interface{}{"kind": "rate-seq", "burst": fmt.Sprint(burst), "timeout": to, "ops": fmt.Sprint(seq)})
						}
						// The property's literal envelope counts the boundary requests too.
						if e := envelopeExcess(burst, impl, false); e > 1e-9 {
							run.Violate(ID+"|rate|envelope-literal|boundary-requests-counted", fmt.Sprintf("burst=%v timeout=%v ops=%v: admissions %v exceed burst + rate*elapsed by %.1f permits over a closed interval (the first and last request of the interval are admitted on credit)", burst, to, seq, impl, e),
								map[string]interface{}{"kind": "rate-seq", "burst": fmt.Sprint(burst), "timeout": to, "ops": fmt.Sprint(seq)})
						}
					}
					for i, a := range impl {
						// a caller is rejected only when the wait it would need exceeds the configured timeout
						if a.timeout && (to == 0 || !model[i].timeout) {
							run.Violate(ID+"|rate|spurious-timeout", fmt.Sprintf("burst=%v timeout=%v ops=%v: rejected although the needed wait does not exceed the timeout", burst, to, seq), nil)
						}
					}
					if n%9973 == 1 {
						samples = append(samples, map[string]interface{}{"kind": "rate-limiter history", "burst": fmt.Sprint(burst), "timeout_ns": to, "ops(adv_ns,permits)": fmt.Sprint(seq), "admissions(at_ns,permits,timedout)": fmt.Sprint(impl)})
					}
				}
			}
		}
		if d == depth {
			return
		}
		for _, op := range ropAlphabet {
			seq = append(seq, op)
			rec(d + 1)
			seq = seq[:len(seq)-1]
		}
	}
	rec(0)
	run.Set("rate_sequential_histories", n)
	run.Set("rate_sequential_depth", depth)
	return int64(len(seenStates)), transitions, traces, samples
}

// ---------- rate limiter: concurrent acquirers ----------

func rateConcurrent(n int, burst float64, idle time.Duration) h.Scenario {
	name := fmt.Sprintf("rate/concurrent=%d/burst=%v/idle=%v", n, burst, idle)
	return h.Scenario{Name: name, Quick: 4, Thorough: 8, Run: func(ch vs.Chooser, trace bool) (*vs.Sched, h.Outcome) {
		admitted := make([]int64, n)
		var base int64
		s := vs.Run(ch, vs.Config{Trace: trace}, func() {
			l := limiter.NewRateLimiter(1, limiter.WithMaxPermits(burst))
			if idle > 0 {
				vs.Sleep(idle)
			}
			base = vs.Now().UnixNano()
			for i := 0; i < n; i++ {
				i := i
				vs.GoFG(fmt.Sprintf("acq%d", i), func() {
					l.Acquire(context.Background(), 1)
					admitted[i] = vs.Now().UnixNano() - base
				})
			}
		})
		// every sequential order of identical requests yields the same multiset of admission instants
		m := &bucket{next: base - int64(idle), burst: burst}
		want := make([]int64, n)
		for i := range want {
			at, _ := m.acquire(base, 1)
			want[i] = at - base
		}
		got := append([]int64{}, admitted...)
		sort.Slice(got, func(i, j int) bool { return got[i] < got[j] })
		sort.Slice(want, func(i, j int) bool { return want[i] < want[j] })
		o := h.Outcome{Key: fmt.Sprint("admitted-per-caller=", admitted)}
		if len(s.Hangs) == 0 && !s.Pruned && fmt.Sprint(got) != fmt.Sprint(want) {
			early := 0
			for i := range got {
				if got[i] < want[i] {
					early++
				}
			}
			sig := "rate|concurrent-not-sequential"
			if early > 0 {
				sig = "rate|concurrent-admits-too-early"
			}
			o.Viol = append(o.Viol, h.V{Sig: sig, What: fmt.Sprintf("%s: admission instants %v ns, every sequential order gives %v ns", name, got, want)})
		}
		return s, o
	}}
}

func main() {
	scen := []h.Scenario{
		climit(1, 3, 0, false), climit(2, 3, 0, false), climit(1, 2, 0, false), climitGivesUp(),
		climit(1, 3, time.Second, false), climit(2, 3, time.Second, false), climit(1, 2, time.Second, false),
		rateConcurrent(2, 1, 0), rateConcurrent(3, 1, 0), rateConcurrent(3, 2, 5*time.Second), rateConcurrent(2, 0, 0),
	}
	h.Main(ID, scen, rateSequential)
}
