// C18 — load balancers. Exhaustive weight vectors and full cycles, every value of every random draw,
// outcome histories with calls parked in flight, and schedule exploration of concurrent calls, on the
// real balancers (rewritten copy).
//go:debug panicnil=1
package main

import (
	"context"
	"errors"
	"fmt"
	"sort"
	"strings"

	"github.com/hprose/hprose-golang/v3/rpc/core"
	lb "github.com/hprose/hprose-golang/v3/rpc/plugins/loadbalance"
	"verif/mcgo/h"
	"verif/vs"
)

const ID = "C18"

type ioHandler = func(ctx context.Context, request []byte, next core.NextIOHandler) ([]byte, error)

func urlsFor(n int) []string {
	out := make([]string, n)
	for i := range out {
		out[i] = fmt.Sprintf("mock://s%d", i)
	}
	return out
}

func weightMap(w []int) map[string]int {
	m := map[string]int{}
	for i, x := range w {
		m[fmt.Sprintf("mock://s%d", i)] = x
	}
	return m
}

func indexOf(u string) int {
	var i int
	if _, err := fmt.Sscanf(u, "mock://s%d", &i); err != nil {
		return -1
	}
	return i
}

func newCtx(client *core.Client) context.Context {
	cc := core.NewClientContext()
	cc.Init(client)
	return core.WithContext(context.Background(), cc)
}

var errFail = errors.New("server failed")

// pick makes one call through the balancer with a downstream that records the chosen server and ends
// as told; it returns the chosen index (-1: out of range / not configured).
func pick(hd ioHandler, client *core.Client, outcome string) (idx int, err error) {
	ctx := newCtx(client)
	idx = -2
	func() {
		panicking := true // panic(nil): recover returns nil for it (go:debug panicnil=1)
		defer func() {
			if r := recover(); r != nil || panicking {
				err = fmt.Errorf("ESCAPED PANIC: %v", r)
			}
		}()
		_, err = hd(ctx, []byte("r"), func(ctx context.Context, request []byte) ([]byte, error) {
			idx = indexOf(core.GetClientContext(ctx).URL.String())
			switch outcome {
			case "E":
				return nil, errFail
			case "P":
				panic("server panic")
			case "N":
				panic(nil)
			}
			return []byte("ok"), nil
		})
		panicking = false
	}()
	return
}

func vectors(maxN, maxW int) [][]int {
	var out [][]int
	var rec func(cur []int, n int)
	rec = func(cur []int, n int) {
		if len(cur) == n {
			out = append(out, append([]int{}, cur...))
			return
		}
		for w := 1; w <= maxW; w++ {
			rec(append(cur, w), n)
		}
	}
	for n := 1; n <= maxN; n++ {
		rec(nil, n)
	}
	return out
}

func gcdAll(w []int) int {
	g := 0
	for _, x := range w {
		a, b := g, x
		for b != 0 {
			a, b = b, a%b
		}
		g = a
	}
	return g
}

func sum(w []int) int {
	s := 0
	for _, x := range w {
		s += x
	}
	return s
}

// ---- full cycles without failures (sequential, all weight vectors, all map iteration orders) ----

func cycles(shard, nshards int, thorough bool) h.SeqResult {
	var res h.SeqResult
	maxW := 4
	if thorough {
		maxW = 5
	}
	vecs := vectors(4, maxW)
	for vi, w := range vecs {
		if vi%nshards != shard {
			continue
		}
		w := w
		n := len(w)
		rep := map[string]interface{}{"kind": "cycles", "weights": fmt.Sprint(w)}
		// round robin (unweighted): n servers
		if sum(w) == n { // run once per server count
			execs, _ := h.AllChoices(vs.Config{}, func() {
				client := core.NewClient(urlsFor(n)...)
				rr := lb.NewRoundRobinLoadBalance()
				counts := make([]int, n)
				for c := 0; c < 3; c++ {
					for k := 0; k < n; k++ {
						i, err := pick(rr.Handler, client, "S")
						res.Transitions++
						if i < 0 || i >= n || err != nil {
							res.Violate("roundrobin|not-a-configured-server", fmt.Sprintf("n=%d: picked %d err %v", n, i, err), rep)
							return
						}
						counts[i]++
					}
					for i := range counts {
						if counts[i] != c+1 {
							res.Violate("roundrobin|unequal-cycle", fmt.Sprintf("n=%d: after %d full cycles the servers were picked %v times", n, c+1, counts), rep)
							return
						}
					}
				}
			}, func(*vs.Sched) {})
			res.Traces += execs
		}
		// weighted round robin: over sum/gcd picks server i appears w_i/gcd times, for two consecutive cycles
		g := gcdAll(w)
		execs, _ := h.AllChoices(vs.Config{}, func() {
			client := core.NewClient()
			b := lb.NewWeightedRoundRobinLoadBalance(weightMap(w))
			for c := 0; c < 2; c++ {
				counts := make([]int, n)
				for k := 0; k < sum(w)/g; k++ {
					i, err := pick(b.Handler, client, "S")
					res.Transitions++
					if i < 0 || i >= n || err != nil {
						res.Violate("weightedrr|not-a-configured-server", fmt.Sprintf("weights %v: picked %d err %v", w, i, err), rep)
						return
					}
					counts[i]++
				}
				for i := range counts {
					if counts[i] != w[i]/g {
						res.Violate("weightedrr|not-proportional", fmt.Sprintf("weights %v: cycle %d of %d picks served the servers %v times, want w/gcd", w, c, sum(w)/g, counts), rep)
						return
					}
				}
			}
		}, func(*vs.Sched) {})
		res.Traces += execs
		// smooth weighted round robin: over sum(w) picks exactly w_i times, two cycles; never twice in a row more than needed
		execs, _ = h.AllChoices(vs.Config{}, func() {
			client := core.NewClient()
			b := lb.NewNginxRoundRobinLoadBalance(weightMap(w))
			for c := 0; c < 2; c++ {
				counts := make([]int, n)
				for k := 0; k < sum(w); k++ {
					i, err := pick(b.Handler, client, "S")
					res.Transitions++
					if i < 0 || i >= n || err != nil {
						res.Violate("nginxrr|not-a-configured-server", fmt.Sprintf("weights %v: picked %d err %v", w, i, err), rep)
						return
					}
					counts[i]++
				}
				for i := range counts {
					if counts[i] != w[i] {
						res.Violate("nginxrr|not-proportional", fmt.Sprintf("weights %v: cycle %d of %d picks served the servers %v times", w, c, sum(w), counts), rep)
						return
					}
				}
			}
		}, func(*vs.Sched) {})
		res.Traces += execs
		// random balancers: every value of every draw; the number of draws that map to server i is its weight
		if sum(w) <= vs.MaxRandFan {
			counts := make([]int, n)
			bad := false
			execs, _ = h.AllChoices(vs.Config{}, func() {
				client := core.NewClient()
				b := lb.NewWeightedRandomLoadBalance(weightMap(w))
				i, err := pick(b.Handler, client, "S")
				res.Transitions++
				if i < 0 || i >= n || err != nil {
					bad = true
					res.Violate("weightedrandom|not-a-configured-server", fmt.Sprintf("weights %v: picked %d err %v", w, i, err), rep)
					return
				}
				counts[i]++
			}, func(*vs.Sched) {})
			res.Traces += execs
			// executions = (map orders) x (draws): every order sees every draw once
			orders := int(execs) / sum(w)
			for i := range counts {
				if !bad && (orders == 0 || counts[i] != w[i]*orders) {
					res.Violate("weightedrandom|draws-not-proportional", fmt.Sprintf("weights %v: over all %d draws (x %d map orders) the servers were picked %v times", w, sum(w), orders, counts), rep)
					break
				}
			}
			// weighted least active with nothing in flight degenerates to weighted random
			counts = make([]int, n)
			bad = false
			execs, _ = h.AllChoices(vs.Config{}, func() {
				client := core.NewClient()
				b := lb.NewWeightedLeastActiveLoadBalance(weightMap(w))
				i, err := pick(b.Handler, client, "S")
				res.Transitions++
				if i < 0 || i >= n || err != nil {
					bad = true
					res.Violate("weightedleastactive|not-a-configured-server", fmt.Sprintf("weights %v: picked %d err %v", w, i, err), rep)
					return
				}
				counts[i]++
			}, func(*vs.Sched) {})
			res.Traces += execs
			if n > 1 {
				orders = int(execs) / sum(w)
				for i := range counts {
					if !bad && (orders == 0 || counts[i] != w[i]*orders) {
						res.Violate("weightedleastactive|idle-draws-not-proportional", fmt.Sprintf("weights %v: with nothing in flight, over all draws the servers were picked %v times (x %d map orders)", w, counts, orders), rep)
						break
					}
				}
			}
		}
		if sum(w) == n {
			counts := make([]int, n)
			execs, _ = h.AllChoices(vs.Config{}, func() {
				client := core.NewClient(urlsFor(n)...)
				b := lb.NewRandomLoadBalance()
				i, err := pick(b.Handler, client, "S")
				res.Transitions++
				if i < 0 || i >= n || err != nil {
					res.Violate("random|not-a-configured-server", fmt.Sprintf("n=%d: picked %d err %v", n, i, err), rep)
					return
				}
				counts[i]++
			}, func(*vs.Sched) {})
			res.Traces += execs
			for i := range counts {
				if counts[i] != 1 {
					res.Violate("random|draws-not-uniform", fmt.Sprintf("n=%d: over all draws the servers were picked %v times", n, counts), rep)
					break
				}
			}
		}
		res.States++
		if vi%101 == 7 {
			res.Samples = append(res.Samples, map[string]interface{}{"kind": "weight vector", "weights": w, "checked": "round-robin / weighted / smooth cycles, every random draw"})
		}
	}
	res.Info = map[string]interface{}{"weight_vectors": fmt.Sprint(len(vecs)), "max_weight": fmt.Sprint(maxW)}
	return res
}

// ---- outcome histories with calls in flight (the history is an explorer data choice) ----

type balancer struct {
	name    string
	weights []int // nil = unweighted over n servers
	n       int
	make    func() (ioHandler, func() []int64, func() []int64) // handler, actives(), effectiveWeights()
}

func balancers(w []int) []balancer {
	nn := len(w)
	return []balancer{
		{"leastactive", nil, nn, func() (ioHandler, func() []int64, func() []int64) {
			b := lb.NewLeastActiveLoadBalance()
			return b.Handler, b.VerifActives, nil
		}},
		{"weightedleastactive", w, nn, func() (ioHandler, func() []int64, func() []int64) {
			b := lb.NewWeightedLeastActiveLoadBalance(weightMap(w))
			return b.Handler, b.VerifActives, b.VerifEffectiveWeights
		}},
		{"nginxrr", w, nn, func() (ioHandler, func() []int64, func() []int64) {
			b := lb.NewNginxRoundRobinLoadBalance(weightMap(w))
			return b.Handler, nil, b.VerifEffectiveWeights
		}},
		{"weightedrandom", w, nn, func() (ioHandler, func() []int64, func() []int64) {
			b := lb.NewWeightedRandomLoadBalance(weightMap(w))
			return b.Handler, nil, b.VerifEffectiveWeights
		}},
		{"roundrobin", nil, nn, func() (ioHandler, func() []int64, func() []int64) {
			b := lb.NewRoundRobinLoadBalance()
			return b.Handler, nil, nil
		}},
		{"weightedrr", w, nn, func() (ioHandler, func() []int64, func() []int64) {
			b := lb.NewWeightedRoundRobinLoadBalance(weightMap(w))
			return b.Handler, nil, nil
		}},
		{"random", nil, nn, func() (ioHandler, func() []int64, func() []int64) {
			b := lb.NewRandomLoadBalance()
			return b.Handler, nil, nil
		}},
	}
}

// serverIndex maps lb-internal order to our server numbering: accessors return values in the balancer's
// own URL order, which for the weighted balancers is the map iteration order chosen by the explorer. We
// therefore compare multisets keyed by weight class where order matters.
// pre is a scripted prefix of operations (values of the history-op choice) that is applied before the explored
// part: it puts the balancer into a non-initial state (e.g. two servers whose effective weight failures have
// driven to zero) from which the depth-bounded exploration starts.
func history(b balancer, depth int, tag string, pre []int) h.Scenario {
	name := "history/" + b.name + tag
	return h.Scenario{Name: name, Quick: 0, Thorough: 0, Run: func(ch vs.Chooser, trace bool) (*vs.Sched, h.Outcome) {
		var o h.Outcome
		var hist []string
		s := vs.Run(ch, vs.Config{Trace: trace}, func() {
			var client *core.Client
			if b.weights == nil {
				client = core.NewClient(urlsFor(b.n)...)
			} else {
				client = core.NewClient()
			}
			hd, actives, eff := b.make()
			type inflight struct {
				server  int
				release chan string
				done    chan error
			}
			var calls []*inflight
			modelActive := make([]int, b.n)
			var modelEff []int
			if b.weights != nil {
				modelEff = append([]int{}, b.weights...)
			}
			for step := 0; step < len(pre)+depth; step++ {
				// enabled operations: start a call; finish any in-flight call with S, E, P or N (panic(nil)); stop
				nops := 1 + 4*len(calls) + 1
				var c int
				if step < len(pre) {
					c = pre[step]
				} else {
					c = vs.Choose(nops, "history-op")
				}
				if c == nops-1 {
					break
				}
				if c == 0 {
					fl := &inflight{server: -2, release: make(chan string), done: make(chan error, 1)}
					entered := make(chan int)
					vs.Go(func() {
						ctx := newCtx(client)
						var err error
						func() {
							panicking := true
							defer func() {
								if r := recover(); r != nil || panicking {
									err = fmt.Errorf("ESCAPED PANIC: %v", r)
								}
							}()
							_, err = hd(ctx, []byte("r"), func(ctx context.Context, request []byte) ([]byte, error) {
								vs.Send(entered, indexOf(core.GetClientContext(ctx).URL.String()))
								switch vs.Recv(fl.release) {
								case "E":
									return nil, errFail
								case "P":
									panic("server panic")
								case "N":
									panic(nil)
								}
								return []byte("ok"), nil
							})
							panicking = false
						}()
						vs.Send(fl.done, err)
					})
					fl.server = vs.Recv(entered)
					hist = append(hist, fmt.Sprintf("start->s%d", fl.server))
					if fl.server < 0 || fl.server >= b.n {
						o.Viol = append(o.Viol, h.V{Sig: b.name + "|not-a-configured-server", What: fmt.Sprintf("%s after %v: picked server %d", name, hist, fl.server)})
						return
					}
					if strings.Contains(b.name, "leastactive") {
						min := modelActive[0]
						for _, a := range modelActive {
							if a < min {
								min = a
							}
						}
						if modelActive[fl.server] != min {
							o.Viol = append(o.Viol, h.V{Sig: b.name + "|not-least-active", What: fmt.Sprintf("%s after %v: picked s%d with %d in flight, in-flight vector %v", name, hist, fl.server, modelActive[fl.server], modelActive)})
						}
					}
					modelActive[fl.server]++
					calls = append(calls, fl)
				} else {
					k, out := (c-1)/4, []string{"S", "E", "P", "N"}[(c-1)%4]
					fl := calls[k]
					calls = append(calls[:k:k], calls[k+1:]...)
					vs.Send(fl.release, out)
					err := vs.Recv(fl.done)
					hist = append(hist, fmt.Sprintf("finish(s%d,%s)", fl.server, out))
					modelActive[fl.server]--
					if (out == "S") != (err == nil) { // a panic that propagates to the caller is a failed call too
						o.Viol = append(o.Viol, h.V{Sig: b.name + "|wrong-call-result", What: fmt.Sprintf("%s after %v: call ended with %v", name, hist, err)})
					}
					if modelEff != nil {
						if out == "S" {
							if modelEff[fl.server] < b.weights[fl.server] {
								modelEff[fl.server]++
							}
						} else if modelEff[fl.server] > 0 {
							modelEff[fl.server]--
						}
					}
				}
				if actives != nil {
					got := sortedCopy(actives())
					want := sortedInts(modelActive)
					if fmt.Sprint(got) != fmt.Sprint(want) {
						o.Viol = append(o.Viol, h.V{Sig: b.name + "|in-flight-counters-wrong", What: fmt.Sprintf("%s after %v: in-flight counters %v, model %v (as multisets)", name, hist, got, want)})
					}
				}
				if eff != nil && modelEff != nil {
					got := sortedCopy(eff())
					want := sortedInts(modelEff)
					if fmt.Sprint(got) != fmt.Sprint(want) {
						o.Viol = append(o.Viol, h.V{Sig: b.name + "|effective-weights-wrong", What: fmt.Sprintf("%s after %v: effective weights %v, model (decrease on failure, restore on success) %v (as multisets)", name, hist, got, want)})
					}
				}
			}
			// drain: finish everything successfully; counters must return to zero
			for _, fl := range calls {
				vs.Send(fl.release, "S")
				vs.Recv(fl.done)
			}
			if actives != nil {
				for _, a := range actives() {
					if a != 0 {
						o.Viol = append(o.Viol, h.V{Sig: b.name + "|in-flight-not-zero-at-end", What: fmt.Sprintf("%s after %v and draining: in-flight counters %v", name, hist, actives())})
						break
					}
				}
			}
		})
		o.Key = strings.Join(hist, " ")
		if len(o.Key) > 60 {
			o.Key = o.Key[:60]
		}
		return s, o
	}}
}

func sortedCopy(a []int64) []int64 {
	b := append([]int64{}, a...)
	sort.Slice(b, func(i, j int) bool { return b[i] < b[j] })
	return b
}
func sortedInts(a []int) []int64 {
	b := make([]int64, len(a))
	for i, x := range a {
		b[i] = int64(x)
	}
	sort.Slice(b, func(i, j int) bool { return b[i] < b[j] })
	return b
}

// ---- concurrent calls ----

func concurrent(b balancer, ncalls int) h.Scenario {
	name := fmt.Sprintf("concurrent/%s/calls=%d", b.name, ncalls)
	return h.Scenario{Name: name, Quick: 2, Thorough: 3, Run: func(ch vs.Chooser, trace bool) (*vs.Sched, h.Outcome) {
		var o h.Outcome
		picked := make([]int, ncalls)
		errs := make([]error, ncalls)
		var finalActives []int64
		var after []int
		s := vs.Run(ch, vs.Config{Trace: trace}, func() {
			var client *core.Client
			if b.weights == nil {
				client = core.NewClient(urlsFor(b.n)...)
			} else {
				client = core.NewClient()
			}
			hd, actives, _ := b.make()
			var wg vs.WaitGroup
			for c := 0; c < ncalls; c++ {
				c := c
				wg.Add(1)
				vs.GoFG(fmt.Sprintf("call%d", c), func() {
					defer wg.Done()
					out := []string{"S", "E", "P"}[c%3]
					picked[c], errs[c] = pick(func(ctx context.Context, req []byte, next core.NextIOHandler) ([]byte, error) {
						return hd(ctx, req, func(ctx context.Context, req []byte) ([]byte, error) {
							vs.Point("in-flight")
							return next(ctx, req)
						})
					}, client, out)
				})
			}
			wg.Wait()
			if actives != nil {
				finalActives = actives()
			}
			if b.name == "roundrobin" {
				// at quiescence the rotation must be whole again: two full cycles of sequential calls
				after = make([]int, b.n)
				for k := 0; k < 2*b.n; k++ {
					if i, _ := pick(hd, client, "S"); i >= 0 && i < b.n {
						after[i]++
					}
				}
			}
		})
		if len(s.Hangs) == 0 && !s.Pruned && s.Aborted == "" {
			if b.name == "roundrobin" && ncalls%b.n == 0 {
				// a whole number of cycles, issued concurrently: every server the same number of times
				counts := make([]int, b.n)
				for _, x := range picked {
					if x >= 0 && x < b.n {
						counts[x]++
					}
				}
				for _, c := range counts {
					if c != ncalls/b.n {
						o.Viol = append(o.Viol, h.V{Sig: b.name + "|concurrent|cycle-not-served-equally", What: fmt.Sprintf("%s: %d concurrent calls over %d servers were served %v times", name, ncalls, b.n, counts)})
						break
					}
				}
			}
			for i := range after {
				if after[i] != 2 {
					o.Viol = append(o.Viol, h.V{Sig: b.name + "|concurrent|rotation-broken-after-concurrent-calls", What: fmt.Sprintf("%s: after the concurrent calls (picked %v) two full cycles of sequential calls served the servers %v times, want 2 each", name, picked, after)})
					break
				}
			}
			for c := range picked {
				if picked[c] < 0 || picked[c] >= b.n {
					o.Viol = append(o.Viol, h.V{Sig: b.name + "|concurrent|not-a-configured-server", What: fmt.Sprintf("%s: call %d picked %d err %v", name, c, picked[c], errs[c])})
				}
			}
			for _, a := range finalActives {
				if a != 0 {
					o.Viol = append(o.Viol, h.V{Sig: b.name + "|concurrent|in-flight-not-zero-at-end", What: fmt.Sprintf("%s: in-flight counters %v after all calls ended", name, finalActives)})
					break
				}
			}
		}
		o.Key = fmt.Sprint(picked)
		return s, o
	}}
}

// grown: a server is added to the client (SetURI) while calls are in flight through the least-active balancer.
// The calls in flight stay counted: the next call goes to the new, idle server, and when everything has ended
// the counters are zero. Every order of finishing the calls is explored.
func grown() h.Scenario {
	name := "history/leastactive/server-added-while-calls-are-in-flight"
	return h.Scenario{Name: name, Quick: 2, Thorough: 3, Run: func(ch vs.Chooser, trace bool) (*vs.Sched, h.Outcome) {
		var o h.Outcome
		var hist []string
		s := vs.Run(ch, vs.Config{Trace: trace}, func() {
			client := core.NewClient(urlsFor(2)...)
			b := lb.NewLeastActiveLoadBalance()
			type inflight struct {
				server  int
				release chan struct{}
				done    chan struct{}
			}
			start := func() *inflight {
				fl := &inflight{release: make(chan struct{}), done: make(chan struct{}, 1)}
				entered := make(chan int)
				vs.Go(func() {
					b.Handler(newCtx(client), []byte("r"), func(ctx context.Context, request []byte) ([]byte, error) {
						vs.Send(entered, indexOf(core.GetClientContext(ctx).URL.String()))
						vs.Recv(fl.release)
						return []byte("ok"), nil
					})
					vs.Send(fl.done, struct{}{})
				})
				fl.server = vs.Recv(entered)
				hist = append(hist, fmt.Sprintf("start->s%d", fl.server))
				return fl
			}
			calls := []*inflight{start(), start()} // one on each of the two servers
			client.SetURI(urlsFor(3)...)
			hist = append(hist, "SetURI(s0,s1,s2)")
			third := start()
			if third.server != 2 {
				o.Viol = append(o.Viol, h.V{Sig: "leastactive|not-least-active", What: fmt.Sprintf("%s after %v: s0 and s1 have a call in flight each, the new server s2 none; the call went to s%d", name, hist, third.server)})
			}
			calls = append(calls, third)
			for len(calls) > 0 {
				k := vs.Choose(len(calls), "finish-which")
				fl := calls[k]
				calls = append(calls[:k:k], calls[k+1:]...)
				vs.Send(fl.release, struct{}{})
				vs.Recv(fl.done)
				hist = append(hist, fmt.Sprintf("finish(s%d)", fl.server))
				for _, a := range b.VerifActives() {
					if a < 0 {
						o.Viol = append(o.Viol, h.V{Sig: "leastactive|in-flight-counters-wrong", What: fmt.Sprintf("%s after %v: in-flight counters %v", name, hist, b.VerifActives())})
						return
					}
				}
			}
			for _, a := range b.VerifActives() {
				if a != 0 {
					o.Viol = append(o.Viol, h.V{Sig: "leastactive|in-flight-not-zero-at-end", What: fmt.Sprintf("%s after %v: in-flight counters %v", name, hist, b.VerifActives())})
					break
				}
			}
		})
		o.Key = strings.Join(hist, " ")
		return s, o
	}}
}

// held: ncalls callers arrive together and every call stays in flight until all of them have been placed.
// An atomic least-active balancer places each call on a server with the fewest calls in flight, so the
// in-flight vector at that moment is balanced (largest and smallest count differ by at most one) - whatever
// the interleaving of the callers.
func held(b balancer, ncalls int) h.Scenario {
	name := fmt.Sprintf("held/%s/calls=%d", b.name, ncalls)
	return h.Scenario{Name: name, Quick: 2, Thorough: 3, Run: func(ch vs.Chooser, trace bool) (*vs.Sched, h.Outcome) {
		var o h.Outcome
		placed := make([]int, ncalls)
		s := vs.Run(ch, vs.Config{Trace: trace}, func() {
			var client *core.Client
			if b.weights == nil {
				client = core.NewClient(urlsFor(b.n)...)
			} else {
				client = core.NewClient()
			}
			hd, _, _ := b.make()
			var all, wg vs.WaitGroup
			all.Add(ncalls)
			for c := 0; c < ncalls; c++ {
				c := c
				wg.Add(1)
				vs.GoFG(fmt.Sprintf("call%d", c), func() {
					defer wg.Done()
					placed[c] = -2
					hd(newCtx(client), []byte("r"), func(ctx context.Context, req []byte) ([]byte, error) {
						placed[c] = indexOf(core.GetClientContext(ctx).URL.String())
						all.Done()
						all.Wait() // in flight until every caller has been placed
						return []byte("ok"), nil
					})
				})
			}
			wg.Wait()
		})
		o.Key = fmt.Sprint(placed)
		if len(s.Hangs) == 0 && !s.Pruned && s.Aborted == "" {
			counts := make([]int, b.n)
			for _, x := range placed {
				if x >= 0 && x < b.n {
					counts[x]++
				}
			}
			lo, hi := counts[0], counts[0]
			for _, c := range counts {
				if c < lo {
					lo = c
				}
				if c > hi {
					hi = c
				}
			}
			if hi-lo > 1 {
				o.Viol = append(o.Viol, h.V{Sig: b.name + "|concurrent|not-least-active", What: fmt.Sprintf("%s: %d callers arriving together, all held in flight, were placed %v (calls per server %v): a call went to a server that had more in flight than another", name, ncalls, placed, counts)})
			}
		}
		return s, o
	}}
}

func main() {
	var scen []h.Scenario
	depth := 5
	for _, b := range balancers([]int{2, 1, 1}) {
		hs := history(b, depth, "", nil)
		scen = append(scen, hs)
	}
	// from a non-initial state: weights {1,1,1} after two calls that failed one after the other (they went to two
	// different servers, whose effective weight is now 0), then every history of depth 4
	for _, b := range balancers([]int{1, 1, 1}) {
		if b.weights != nil {
			scen = append(scen, history(b, depth-1, "/after-two-failures", []int{0, 2, 0, 2}))
		}
	}
	for _, b := range balancers([]int{2, 1}) {
		c := concurrent(b, 3)
		if b.name == "roundrobin" {
			c = concurrent(b, 4)
		}
		scen = append(scen, c)
	}
	for _, b := range balancers([]int{1, 1}) {
		if b.name == "leastactive" || b.name == "weightedleastactive" {
			scen = append(scen, held(b, 2), held(b, 3))
		}
	}
	scen = append(scen, grown())
	h.Main(ID, scen, nil, h.SeqPart{Name: "cycles", Shards: 32, Run: cycles})
}
