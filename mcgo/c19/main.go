// C19 — push. Schedule exploration of the real Broker (rewritten together with the third-party
// concurrent-map) with polls, poll time-outs (eager virtual timer), publishers, subscribe/unsubscribe;
// and of the Prosumer's poll loop and dispatch.
package main

import (
	"context"
	"fmt"
	"reflect"
	"sort"
	"strings"
	"time"

	"github.com/hprose/hprose-golang/v3/rpc/core"
	"github.com/hprose/hprose-golang/v3/rpc/plugins/push"
	"verif/mcgo/h"
	"verif/vs"
)

const ID = "C19"

type env struct {
	service *core.Service
	broker  *push.Broker
	// scoped: every request has a context of its own that ends when the request has been answered, as the
	// contexts of the net/http and mock handlers do
	scoped bool
}

func newEnv() *env {
	service := core.NewService()
	broker := push.NewBroker(service)
	broker.Timeout = time.Second        // the poll time-out: eager (may strike at any scheduling point)
	broker.HeartBeat = 1000 * time.Second // fires only when the client has really stopped polling
	return &env{service: service, broker: broker}
}

func (e *env) ctxFor(id string) context.Context {
	sc := core.NewServiceContext(e.service)
	sc.RequestHeaders().Set("id", id)
	return core.WithContext(context.Background(), sc)
}

func (e *env) call(name string, args ...interface{}) []reflect.Value {
	in := make([]reflect.Value, len(args))
	for i, a := range args {
		in[i] = reflect.ValueOf(a)
	}
	if e.scoped {
		ctx, cancel := vs.WithCancel(args[0].(context.Context))
		in[0] = reflect.ValueOf(ctx)
		defer cancel() // the request has been answered: its context ends
	}
	return e.service.Get(name).Func().Call(in)
}

func (e *env) subscribe(id, topic string) bool { return e.call("+", e.ctxFor(id), topic)[0].Bool() }
func (e *env) unsubscribe(id, topic string) bool {
	return e.call("-", e.ctxFor(id), topic)[0].Bool()
}

// poll returns the batch (topic -> data strings); timedOut reports an empty, non-nil result.
func (e *env) poll(id string) (batch map[string][]string, isNil bool) {
	res := e.call("<", e.ctxFor(id))[0].Interface().(map[string][]push.Message)
	if res == nil {
		return nil, true
	}
	batch = map[string][]string{}
	for t, ms := range res {
		for _, m := range ms {
			batch[t] = append(batch[t], fmt.Sprint(m.Data))
		}
		if ms == nil {
			batch[t] = nil
		}
	}
	return batch, false
}

type pubSpec struct {
	kind string // unicast | multicast | broadcast
	msgs []string
}

type spec struct {
	name       string
	pubs       []pubSpec
	polls      int
	unsub      bool // a thread unsubscribes and re-subscribes c1 from t during the traffic
	quick, tho int
	scoped     bool // request-scoped contexts (see env.scoped)
	// nowait: the broker's polls wait without a time-out (Broker.Timeout = 0): a poll only returns with
	// messages, so a message accepted while the client polls must wake that poll - the consumer polls until
	// it has everything that was accepted, and a poll that waits for ever beside a filled cache is a hang.
	nowait bool
	// deny: c1 is also subscribed to "u", and a thread denies it that topic (Broker.Deny) during the traffic
	deny bool
	// heartbeat: the broker's heartbeat is short (10 s) and its poll time-out long (100 s); the publisher
	// pauses 50 s between its messages. The consumer polls again at once after every delivery, so it is
	// never away for a heartbeat and must not be taken offline.
	heartbeat bool
	// abandon: the client gives up its first poll on its side (its own time-out, shorter than the broker's) and
	// polls again; the transport cannot tell the broker (tcp, websocket, udp: the request context lives on), so
	// the broker still holds the first poll's responder until the second poll arrives. What the abandoned poll
	// is answered with reaches nobody.
	abandon bool
}

func brokerScenario(sp spec) h.Scenario {
	return h.Scenario{Name: "broker/" + sp.name, Quick: sp.quick, Thorough: sp.tho, Run: func(ch vs.Chooser, trace bool) (*vs.Sched, h.Outcome) {
		var accepted [][]string // per publisher, in publish order
		var delivered []string  // to c1 on topic t, in delivery order
		var foreign []string    // anything c1 got on another topic, or c2 got from topic t
		var dropped []string    // handed to OnUnsubscribe
		timeouts := 0
		var publishedAfterTimeout bool
		var pollTimedOut vs.Var[bool]
		var wentOffline bool // a poll of the continuously polling consumer was answered nil: it is subscribed to nothing any more
		s := vs.Run(ch, vs.Config{Trace: trace, EagerHorizon: time.Second}, func() {
			e := newEnv()
			e.scoped = sp.scoped
			if sp.nowait {
				e.broker.Timeout = 0
			}
			if sp.heartbeat {
				e.broker.Timeout, e.broker.HeartBeat = 100*time.Second, 10*time.Second
				if strings.Contains(sp.name, "polls-time-out") {
					e.broker.Timeout = 30 * time.Second // the pause of the publisher spans a poll time-out
				}
			}
			e.broker.OnUnsubscribe = func(ctx context.Context, id, topic string, ms []push.Message) {
				for _, m := range ms {
					dropped = append(dropped, fmt.Sprint(m.Data))
				}
			}
			e.subscribe("c1", "t")
			e.subscribe("c2", "other") // a bystander subscribed to another topic
			if sp.deny {
				e.subscribe("c1", "u")
			}
			total := 0
			for _, p := range sp.pubs {
				total += len(p.msgs)
			}
			accepted = make([][]string, len(sp.pubs))
			var pubDone vs.WaitGroup
			for pi, p := range sp.pubs {
				pi, p := pi, p
				pubDone.Add(1)
				vs.GoFG(fmt.Sprintf("pub%d", pi), func() {
					defer pubDone.Done()
					for mi, m := range p.msgs {
						if sp.heartbeat && mi > 0 {
							vs.Sleep(50 * time.Second)
						}
						ok := false
						ctx := e.ctxFor(fmt.Sprintf("p%d", pi))
						switch p.kind {
						case "unicast":
							ok = e.broker.Unicast(ctx, m, "t", "c1", "p")
						case "multicast":
							ok = e.broker.Multicast(ctx, m, "t", []string{"c1", "c2"}, "p")["c1"]
						case "broadcast":
							ok = e.broker.Broadcast(ctx, m, "t", "p")["c1"]
						}
						if ok {
							accepted[pi] = append(accepted[pi], m)
							if pollTimedOut.Get() {
								publishedAfterTimeout = true
							}
						}
					}
				})
			}
			if sp.unsub {
				pubDone.Add(1)
				vs.GoFG("resub", func() {
					defer pubDone.Done()
					e.unsubscribe("c1", "t")
					e.subscribe("c1", "t")
				})
			}
			if sp.deny {
				pubDone.Add(1)
				vs.GoFG("deny", func() {
					defer pubDone.Done()
					e.broker.Deny(e.ctxFor("p"), "c1", "u")
				})
			}
			take := func(b map[string][]string) {
				for t, ms := range b {
					if sp.deny && ms == nil {
						// the denial of "u" (topic -> nil): not a message
					} else if t == "t" {
						delivered = append(delivered, ms...)
					} else {
						foreign = append(foreign, ms...)
					}
				}
			}
			vs.GoFG("consumer", func() {
				if sp.nowait {
					for len(delivered) < total {
						b, isNil := e.poll("c1")
						if isNil {
							wentOffline = true
							return
						}
						take(b)
					}
					return
				}
				if sp.heartbeat {
					for len(delivered) < total {
						b, isNil := e.poll("c1")
						if isNil {
							wentOffline = true
							return
						}
						take(b)
					}
					return
				}
				if sp.abandon {
					vs.Go(func() {
						e.poll("c1") // the answer of this poll is read by nobody
					})
					vs.Gosched()
				}
				for i := 0; i < sp.polls; i++ {
					b, isNil := e.poll("c1")
					if !isNil && len(b) == 0 {
						timeouts++
						pollTimedOut.Set(true)
					}
					take(b)
				}
				pubDone.Wait()
				// the client keeps polling: drain until a poll brings nothing
				for i := 0; i < 3; i++ {
					b, _ := e.poll("c1")
					if len(b) == 0 {
						break
					}
					take(b)
				}
				if b, _ := e.poll("c2"); len(b["t"]) > 0 {
					foreign = append(foreign, b["t"]...)
				}
			})
		})
		var o h.Outcome
		var acc []string
		for _, a := range accepted {
			acc = append(acc, a...)
		}
		o.Key = fmt.Sprintf("accepted=%d delivered=%d timeouts=%d dropped=%d", len(acc), len(delivered), timeouts, len(dropped))
		if len(s.Hangs) > 0 || s.Pruned || s.Aborted != "" {
			return s, o
		}
		if (sp.nowait || sp.heartbeat) && (wentOffline || len(acc) != len(flat(sp.pubs))) {
			o.Viol = append(o.Viol, h.V{Sig: "broker|polling-client-taken-offline", What: fmt.Sprintf("%s: the client polls again at once after every delivery, yet a poll was answered nil (%v) or a publish was refused (accepted %v of %v); handed to OnUnsubscribe: %v", sp.name, wentOffline, acc, flat(sp.pubs), dropped)})
			return s, o
		}
		a, d := append([]string{}, acc...), append(append([]string{}, delivered...), dropped...)
		sort.Strings(a)
		sort.Strings(d)
		count := func(l []string) map[string]int {
			m := map[string]int{}
			for _, x := range l {
				m[x]++
			}
			return m
		}
		ca, cd := count(a), count(d)
		ctx := "no-poll-timeout-before-the-publish"
		if publishedAfterTimeout {
			ctx = "publish-after-a-poll-timed-out"
		}
		if sp.unsub {
			ctx = "publish-racing-with-unsubscribe"
		}
		if sp.abandon {
			ctx = "client-gave-up-its-poll"
		}
		for m, n := range ca {
			if cd[m] < n {
				o.Viol = append(o.Viol, h.V{Sig: "broker|accepted-message-lost|" + ctx, What: fmt.Sprintf("%s: accepted %v, delivered %v (dropped at unsubscribe %v): %q was accepted (publish returned true) and never handed to the client", sp.name, acc, delivered, dropped, m)})
				break
			}
		}
		for m, n := range cd {
			if n > ca[m] {
				o.Viol = append(o.Viol, h.V{Sig: "broker|duplicate-or-unaccepted-delivery", What: fmt.Sprintf("%s: accepted %v, delivered %v dropped %v: %q delivered more often than accepted", sp.name, acc, delivered, dropped, m)})
				break
			}
		}
		if len(foreign) > 0 {
			o.Viol = append(o.Viol, h.V{Sig: "broker|delivered-to-unsubscribed-topic-or-client", What: fmt.Sprintf("%s: %v", sp.name, foreign)})
		}
		// per-publisher order (acceptance order of one publisher is its publish order)
		pos := map[string]int{}
		for i, m := range delivered {
			pos[m] = i + 1
		}
		for _, pa := range accepted {
			last := 0
			for _, m := range pa {
				if p := pos[m]; p > 0 {
					if p < last {
						o.Viol = append(o.Viol, h.V{Sig: "broker|out-of-order", What: fmt.Sprintf("%s: publisher order %v, delivered %v", sp.name, pa, delivered)})
						break
					}
					last = p
				}
			}
		}
		return s, o
	}}
}

func flat(pubs []pubSpec) (all []string) {
	for _, p := range pubs {
		all = append(all, p.msgs...)
	}
	return
}

// ---- Prosumer: consecutive batches must reach the callback in order ----

func prosumerScenario() h.Scenario {
	name := "prosumer/two-batches"
	return h.Scenario{Name: name, Quick: 2, Thorough: 3, Run: func(ch vs.Chooser, trace bool) (*vs.Sched, h.Outcome) {
		var got []string
		s := vs.Run(ch, vs.Config{Trace: trace}, func() {
			client := core.NewClient("mock://unused")
			p := push.NewProsumer(client, "c1")
			batches := []map[string][]push.Message{
				{"t": {{Data: "m1", From: "p"}, {Data: "m2", From: "p"}}},
				{"t": {{Data: "m3", From: "p"}}},
			}
			i := 0
			p.VerifSetMessageProxy(func() (map[string][]push.Message, error) {
				vs.Point("poll")
				if i < len(batches) {
					i++
					return batches[i-1], nil
				}
				return nil, nil // unsubscribed from everything: the loop ends
			})
			p.VerifSetCallback("t", func(m push.Message) {
				vs.Point("callback")
				got = append(got, fmt.Sprint(m.Data))
			})
			p.VerifPollLoop()
		})
		o := h.Outcome{Key: strings.Join(got, ",")}
		if len(s.Hangs) == 0 && !s.Pruned && s.Aborted == "" {
			if strings.Join(got, ",") != "m1,m2,m3" {
				sig := "prosumer|callbacks-out-of-order"
				if len(got) != 3 {
					sig = "prosumer|callback-lost-or-duplicated"
				}
				o.Viol = append(o.Viol, h.V{Sig: sig, What: fmt.Sprintf("batches [m1 m2] then [m3] reached the callback as %v", got)})
			}
		}
		return s, o
	}}
}

// The application subscribes to a second topic while batches of the first are on their way: the callbacks of
// topic t still see its messages in order (one poll loop per Prosumer, whatever the number of Subscribe calls).
func prosumerSecondSubscribe() h.Scenario {
	name := "prosumer/second-subscribe-during-traffic"
	return h.Scenario{Name: name, Quick: 2, Thorough: 3, Run: func(ch vs.Chooser, trace bool) (*vs.Sched, h.Outcome) {
		var got []string
		s := vs.Run(ch, vs.Config{Trace: trace}, func() {
			client := core.NewClient("mock://unused")
			p := push.NewProsumer(client, "c1")
			batches := []map[string][]push.Message{
				{"t": {{Data: "m1", From: "p"}, {Data: "m2", From: "p"}}},
				{"t": {{Data: "m3", From: "p"}}},
			}
			var next vs.Var[int]
			p.VerifSetMessageProxy(func() (map[string][]push.Message, error) {
				vs.Point("poll")
				i := next.Get()
				next.Set(i + 1)
				if i < len(batches) {
					return batches[i], nil
				}
				return nil, nil // the scripted broker knows no subscription any more: the loop ends
			})
			p.VerifSetSubscribeProxy(func(topic string) (bool, error) {
				vs.Point("subscribe")
				return true, nil
			})
			var done vs.WaitGroup
			done.Add(2)
			vs.GoFG("app1", func() {
				defer done.Done()
				p.Subscribe("t", func(m push.Message) {
					vs.Point("callback")
					got = append(got, fmt.Sprint(m.Data))
				})
			})
			vs.GoFG("app2", func() {
				defer done.Done()
				p.Subscribe("u", func(m push.Message) {})
			})
			done.Wait()
		})
		o := h.Outcome{Key: strings.Join(got, ",")}
		if len(s.Hangs) == 0 && !s.Pruned && s.Aborted == "" {
			// a loop started by the Subscribe of "u" may take a batch before "t" has its callback: such a batch
			// is dropped by dispatch (no callback yet), which is the application's order of subscribing, not a
			// reordering. What reaches the callback must be in order.
			if !inOrder(got, []string{"m1", "m2", "m3"}) {
				o.Viol = append(o.Viol, h.V{Sig: "prosumer|callbacks-out-of-order", What: fmt.Sprintf("Subscribe(t) and Subscribe(u) during traffic: batches [m1 m2] then [m3] reached the callback of t as %v", got)})
			}
		}
		return s, o
	}}
}

// A callback that takes its time: it returns only when the Prosumer has polled again. A Prosumer that runs its
// callbacks in the polling goroutine does not poll meanwhile (the broker would take it offline after a heartbeat);
// here it would wait for itself. The messages still reach the callback in order.
func prosumerSlowCallback() h.Scenario {
	name := "prosumer/callback-waits-for-the-next-poll"
	return h.Scenario{Name: name, Quick: 2, Thorough: 3, Run: func(ch vs.Chooser, trace bool) (*vs.Sched, h.Outcome) {
		var got []string
		s := vs.Run(ch, vs.Config{Trace: trace}, func() {
			client := core.NewClient("mock://unused")
			p := push.NewProsumer(client, "c1")
			batches := []map[string][]push.Message{
				{"t": {{Data: "m1", From: "p"}}},
				{"t": {{Data: "m2", From: "p"}, {Data: "m3", From: "p"}}},
			}
			polledAgain := make(chan struct{}, 4)
			var next vs.Var[int]
			p.VerifSetMessageProxy(func() (map[string][]push.Message, error) {
				vs.Point("poll")
				i := next.Get()
				next.Set(i + 1)
				if i >= 1 {
					vs.Send(polledAgain, struct{}{})
				}
				if i < len(batches) {
					return batches[i], nil
				}
				return nil, nil
			})
			first := true
			p.VerifSetCallback("t", func(m push.Message) {
				if first {
					first = false
					vs.Recv(polledAgain) // a slow callback: the next poll is on its way before it returns
				}
				got = append(got, fmt.Sprint(m.Data))
			})
			p.VerifPollLoop()
		})
		o := h.Outcome{Key: strings.Join(got, ",")}
		if len(s.Hangs) == 0 && !s.Pruned && s.Aborted == "" {
			if strings.Join(got, ",") != "m1,m2,m3" {
				o.Viol = append(o.Viol, h.V{Sig: "prosumer|callbacks-out-of-order", What: fmt.Sprintf("%s: batches [m1] then [m2 m3] reached the callback as %v", name, got)})
			}
		}
		return s, o
	}}
}

// inOrder: got is a subsequence of want, whole batches aside.
func inOrder(got, want []string) bool {
	j := 0
	for _, g := range got {
		for j < len(want) && want[j] != g {
			j++
		}
		if j == len(want) {
			return false
		}
		j++
	}
	return true
}

func main() {
	specs := []spec{
		{"unicast/1pub-2msg/2polls", []pubSpec{{"unicast", []string{"a1", "a2"}}}, 2, false, 2, 3, false, false, false, false, false},
		{"unicast/2pub-1msg/2polls", []pubSpec{{"unicast", []string{"a1"}}, {"unicast", []string{"b1"}}}, 2, false, 2, 3, false, false, false, false, false},
		{"broadcast/1pub-2msg/2polls", []pubSpec{{"broadcast", []string{"a1", "a2"}}}, 2, false, 2, 3, false, false, false, false, false},
		{"multicast/1pub-2msg/1poll", []pubSpec{{"multicast", []string{"a1", "a2"}}}, 1, false, 2, 3, false, false, false, false, false},
		{"unicast/1pub-2msg/1poll/resubscribe", []pubSpec{{"unicast", []string{"a1", "a2"}}}, 1, true, 2, 3, false, false, false, false, false},
		{"unicast/1pub-1msg/3polls", []pubSpec{{"unicast", []string{"a1"}}}, 3, false, 2, 3, false, false, false, false, false},
		{"unicast/1pub-2msg/2polls/request-scoped-contexts", []pubSpec{{"unicast", []string{"a1", "a2"}}}, 2, false, 2, 3, true, false, false, false, false},
		{"unicast/2pub-1msg/2polls/request-scoped-contexts", []pubSpec{{"unicast", []string{"a1"}}, {"unicast", []string{"b1"}}}, 2, false, 2, 3, true, false, false, false, false},
		{name: "unicast/1pub-1msg/polls-without-timeout", pubs: []pubSpec{{"unicast", []string{"a1"}}}, quick: 2, tho: 3, nowait: true},
		{name: "unicast/2pub-1msg/polls-without-timeout", pubs: []pubSpec{{"unicast", []string{"a1"}}, {"unicast", []string{"b1"}}}, quick: 2, tho: 3, nowait: true},
		{name: "broadcast/1pub-2msg/polls-without-timeout", pubs: []pubSpec{{"broadcast", []string{"a1", "a2"}}}, quick: 2, tho: 3, nowait: true},
		{name: "unicast/1pub-1msg/2polls/client-gives-up-its-first-poll", pubs: []pubSpec{{"unicast", []string{"a1"}}}, polls: 2, quick: 2, tho: 3, abandon: true},
		{name: "unicast/1pub-1msg/2polls/deny-another-topic", pubs: []pubSpec{{"unicast", []string{"a1"}}}, polls: 2, quick: 2, tho: 3, deny: true},
		{name: "unicast/1pub-2msg/short-heartbeat/polls-time-out", pubs: []pubSpec{{"unicast", []string{"a1", "a2"}}}, quick: 2, tho: 3, heartbeat: true},
		{name: "unicast/1pub-2msg/short-heartbeat", pubs: []pubSpec{{"unicast", []string{"a1", "a2"}}}, quick: 2, tho: 3, heartbeat: true},
	}
	var scen []h.Scenario
	for _, sp := range specs {
		scen = append(scen, brokerScenario(sp))
	}
	scen = append(scen, prosumerScenario(), prosumerSecondSubscribe(), prosumerSlowCallback())
	h.Main(ID, scen, nil)
}
