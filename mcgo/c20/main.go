// C20 — circuit breaker. Exhaustive outcome/clock histories of the real plugin under the virtual clock
// against the state machine the property describes, plus schedule exploration of concurrent callers.
//go:debug panicnil=1
package main

import (
	"context"
	"errors"
	"fmt"
	"strings"
	"time"

	"github.com/hprose/hprose-golang/v3/rpc/core"
	"github.com/hprose/hprose-golang/v3/rpc/plugins/circuitbreaker"
	"verif/mcgo/h"
	"verif/vs"
)

const ID = "C20"

const rt = 10 * time.Second

var advances = []time.Duration{0, rt - 1, rt, rt + 1}
// N: the forwarded call panics with a nil value (recover returns nil for it under the panic semantics the
// library's go.mod selects, see the go:debug line above)
var outcomes = []string{"S", "E", "P", "N"}

type step struct {
	adv time.Duration
	out string
}

func (s step) String() string { return fmt.Sprintf("+%v:%s", s.adv, s.out) }

var errDown = errors.New("downstream error")

// runHistory drives one breaker instance through the history and checks every call against the model.
func runHistory(threshold uint64, mock bool, hist []step, res *h.SeqResult) {
	var log []string
	vs.Seq(vs.Config{}, func() {
		opts := []circuitbreaker.Option{circuitbreaker.WithThreshold(threshold), circuitbreaker.WithRecoverTime(rt)}
		mockCalls := 0
		if mock {
			opts = append(opts, circuitbreaker.WithMockService(func(ctx context.Context, name string, args []interface{}) ([]interface{}, error) {
				mockCalls++
				return []interface{}{"mock"}, nil
			}))
		}
		cb := circuitbreaker.New(opts...)
		// reference model: consecutive failures of forwarded calls since the last success, instant of the last
		// failure, and the failures since the last recovery event (a call forwarded because the recovery time
		// had elapsed while the count was above the threshold)
		var f, fSinceRecovery uint64
		var lastFail time.Duration
		recovered := false
		for i, st := range hist {
			if st.adv > 0 {
				vs.Sleep(st.adv)
			}
			now := vs.Elapsed()
			downstream := 0
			ioNext := func(ctx context.Context, request []byte) ([]byte, error) {
				downstream++
				switch st.out {
				case "E":
					return nil, errDown
				case "P":
					panic("downstream panic")
				case "N":
					panic(nil)
				}
				return []byte("resp"), nil
			}
			invokeNext := func(ctx context.Context, name string, args []interface{}) ([]interface{}, error) {
				r, err := cb.IOHandler(ctx, []byte("req"), ioNext)
				if err != nil {
					return nil, err
				}
				return []interface{}{string(r)}, nil
			}
			mockBefore := mockCalls
			var result []interface{}
			var err error
			func() {
				defer func() {
					if r := recover(); r != nil {
						err = fmt.Errorf("ESCAPED PANIC: %v", r)
					}
				}()
				result, err = cb.InvokeHandler(context.Background(), "f", nil, invokeNext)
			}()
			rejected := downstream == 0
			within := now-lastFail < rt
			mustForward := f <= threshold || !within
			mustReject := f > threshold && within && (!recovered || fSinceRecovery > threshold)
			where := fmt.Sprintf("threshold=%d mock=%v history=%v call #%d", threshold, mock, hist[:i+1], i)
			rep := map[string]interface{}{"kind": "history", "threshold": threshold, "mock": mock, "history": fmt.Sprint(hist[:i+1])}
			if downstream > 1 {
				res.Violate("breaker|downstream-invoked-twice", where, rep)
			}
			if rejected && mustForward {
				res.Violate("breaker|rejects-while-closed", where+fmt.Sprintf(": rejected with %v although consecutive failures=%d, %v since the last failure", err, f, now-lastFail), rep)
			}
			if !rejected && mustReject {
				res.Violate("breaker|forwards-while-open", where+fmt.Sprintf(": forwarded although consecutive failures=%d > threshold and only %v since the last failure", f, now-lastFail), rep)
			}
			// what the caller sees
			switch {
			case rejected && !mock:
				if err != circuitbreaker.ErrBreaker {
					res.Violate("breaker|wrong-reject-error", where+fmt.Sprintf(": rejected call returned %v", err), rep)
				}
			case rejected && mock:
				if err != nil || len(result) != 1 || result[0] != "mock" || mockCalls != mockBefore+1 {
					res.Violate("breaker|mock-not-served", where+fmt.Sprintf(": rejected call with mock service returned %v %v", result, err), rep)
				}
			default:
				if mockCalls != mockBefore {
					res.Violate("breaker|mock-served-while-closed", where, rep)
				}
				switch st.out {
				case "S":
					if err != nil || len(result) != 1 || result[0] != "resp" {
						res.Violate("breaker|success-not-returned", where+fmt.Sprintf(": got %v %v", result, err), rep)
					}
				case "E":
					if err != errDown {
						res.Violate("breaker|error-not-returned", where+fmt.Sprintf(": got %v", err), rep)
					}
				case "P", "N":
					if _, ok := err.(*core.PanicError); !ok {
						res.Violate("breaker|panic-not-converted", where+fmt.Sprintf(": got %T %v", err, err), rep)
					}
				}
			}
			// model update (only forwarded calls count)
			if !rejected {
				if f > threshold && !within {
					recovered, fSinceRecovery = true, 0
				}
				if st.out == "S" {
					f, fSinceRecovery, recovered = 0, 0, false
				} else {
					f++
					fSinceRecovery++
					lastFail = vs.Elapsed()
				}
			}
			log = append(log, fmt.Sprintf("%s->%s", st, map[bool]string{true: "rejected", false: "forwarded"}[rejected]))
			res.Transitions++
		}
	})
	res.Traces++
	if res.Traces%20011 == 1 {
		res.Samples = append(res.Samples, map[string]interface{}{"kind": "breaker history", "threshold": threshold, "mock": mock, "steps": log})
	}
}

func histories(shard, nshards int, thorough bool) h.SeqResult {
	var res h.SeqResult
	depth := 5
	if thorough {
		depth = 6
	}
	k := len(advances) * len(outcomes)
	states := map[string]bool{}
	h.ForEachSeq(k, depth, shard, nshards, func(seq []int) {
		hist := make([]step, len(seq))
		for i, x := range seq {
			hist[i] = step{advances[x/len(outcomes)], outcomes[x%len(outcomes)]}
		}
		for threshold := uint64(0); threshold <= 3; threshold++ {
			for _, mock := range []bool{false, true} {
				runHistory(threshold, mock, hist, &res)
			}
		}
		states[fmt.Sprint(seq)] = true
	})
	res.States = int64(len(states)) * 8
	res.Info = map[string]interface{}{"depth": depth, "alphabet": k, "histories": float64(res.Traces)}
	return res
}

// concurrent callers at one virtual instant (recovery time never elapses). Oracle: the observed decisions are
// explained by the atomic breaker. Every call is two atomic steps of the model: a decision D (forward iff the
// count of consecutive failures is <= threshold) somewhere between the call's start and the moment the
// downstream handler is entered (or the call's return, for a rejected call), and a completion C (success: count
// = 0; failure or panic: count + 1) somewhere between the downstream handler's return and the call's return. The
// harness stamps these four moments with a tracked counter (so that they are totally ordered by happens-before
// and the state cache cannot merge executions that differ in their order); the execution is accepted iff some
// placement of all D and C steps inside their windows reproduces every observed forward / reject decision.
type cbCall struct {
	start, downBegin, downEnd, ret int // stamps; -1: did not happen
	rejected, done                 bool
	downstream                     int
	err                            error
	out                            int
}

func linearizable(calls []cbCall, threshold uint64) bool {
	return linearizableFrom(calls, threshold, 0, false)
}

// linearizableFrom: the model starts with count0 consecutive failures; stale tells that the last of them is
// older than the recovery time (the breaker, if open, is due for recovery: the next decision that sees it open
// sets the count to threshold/2 and forwards). A failure during the run is recent: an open breaker then
// rejects (the recovery time never elapses again within the run).
func linearizableFrom(calls []cbCall, threshold uint64, count0 uint64, stale0 bool) bool {
	type stepT struct {
		lo, hi int // the step happens after stamp lo and before stamp hi
		call   int
		dec    bool
	}
	var steps []stepT
	maxStamp := 0
	for i, c := range calls {
		if !c.done {
			continue
		}
		if c.ret > maxStamp {
			maxStamp = c.ret
		}
		if c.rejected {
			steps = append(steps, stepT{c.start, c.ret, i, true})
		} else {
			steps = append(steps, stepT{c.start, c.downBegin, i, true}, stepT{c.downEnd, c.ret, i, false})
		}
	}
	type key struct {
		g     int
		mask  uint32
		count uint64
		stale bool
	}
	dead := map[key]bool{}
	full := uint32(1)<<uint(len(steps)) - 1
	var rec func(g int, mask uint32, count uint64, stale bool) bool
	rec = func(g int, mask uint32, count uint64, stale bool) bool {
		if mask == full {
			return true
		}
		k := key{g, mask, count, stale}
		if dead[k] {
			return false
		}
		// execute one available step in the gap after stamp g
		for i, st := range steps {
			if mask&(1<<uint(i)) != 0 || st.lo > g || st.hi <= g {
				continue
			}
			c := calls[st.call]
			if st.dec {
				forwards, n := count <= threshold, count
				if !forwards && stale {
					forwards, n = true, threshold>>1 // recovery
				}
				if forwards == c.rejected {
					continue // the atomic breaker would have decided otherwise here
				}
				if rec(g, mask|1<<uint(i), n, stale) {
					return true
				}
			} else {
				n, st2 := count+1, false // a failure now is recent
				if c.out == 0 {
					n, st2 = 0, stale
				}
				if rec(g, mask|1<<uint(i), n, st2) {
					return true
				}
			}
		}
		// or let the next stamp pass, unless a pending step must happen before it
		if g < maxStamp {
			ok := true
			for i, st := range steps {
				if mask&(1<<uint(i)) == 0 && st.hi <= g+1 {
					ok = false
				}
			}
			if ok && rec(g+1, mask, count, stale) {
				return true
			}
		}
		dead[k] = true
		return false
	}
	return rec(0, 0, count0, stale0)
}

func concurrent(n int, threshold uint64, recovery ...bool) h.Scenario {
	due := len(recovery) > 0 && recovery[0] // the breaker is open and due for recovery when the callers start
	name := fmt.Sprintf("breaker/callers=%d/threshold=%d", n, threshold)
	if due {
		name += "/open-and-due-for-recovery"
	}
	return h.Scenario{Name: name, Quick: 2, Thorough: 3, Run: func(ch vs.Chooser, trace bool) (*vs.Sched, h.Outcome) {
		calls := make([]cbCall, n*2)
		var failuresBegun vs.Var[int] // shared harness variables: tracked so that the state cache sees accesses
		var clock vs.Var[int]
		stamp := func() int {
			t := clock.Get() + 1
			clock.Set(t)
			return t
		}
		failuresBegunBefore := make([]int, n*2)
		s := vs.Run(ch, vs.Config{Trace: trace}, func() {
			cb := circuitbreaker.New(circuitbreaker.WithThreshold(threshold), circuitbreaker.WithRecoverTime(time.Hour))
			if due {
				for k := uint64(0); k <= threshold; k++ {
					cb.IOHandler(context.Background(), []byte("r"), func(ctx context.Context, request []byte) ([]byte, error) { return nil, errDown })
				}
				vs.Sleep(2 * time.Hour)
			}
			for t := 0; t < n; t++ {
				t := t
				vs.GoFG(fmt.Sprintf("caller%d", t), func() {
					for k := 0; k < 2; k++ {
						c := &calls[t*2+k]
						c.downBegin, c.downEnd = -1, -1
						c.start = stamp()
						_, c.err = cb.IOHandler(context.Background(), []byte("r"), func(ctx context.Context, request []byte) ([]byte, error) {
							c.downBegin = stamp()
							c.downstream++
							c.out = vs.Choose(3, "outcome")
							if c.out != 0 {
								failuresBegun.Set(failuresBegun.Get() + 1)
							}
							vs.Point("inside-downstream")
							c.downEnd = stamp()
							switch c.out {
							case 1:
								return nil, errDown
							case 2:
								panic("downstream panic")
							}
							return []byte("ok"), nil
						})
						c.ret = stamp()
						c.rejected = c.downstream == 0
						if c.rejected {
							failuresBegunBefore[t*2+k] = failuresBegun.Get()
						}
						c.done = true
					}
				})
			}
		})
		var o h.Outcome
		nrej, nfail := 0, 0
		for i, c := range calls {
			if !c.done {
				continue
			}
			if c.rejected {
				nrej++
				if c.err != circuitbreaker.ErrBreaker {
					o.Viol = append(o.Viol, h.V{Sig: "breaker|concurrent|wrong-reject-error", What: fmt.Sprintf("%s: call %d rejected with %v", name, i, c.err)})
				}
				if !due && uint64(failuresBegunBefore[i]) <= threshold {
					o.Viol = append(o.Viol, h.V{Sig: "breaker|concurrent|rejects-while-closed", What: fmt.Sprintf("%s: call %d rejected although only %d downstream failures had begun (threshold %d)", name, i, failuresBegunBefore[i], threshold)})
				}
			} else {
				if c.out != 0 {
					nfail++
				}
				if c.downstream != 1 {
					o.Viol = append(o.Viol, h.V{Sig: "breaker|concurrent|downstream-count", What: fmt.Sprintf("%s: call %d invoked downstream %d times", name, i, c.downstream)})
				}
				if (c.out == 0) != (c.err == nil) {
					o.Viol = append(o.Viol, h.V{Sig: "breaker|concurrent|wrong-result", What: fmt.Sprintf("%s: call %d outcome %d err %v", name, i, c.out, c.err)})
				}
			}
		}
		count0 := uint64(0)
		if due {
			count0 = threshold + 1
		}
		if !s.Pruned && s.Aborted == "" && len(o.Viol) == 0 && !linearizableFrom(calls, threshold, count0, due) {
			var hist []string
			for i, c := range calls {
				if c.done {
					hist = append(hist, fmt.Sprintf("call %d (caller %d): start@%d downstream@%d..%d outcome=%s return@%d rejected=%v", i, i/2, c.start, c.downBegin, c.downEnd, []string{"success", "error", "panic"}[c.out], c.ret, c.rejected))
				}
			}
			o.Viol = append(o.Viol, h.V{Sig: "breaker|concurrent|decisions-not-explained-by-atomic-breaker", What: fmt.Sprintf("%s: no placement of the calls' decision and completion steps inside their observed windows reproduces the forward/reject decisions: %s", name, strings.Join(hist, "; "))})
		}
		o.Key = fmt.Sprintf("rejected=%d failed=%d", nrej, nfail)
		return s, o
	}}
}

func main() {
	scen := []h.Scenario{concurrent(2, 0), concurrent(2, 1), concurrent(3, 0), concurrent(3, 1), concurrent(2, 2, true), concurrent(2, 1, true), concurrent(2, 0, true), concurrent(3, 0, true)}
	h.Main(ID, scen, nil, h.SeqPart{Name: "histories", Shards: 64, Run: histories})
}
