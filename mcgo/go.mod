// Placeholder: the driver (./check) builds this module with a generated -modfile that points the hprose
// module at the rewritten copy of /repo's working tree.
module verif/mcgo

go 1.23
