// Package h is the shared driver of the controlled-scheduler checks: scenario registry, iterative
// deviation bounding, subtree sharding over worker processes, cache cross-check, determinism replay of
// violations, evidence.
package h

import (
	"encoding/json"
	"fmt"
	"os"
	"os/exec"
	"sort"
	"strings"
	"time"

	"verif/lib/report"
	"verif/lib/shard"
	"verif/vs"
	"verif/vs/explore"
)

type V struct {
	Sig  string `json:"sig"`
	What string `json:"what"`
}

// Outcome is what a scenario's oracle says about one complete execution.
type Outcome struct {
	Key  string // observable outcome class (distinct outcomes are counted; one class = vacuous scenario)
	Viol []V
}

type Scenario struct {
	Name       string
	Quick      int   // deviation bound in the quick tier
	Thorough   int   // deviation bound in the thorough tier
	NoCache    bool  // disable the happens-before state cache for this scenario
	AllowHang  bool  // the generic "foreground thread blocked at quiescence" oracle is off (scenario decides)
	AllowAbort bool  // executions cut by the step horizon are expected (polling loops)
	MaxExecs   int64 // cap on executions per bound level (0: 300k quick / 6M thorough); hitting it ends the scenario as not exhaustive
	Run        func(ch vs.Chooser, trace bool) (*vs.Sched, Outcome)
}

// SeqPart is an explicit-state / exhaustive-history part of a check that runs on the workers in shards.
type SeqPart struct {
	Name   string
	Shards int
	Run    func(shard, nshards int, thorough bool) SeqResult
}

type SeqViol struct {
	Sig    string      `json:"sig"`
	What   string      `json:"what"`
	Replay interface{} `json:"replay"`
	Count  int64       `json:"count"`
}

type SeqResult struct {
	States      int64                  `json:"states"`
	Transitions int64                  `json:"transitions"`
	Traces      int64                  `json:"traces"`
	Viol        []SeqViol              `json:"viol"`
	Samples     []interface{}          `json:"samples"`
	Info        map[string]interface{} `json:"info"`
}

// Violate records a violation in a SeqResult (first per signature keeps its replay data).
func (r *SeqResult) Violate(sig, what string, replay interface{}) {
	for i := range r.Viol {
		if r.Viol[i].Sig == sig {
			r.Viol[i].Count++
			return
		}
	}
	r.Viol = append(r.Viol, SeqViol{sig, what, replay, 1})
}

type job struct {
	XCheck   bool    `json:"x,omitempty"`
	Seq      string  `json:"q,omitempty"`
	Shard    int     `json:"i,omitempty"`
	NShards  int     `json:"n,omitempty"`
	Thorough bool    `json:"t,omitempty"`
	Scenario string  `json:"s"`
	Bound    int     `json:"b"`
	Prefix   []int   `json:"p"`
	Prefixes [][]int `json:"ps,omitempty"`
	Budget   int64   `json:"g,omitempty"`
	Cache    bool    `json:"c"`
	Deadline int64   `json:"d"` // unix seconds
	MaxExecs int64   `json:"m,omitempty"`
}

type foundV struct {
	V
	Choices []int    `json:"choices"`
	Trace   []string `json:"trace"`
	Outcome string   `json:"outcome"`
}

type jobResult struct {
	Stats    explore.Stats    `json:"stats"`
	Outcomes map[string]int64 `json:"outcomes"`
	Viol     []foundV         `json:"viol"`
	Err      string           `json:"err"`
	Sample   []string         `json:"sample"`
	Rest     [][]int          `json:"rest,omitempty"`
}

func (sc *Scenario) runFunc(out *Outcome) explore.RunFunc {
	return func(ch vs.Chooser, trace bool) *vs.Sched {
		s, o := sc.Run(ch, trace)
		*out = o
		return s
	}
}

// generic oracles layered on every scenario
func (sc *Scenario) generic(s *vs.Sched, o *Outcome) {
	if len(s.Hangs) > 0 && !sc.AllowHang {
		o.Viol = append(o.Viol, V{Sig: "hang|" + sc.Name + "|" + hangSite(s.Hangs), What: "foreground thread(s) blocked forever: " + strings.Join(s.Hangs, "; ")})
		o.Key += " HANG"
	}
	for _, p := range s.Panics {
		first := strings.SplitN(p, "\n", 2)[0]
		o.Viol = append(o.Viol, V{Sig: "panic|" + sc.Name + "|" + panicClass(first), What: "unrecovered panic in a thread (kills the process in a real run): " + p})
		o.Key += " PANIC"
	}
	if s.Aborted != "" && !sc.AllowAbort {
		o.Viol = append(o.Viol, V{Sig: "livelock|" + sc.Name, What: "execution did not quiesce within the step horizon: " + s.Aborted})
		o.Key += " ABORTED"
	}
}

func hangSite(h []string) string {
	var parts []string
	for _, x := range h {
		parts = append(parts, x)
	}
	sort.Strings(parts)
	return strings.Join(parts, ",")
}

func panicClass(first string) string {
	// drop thread name and addresses
	if i := strings.Index(first, ": "); i >= 0 {
		first = first[i+2:]
	}
	if len(first) > 80 {
		first = first[:80]
	}
	return first
}

func (sc *Scenario) exploreJob(j job) jobResult {
	res := jobResult{Outcomes: map[string]int64{}}
	var last Outcome
	seenSig := map[string]bool{}
	ex := &explore.Explorer{Run: sc.runFunc(&last), Bound: j.Bound, UseCache: j.Cache && !sc.NoCache}
	if j.Deadline > 0 {
		ex.Deadline = time.Unix(j.Deadline, 0)
	}
	ex.MaxExecs = j.MaxExecs
	ex.Check = func(x *explore.Exec) {
		o := last
		sc.generic(x.Sched, &o)
		res.Outcomes[o.Key]++
		for _, v := range o.Viol {
			if seenSig[v.Sig] {
				continue
			}
			seenSig[v.Sig] = true
			fv := foundV{V: v, Choices: x.Choices, Outcome: o.Key}
			// determinism: the same choice list must reproduce the same outcome twice
			for k := 0; k < 2; k++ {
				var o2 Outcome
				s2, div := explore.Replay(sc.runFunc(&o2), x.Choices)
				sc.generic(s2, &o2)
				if div != "" || o2.Key != o.Key {
					res.Err = fmt.Sprintf("nondeterministic replay of a violation in %s: %s (outcome %q vs %q)", sc.Name, div, o.Key, o2.Key)
				}
				fv.Trace = s2.Trace
			}
			res.Viol = append(res.Viol, fv)
		}
	}
	if j.Prefix == nil && false {
		ex.Expand(1)
	}
	if j.Budget > 0 {
		res.Rest = ex.Budgeted(j.Prefixes, j.Budget)
	} else {
		ex.Subtree(j.Prefix)
	}
	res.Stats = ex.Stats
	if ex.Err != "" {
		res.Err = ex.Err
	}
	return res
}

type xcheckResult struct {
	Verdict  string `json:"verdict"`
	Mismatch string `json:"mismatch"`
}

func (sc *Scenario) crossCheck(cb int) xcheckResult {
	sets := [2]map[string]bool{{}, {}}
	var execs [2]int64
	for k, cache := range []bool{true, false} {
		r := sc.exploreJob(job{Scenario: sc.Name, Bound: cb, Cache: cache, Deadline: time.Now().Add(20 * time.Second).Unix()})
		if r.Stats.Capped {
			return xcheckResult{Verdict: fmt.Sprintf("inconclusive at bound %d (20 s cap)", cb)}
		}
		for o := range r.Outcomes {
			sets[k][o] = true
		}
		execs[k] = r.Stats.Executions
	}
	same := len(sets[0]) == len(sets[1])
	for o := range sets[1] {
		if !sets[0][o] {
			same = false
		}
	}
	if same {
		return xcheckResult{Verdict: fmt.Sprintf("ok at bound %d: %d outcome classes with and without cache (%d vs %d executions)", cb, len(sets[0]), execs[0], execs[1])}
	}
	return xcheckResult{Verdict: "MISMATCH", Mismatch: fmt.Sprintf("state cache pruned an outcome class: cached %v uncached %v", keys(sets[0]), keys(sets[1]))}
}

type scenStat struct {
	Bound          int              `json:"bound_completed"`
	BoundRequested int              `json:"bound_requested"`
	Stats          explore.Stats    `json:"stats"`
	Outcomes       map[string]int64 `json:"outcomes"`
	CrossCheck     string           `json:"cache_crosscheck"`
	Exhaustive     bool             `json:"exhaustive_within_bound"`
}

// Extra lets a check add sequential (explicit-state) parts; it returns states, transitions, traces.
type Extra func(run *report.Run) (states, transitions, traces int64, samples []interface{})

func Main(id string, scenarios []Scenario, extra Extra, seqParts ...SeqPart) {
	byName := map[string]*Scenario{}
	for i := range scenarios {
		byName[scenarios[i].Name] = &scenarios[i]
	}
	seqByName := map[string]*SeqPart{}
	for i := range seqParts {
		seqByName[seqParts[i].Name] = &seqParts[i]
	}
	if shard.IsWorker() {
		shard.Serve(func(raw json.RawMessage) interface{} {
			var j job
			json.Unmarshal(raw, &j)
			if j.Seq != "" {
				return seqByName[j.Seq].Run(j.Shard, j.NShards, j.Thorough)
			}
			if j.XCheck {
				return byName[j.Scenario].crossCheck(j.Bound)
			}
			return byName[j.Scenario].exploreJob(j)
		})
	}
	if len(os.Args) > 2 && os.Args[1] == "--replay" {
		replay(id, byName, seqByName, os.Args[2])
		return
	}
	run := report.New(id, "model_checking")
	// code under test may print (a stray fmt.Println in one balancer): keep the check's stdout clean
	realStdout := os.Stdout
	if null, err := os.OpenFile(os.DevNull, os.O_WRONLY, 0); err == nil {
		os.Stdout = null
	}
	thorough := run.Thorough()
	budget := 240 * time.Second // safety net only: the per-scenario execution caps decide how much a quick run explores
	if thorough {
		budget = 25 * time.Minute
	}
	if b := os.Getenv("VERIF_BUDGET_S"); b != "" {
		var n int
		fmt.Sscan(b, &n)
		budget = time.Duration(n) * time.Second
	}
	start := time.Now()
	deadline := start.Add(budget)
	only := os.Getenv("VERIF_SCENARIO")

	var xStates, xTrans, xTraces int64
	var samples []interface{}
	if extra != nil && only == "" {
		st, tr, tc, sm := extra(run)
		xStates, xTrans, xTraces = st, tr, tc
		samples = append(samples, sm...)
	}

	if len(seqParts) > 0 && only == "" {
		var jobs []interface{}
		for _, sp := range seqParts {
			n := sp.Shards
			if n <= 0 {
				n = 16
			}
			for i := 0; i < n; i++ {
				jobs = append(jobs, job{Seq: sp.Name, Shard: i, NShards: n, Thorough: thorough})
			}
		}
		info := map[string]interface{}{}
		shard.Run(jobs, shard.Options{JobTimeout: budget + 2*time.Minute, Env: []string{"GOMAXPROCS=1"}}, func(i int, raw json.RawMessage, fail *shard.Failure) {
			j := jobs[i].(job)
			if fail != nil {
				run.Infra(fmt.Sprintf("%s shard %d: worker %s: %s\n%s", j.Seq, j.Shard, fail.Kind, fail.Exit, fail.Stderr))
				return
			}
			var r SeqResult
			if err := json.Unmarshal(raw, &r); err != nil {
				run.Infra("bad worker result: " + err.Error())
				return
			}
			xStates += r.States
			xTrans += r.Transitions
			xTraces += r.Traces
			for _, v := range r.Viol {
				for k := int64(0); k < v.Count; k++ {
					// replay = re-run of the (deterministic) shard that reported it; detail = what the part recorded
					run.Violate(id+"|"+v.Sig, v.What, map[string]interface{}{"seq": j.Seq, "shard": j.Shard, "nshards": j.NShards, "thorough": j.Thorough, "detail": v.Replay})
					if k > 3 {
						break
					}
				}
			}
			if len(samples) < 10 {
				samples = append(samples, r.Samples...)
			}
			for k, v := range r.Info {
				if f, ok := v.(float64); ok {
					old, _ := info[j.Seq+"."+k].(float64)
					info[j.Seq+"."+k] = old + f
				} else {
					info[j.Seq+"."+k] = v
				}
			}
		})
		run.Set("explicit_state_parts", info)
	}

	if aux := os.Getenv("VERIF_AUX_BIN"); aux != "" && only == "" {
		cmd := exec.Command(aux)
		cmd.Env = append(os.Environ(), "GORACE=halt_on_error=1 exitcode=66")
		var stderr strings.Builder
		cmd.Stderr = &stderr
		outb, err := cmd.Output()
		var a struct {
			Evaluations int64                  `json:"evaluations"`
			Viol        []SeqViol              `json:"viol"`
			Info        map[string]interface{} `json:"info"`
		}
		if err != nil {
			if ee, ok := err.(*exec.ExitError); ok && ee.ExitCode() == 66 {
				msg := stderr.String()
				if len(msg) > 3000 {
					msg = msg[:3000]
				}
				run.Violate(id+"|free-running|data-race-detected", "the race detector reported a data race in the free-running pass:\n"+msg, map[string]interface{}{"kind": "aux"})
			} else if msg := stderr.String(); strings.Contains(msg, "panic:") || strings.Contains(msg, "fatal error:") {
				// the free-running part runs the library in its own process: a panic on a goroutine nobody
				// recovers, or a fatal error, is the death of an application that uses the library
				if len(msg) > 3000 {
					msg = msg[:3000]
				}
				run.Violate(id+"|free-running|process-death", "the free-running part died: "+err.Error()+"\n"+msg, map[string]interface{}{"kind": "aux"})
			} else {
				run.Infra("auxiliary binary failed: " + err.Error() + "\n" + stderr.String())
			}
		} else if jerr := json.Unmarshal(outb, &a); jerr != nil {
			run.Infra("auxiliary binary: bad output: " + jerr.Error())
		} else {
			xTraces += a.Evaluations
			xTrans += a.Evaluations
			for _, v := range a.Viol {
				run.Violate(id+"|"+v.Sig, v.What, map[string]interface{}{"kind": "aux"})
			}
			run.Set("auxiliary_free_running_part", a.Info)
		}
	}

	stats := map[string]*scenStat{}
	maxB := 0
	for i := range scenarios {
		sc := &scenarios[i]
		if only != "" && !strings.Contains(sc.Name, only) {
			continue
		}
		b := sc.Quick
		if thorough {
			b = sc.Thorough
		}
		stats[sc.Name] = &scenStat{Bound: -1, BoundRequested: b, Outcomes: map[string]int64{}, Exhaustive: true}
		if b > maxB {
			maxB = b
		}
	}
	record := func(name string, r jobResult, st *scenStat) {
		st.Stats.Add(r.Stats)
		for k, n := range r.Outcomes {
			st.Outcomes[k] += n
		}
		if r.Err != "" {
			run.Infra(name + ": " + r.Err)
		}
		for _, v := range r.Viol {
			run.Violate(id+"|"+v.Sig, v.What, map[string]interface{}{"scenario": name, "choices": v.Choices, "trace": v.Trace, "outcome": v.Outcome})
		}
	}
	for b := 0; b <= maxB; b++ {
		capped := map[string]bool{}
		pending := map[string][][]int{}
		caps := map[string]int64{}
		for i := range scenarios {
			sc := &scenarios[i]
			st := stats[sc.Name]
			if st == nil || st.BoundRequested < b || !st.Exhaustive {
				continue
			}
			if time.Now().After(deadline) {
				st.Exhaustive = false
				continue
			}
			// the coordinator expands the tree to a frontier of subtrees and checks what it runs on the way
			var last Outcome
			res := jobResult{Outcomes: map[string]int64{}}
			ex := &explore.Explorer{Run: sc.runFunc(&last), Bound: b, UseCache: false, Deadline: deadline, MaxExecs: 20000}
			seenSig := map[string]bool{}
			ex.Check = func(x *explore.Exec) {
				o := last
				sc.generic(x.Sched, &o)
				res.Outcomes[o.Key]++
				for _, v := range o.Viol {
					if !seenSig[v.Sig] {
						seenSig[v.Sig] = true
						var o2 Outcome
						s2, _ := explore.Replay(sc.runFunc(&o2), x.Choices)
						res.Viol = append(res.Viol, foundV{V: v, Choices: x.Choices, Outcome: o.Key, Trace: s2.Trace})
					}
				}
			}
			frontier := ex.Expand(400)
			res.Stats = ex.Stats
			res.Err = ex.Err
			if b == st.BoundRequested && len(samples) < 12 {
				var o2 Outcome
				s2, _ := explore.Replay(sc.runFunc(&o2), nil)
				samples = append(samples, map[string]interface{}{"scenario": sc.Name, "schedule": "default (all choices 0)", "trace": s2.Trace, "outcome": o2.Key})
			}
			st.Stats = explore.Stats{}
			st.Outcomes = map[string]int64{}
			record(sc.Name, res, st)
			if ex.Stats.Capped {
				capped[sc.Name] = true
			}
			capExecs := sc.MaxExecs
			if capExecs == 0 {
				capExecs = 100000
				if thorough {
					capExecs = 5000000
				}
			}
			caps[sc.Name] = capExecs
			pending[sc.Name] = frontier
		}
		// dynamic rounds: every job explores a few thousand executions of its subtrees and returns what is left
		for round := 0; ; round++ {
			var jobs []interface{}
			var owner []string
			for name, pre := range pending {
				st := stats[name]
				if len(pre) == 0 {
					continue
				}
				if time.Now().After(deadline) || st.Stats.Executions > caps[name] {
					capped[name] = true
					pending[name] = nil
					continue
				}
				chunk := len(pre)/16 + 1
				if chunk > 24 {
					chunk = 24
				}
				for k := 0; k < len(pre); k += chunk {
					e := k + chunk
					if e > len(pre) {
						e = len(pre)
					}
					jobs = append(jobs, job{Scenario: name, Bound: b, Prefixes: pre[k:e], Budget: 3000, Cache: true, Deadline: deadline.Unix()})
					owner = append(owner, name)
				}
				pending[name] = nil
			}
			if len(jobs) == 0 {
				break
			}
			shard.Run(jobs, shard.Options{JobTimeout: budget + 2*time.Minute, Env: []string{"GOMAXPROCS=1"}}, func(i int, raw json.RawMessage, fail *shard.Failure) {
				name := owner[i]
				st := stats[name]
				if fail != nil {
					run.Infra(fmt.Sprintf("%s: worker %s: %s\n%s", name, fail.Kind, fail.Exit, fail.Stderr))
					capped[name] = true
					return
				}
				var r jobResult
				if err := json.Unmarshal(raw, &r); err != nil {
					run.Infra("bad worker result: " + err.Error())
					return
				}
				record(name, r, st)
				if r.Stats.Capped {
					capped[name] = true
				}
				pending[name] = append(pending[name], r.Rest...)
			})
		}
		for name, st := range stats {
			if st.BoundRequested < b || !st.Exhaustive {
				continue
			}
			if capped[name] {
				st.Exhaustive = false
			} else {
				st.Bound = b
			}
		}
	}
	// cache cross-check (on the workers): bound min(completed,1) without the cache must yield the same
	// outcome classes as with it
	{
		var jobs []interface{}
		var names []string
		for i := range scenarios {
			sc := &scenarios[i]
			st := stats[sc.Name]
			if st == nil || sc.NoCache || st.Bound < 0 {
				continue
			}
			cb := st.Bound
			if cb > 1 {
				cb = 1
			}
			if st.Stats.Executions > 30000 {
				cb = 0 // large scenario: the uncached run at bound 1 would dominate the check's run time
			}
			jobs = append(jobs, job{Scenario: sc.Name, Bound: cb, XCheck: true})
			names = append(names, sc.Name)
		}
		shard.Run(jobs, shard.Options{JobTimeout: 5 * time.Minute, Env: []string{"GOMAXPROCS=1"}}, func(i int, raw json.RawMessage, fail *shard.Failure) {
			st := stats[names[i]]
			if fail != nil {
				st.CrossCheck = "failed: " + fail.Kind
				run.Infra(names[i] + ": cross-check worker " + fail.Kind + "\n" + fail.Stderr)
				return
			}
			var r xcheckResult
			json.Unmarshal(raw, &r)
			st.CrossCheck = r.Verdict
			if r.Mismatch != "" {
				run.Infra(names[i] + ": " + r.Mismatch)
			}
		})
	}
	var states, trans, traces int64 = xStates, xTrans, xTraces
	allEx := true
	var vacuous []string
	minBound := 1 << 30
	for name, st := range stats {
		states += st.Stats.States
		trans += st.Stats.Steps
		traces += st.Stats.Executions
		if !st.Exhaustive {
			allEx = false
		}
		if len(st.Outcomes) <= 1 {
			vacuous = append(vacuous, name)
		}
		if st.Bound < minBound {
			minBound = st.Bound
		}
	}
	if states == 0 {
		states = traces // without cache every execution end is a distinct explored state
	}
	run.Set("states", states)
	run.Set("transitions", trans)
	run.Set("traces_validated_against_impl", traces)
	run.Set("samples", samples)
	run.Set("scenarios", stats)
	run.Set("exhaustive", allEx)
	run.Set("min_bound_completed", minBound)
	run.Set("single_outcome_scenarios", vacuous)
	run.Set("explanation", "states = distinct happens-before states cached by the explorer (plus model states of the explicit-state parts); transitions = scheduling steps executed on the real (rewritten) code plus real handler calls of the explicit-state parts; traces_validated_against_impl = complete executions: every explored schedule runs the implementation itself")
	run.Assumption("sequentially consistent memory; the vs shims model Go's sync/channel/select/timer semantics (litmus suite); data races on plain memory are invisible to a cooperative scheduler")
	os.Stdout = realStdout
	run.Assumption("exhaustive within the stated deviation bound (preemptions + eager timer firings) per scenario; data choices and switches at blocking points are always fully enumerated")
	run.Finish()
}

func keys(m map[string]bool) []string {
	var out []string
	for k := range m {
		out = append(out, k)
	}
	sort.Strings(out)
	return out
}

func replay(id string, byName map[string]*Scenario, seqByName map[string]*SeqPart, path string) {
	sig, raw := report.LoadReplay(path)
	var r struct {
		Scenario string `json:"scenario"`
		Choices  []int  `json:"choices"`
		Seq      string `json:"seq"`
		Shard    int    `json:"shard"`
		NShards  int    `json:"nshards"`
		Thorough bool   `json:"thorough"`
	}
	if err := json.Unmarshal(raw, &r); err == nil && r.Seq != "" && seqByName[r.Seq] != nil {
		// a violation of an explicit-state part: the shard that reported it is re-run (a total, deterministic enumeration)
		res := seqByName[r.Seq].Run(r.Shard, r.NShards, r.Thorough)
		for _, v := range res.Viol {
			if id+"|"+v.Sig == sig {
				fmt.Printf("REPRODUCED %s|%s: %s\n", id, v.Sig, v.What)
				fmt.Printf("VIOLATION property=%s replay=%s\n", id, path)
				os.Exit(1)
			}
		}
		fmt.Println("not reproduced")
		os.Exit(0)
	}
	if err := json.Unmarshal(raw, &r); err != nil || byName[r.Scenario] == nil {
		fmt.Println("replay: unknown scenario", r.Scenario, err)
		os.Exit(2)
	}
	sc := byName[r.Scenario]
	var o Outcome
	s, div := explore.Replay(sc.runFunc(&o), r.Choices)
	sc.generic(s, &o)
	for _, l := range s.Trace {
		fmt.Println("  ", l)
	}
	fmt.Println("outcome:", o.Key)
	if div != "" {
		fmt.Println("REPLAY DIVERGED:", div)
		os.Exit(2)
	}
	if len(o.Viol) > 0 {
		for _, v := range o.Viol {
			fmt.Printf("REPRODUCED %s|%s: %s\n", id, v.Sig, v.What)
		}
		fmt.Printf("VIOLATION property=%s replay=%s\n", id, path)
		os.Exit(1)
	}
	fmt.Println("not reproduced")
	os.Exit(0)
}

// ForEachSeq enumerates every sequence of length 1..depth over an alphabet of size k and calls f for the
// sequences whose ordinal falls into this shard (a total, deterministic partition).
func ForEachSeq(k, depth, shard, nshards int, f func(seq []int)) {
	ord := 0
	for l := 1; l <= depth; l++ {
		seq := make([]int, l)
		for {
			if ord%nshards == shard {
				f(seq)
			}
			ord++
			i := l - 1
			for i >= 0 {
				seq[i]++
				if seq[i] < k {
					break
				}
				seq[i] = 0
				i--
			}
			if i < 0 {
				break
			}
		}
	}
}

// AllChoices runs body under the controlled scheduler once for every combination of data choices
// (random draws, map orders, harness choices) with no preemptions, and calls check after each run.
func AllChoices(cfg vs.Config, body func(), check func(s *vs.Sched)) (executions int64, err string) {
	ex := &explore.Explorer{Bound: 0, Run: func(ch vs.Chooser, trace bool) *vs.Sched {
		c := cfg
		c.Trace = trace
		return vs.Run(ch, c, body)
	}}
	ex.Check = func(x *explore.Exec) { check(x.Sched) }
	ex.Subtree(nil)
	return ex.Stats.Executions, ex.Err
}
