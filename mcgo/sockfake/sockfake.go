// Package sockfake scripts the peer of the socket and udp client transports inside the fake connection
// (lean-harness rule: the peer is a function of the bytes written, not a thread).
package sockfake

import (
	"hash/crc32"

	"verif/vs"
)

// ---- stream (tcp/unix) framing: crc32 | 0x80000000+length | index, all big endian ----

func Header(length, index int) []byte {
	h := make([]byte, 12)
	h[11], h[10], h[9], h[8] = byte(index), byte(index>>8), byte(index>>16), byte(index>>24)
	h[7], h[6], h[5], h[4] = byte(length), byte(length>>8), byte(length>>16), byte(length>>24)|0x80
	crc := crc32.ChecksumIEEE(h[4:])
	h[3], h[2], h[1], h[0] = byte(crc), byte(crc>>8), byte(crc>>16), byte(crc>>24)
	return h
}

func Frame(index int, body []byte) []byte { return append(Header(len(body), index), body...) }

// ParseFrame returns the first complete frame in in (n = bytes consumed, 0 if incomplete).
func ParseFrame(in []byte) (n, index int, body []byte) {
	if len(in) < 12 {
		return 0, 0, nil
	}
	l := int(in[7]) | int(in[6])<<8 | int(in[5])<<16 | int(in[4]&0x7f)<<24
	if len(in) < 12+l {
		return 0, 0, nil
	}
	index = int(in[11]) | int(in[10])<<8 | int(in[9])<<16 | int(in[8])<<24
	return 12 + l, index, in[12 : 12+l]
}

func Reply(body []byte) []byte { return append([]byte("re:"), body...) }

// Echo is the healthy peer: every request is answered at once with "re:"+body.
func Echo(name string) *vs.ScriptConn {
	return &vs.ScriptConn{Name: name, React: func(c *vs.ScriptConn, in []byte) (int, []byte, bool) {
		n, idx, body := ParseFrame(in)
		if n == 0 {
			return 0, nil, false
		}
		return n, Frame(idx, Reply(body)), false
	}}
}

// Fault describes where in the exchange the peer misbehaves and how.
type Fault struct {
	Pos string // after-header | after-request | mid-response-header | mid-response-body | after-response
	Act string // close | reset | silent | bad-checksum | oversized-length | garbage
}

func Positions() []string {
	return []string{"after-header", "after-request", "mid-response-header", "mid-response-body", "after-response"}
}
func Actions() []string {
	return []string{"close", "reset", "silent", "bad-checksum", "oversized-length", "garbage"}
}

type resetErr struct{}

func (resetErr) Error() string   { return "read: connection reset by peer" }
func (resetErr) Timeout() bool   { return false }
func (resetErr) Temporary() bool { return false }

// Faulty is a peer that behaves like Echo until the first request reaches the fault position.
func Faulty(name string, f Fault) *vs.ScriptConn {
	done := false
	return &vs.ScriptConn{Name: name, React: func(c *vs.ScriptConn, in []byte) (int, []byte, bool) {
		act := func(prefix []byte) (int, []byte, bool) {
			done = true
			switch f.Act {
			case "close":
				return len(in), prefix, true
			case "reset":
				c.PeerClose(resetErr{})
				return len(in), prefix, false
			case "silent":
				return len(in), prefix, false
			case "bad-checksum":
				h := Header(3, 1)
				h[0] ^= 0xff
				return len(in), append(append(prefix, h...), "xyz"...), false
			case "oversized-length":
				return len(in), append(prefix, Header(0x7fffffff, 1)...), false
			case "garbage":
				return len(in), append(prefix, "GARBAGE-GARBAGE-GARBAGE-GARBAGE"...), false
			}
			panic("bad action " + f.Act)
		}
		if done {
			return len(in), nil, false // whatever else arrives is swallowed
		}
		if f.Pos == "after-header" {
			if len(in) >= 12 {
				return act(nil)
			}
			return 0, nil, false
		}
		n, idx, body := ParseFrame(in)
		if n == 0 {
			return 0, nil, false
		}
		resp := Frame(idx, Reply(body))
		switch f.Pos {
		case "after-request":
			return act(nil)
		case "mid-response-header":
			return act(resp[:5])
		case "mid-response-body":
			return act(resp[:14])
		case "after-response":
			return act(resp)
		}
		panic("bad position " + f.Pos)
	}}
}

// ---- datagram (udp) framing: crc32 | length(16) | index(16) ----

func UHeader(length, index int) []byte {
	h := make([]byte, 8)
	h[7], h[6] = byte(index), byte(index>>8)
	h[5], h[4] = byte(length), byte(length>>8)
	crc := crc32.ChecksumIEEE(h[4:])
	h[3], h[2], h[1], h[0] = byte(crc), byte(crc>>8), byte(crc>>16), byte(crc>>24)
	return h
}

func UFrame(index int, body []byte) []byte { return append(UHeader(len(body), index), body...) }

func UParse(d []byte) (index int, body []byte, ok bool) {
	if len(d) < 8 {
		return 0, nil, false
	}
	l := int(d[5]) | int(d[4])<<8
	if len(d) < 8+l {
		return 0, nil, false
	}
	return int(d[7]) | int(d[6])<<8, d[8 : 8+l], true
}

func UEcho(name string) *vs.DgramConn {
	return &vs.DgramConn{Name: name, React: func(c *vs.DgramConn, d []byte) [][]byte {
		idx, body, ok := UParse(d)
		if !ok {
			return nil
		}
		return [][]byte{UFrame(idx, Reply(body))}
	}}
}
