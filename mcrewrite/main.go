// Throwaway spike: type-aware rewriter of Go concurrency constructs into shim calls.
package main

import (
	"bytes"
	"flag"
	"fmt"
	"go/ast"
	"go/format"
	"go/token"
	"go/types"
	"os"
	"path/filepath"
	"strconv"
	"strings"

	"golang.org/x/tools/go/ast/astutil"
	"golang.org/x/tools/go/packages"
)

const vsPath = "verif/vs"

var selMap = func() map[[2]string]string {
	m := map[[2]string]string{}
	add := func(pkg string, names ...string) {
		for _, n := range names {
			m[[2]string{pkg, n}] = n
		}
	}
	add("sync", "Mutex", "RWMutex", "Once", "WaitGroup", "Map", "Pool")
	add("sync/atomic", "AddInt32", "AddInt64", "AddUint32", "AddUint64", "LoadInt32", "LoadInt64", "LoadUint32", "LoadUint64",
		"StoreInt32", "StoreInt64", "StoreUint32", "StoreUint64", "SwapInt32", "SwapInt64",
		"CompareAndSwapInt32", "CompareAndSwapInt64", "CompareAndSwapUint32", "CompareAndSwapUint64")
	add("time", "Now", "Since", "Until", "After", "Sleep", "NewTimer", "AfterFunc", "Timer")
	add("context", "Background", "TODO", "WithCancel", "WithTimeout", "WithDeadline", "WithValue")
	add("math/rand", "Intn", "Int63n", "Int31n", "Int63", "Int", "Float64", "Seed", "Shuffle")
	add("runtime", "Gosched")
	add("net", "Dialer")
	return m
}()

// third-party packages that are replaced by scripted fakes in the rewritten copy: import path -> (name, path)
var importRedirect = map[string][2]string{
	"github.com/fasthttp/websocket": {"websocket", "verif/fakews"},
}

// constructs that would silently escape the scheduler: refuse them
var forbidden = map[[2]string]bool{
	{"sync", "Cond"}: true, {"sync", "NewCond"}: true, {"time", "Tick"}: true, {"time", "NewTicker"}: true,
	{"reflect", "Select"}: true, {"context", "AfterFunc"}: true, {"context", "WithCancelCause"}: true,
	{"sync/atomic", "Value"}: true, {"sync/atomic", "Int32"}: true, {"sync/atomic", "Int64"}: true, {"sync/atomic", "Bool"}: true,
	{"sync/atomic", "Pointer"}: true, {"sync/atomic", "LoadPointer"}: true, {"sync/atomic", "StorePointer"}: true,
	{"sync/atomic", "CompareAndSwapPointer"}: true, {"sync/atomic", "SwapPointer"}: true,
}

type rw struct {
	pkg     *packages.Package
	n       int
	mapPkgs bool
	mapFn   string
	used    bool
}

func (r *rw) tmp(p string) string { r.n++; return fmt.Sprintf("_%s%d", p, r.n) }
func vsSel(name string) ast.Expr {
	return &ast.SelectorExpr{X: ast.NewIdent("vs"), Sel: ast.NewIdent(name)}
}
func call(fn ast.Expr, args ...ast.Expr) *ast.CallExpr { return &ast.CallExpr{Fun: fn, Args: args} }
func (r *rw) isChan(e ast.Expr) bool {
	t := r.pkg.TypesInfo.TypeOf(e)
	if t == nil {
		return false
	}
	_, ok := t.Underlying().(*types.Chan)
	return ok
}
func (r *rw) isBuiltin(e ast.Expr, name string) bool {
	id, ok := e.(*ast.Ident)
	if !ok || id.Name != name {
		return false
	}
	_, ok = r.pkg.TypesInfo.Uses[id].(*types.Builtin)
	return ok
}
func recvOf(e ast.Expr) (ast.Expr, bool) {
	for {
		p, ok := e.(*ast.ParenExpr)
		if !ok {
			break
		}
		e = p.X
	}
	if u, ok := e.(*ast.UnaryExpr); ok && u.Op == token.ARROW {
		return u.X, true
	}
	return nil, false
}

func (r *rw) selectStmt(s *ast.SelectStmt) ast.Stmt {
	r.used = true
	blk := &ast.BlockStmt{}
	var caseVars []ast.Expr
	hasDefault := "false"
	sw := &ast.SwitchStmt{Body: &ast.BlockStmt{}}
	sr := r.tmp("sr")
	idx := 0
	for _, c := range s.Body.List {
		cc := c.(*ast.CommClause)
		if cc.Comm == nil {
			hasDefault = "true"
			sw.Body.List = append(sw.Body.List, &ast.CaseClause{Body: cc.Body})
			continue
		}
		cv := r.tmp("sc")
		var mk ast.Expr
		var pre []ast.Stmt
		switch st := cc.Comm.(type) {
		case *ast.SendStmt:
			mk = call(vsSel("CaseSend"), st.Chan, st.Value)
		case *ast.ExprStmt:
			ch, ok := recvOf(st.X)
			if !ok {
				panic("bad select recv")
			}
			mk = call(vsSel("CaseRecv"), ch)
		case *ast.AssignStmt:
			ch, ok := recvOf(st.Rhs[0])
			if !ok {
				panic("bad select assign")
			}
			mk = call(vsSel("CaseRecv"), ch)
			val := call(&ast.SelectorExpr{X: ast.NewIdent(cv), Sel: ast.NewIdent("Val")}, ast.NewIdent(sr))
			rhs := []ast.Expr{val}
			if len(st.Lhs) == 2 {
				rhs = []ast.Expr{call(&ast.SelectorExpr{X: ast.NewIdent(cv), Sel: ast.NewIdent("Val2")}, ast.NewIdent(sr))}
			}
			pre = append(pre, &ast.AssignStmt{Lhs: st.Lhs, Tok: st.Tok, Rhs: rhs})
			// silence "declared and not used" for := forms
			if st.Tok == token.DEFINE {
				for _, l := range st.Lhs {
					if id, ok := l.(*ast.Ident); ok && id.Name != "_" {
						pre = append(pre, &ast.AssignStmt{Lhs: []ast.Expr{ast.NewIdent("_")}, Tok: token.ASSIGN, Rhs: []ast.Expr{ast.NewIdent(id.Name)}})
					}
				}
			}
		default:
			panic("unknown comm")
		}
		blk.List = append(blk.List, &ast.AssignStmt{Lhs: []ast.Expr{ast.NewIdent(cv)}, Tok: token.DEFINE, Rhs: []ast.Expr{mk}})
		caseVars = append(caseVars, ast.NewIdent(cv))
		sw.Body.List = append(sw.Body.List, &ast.CaseClause{
			List: []ast.Expr{&ast.BasicLit{Kind: token.INT, Value: strconv.Itoa(idx)}},
			Body: append(pre, cc.Body...),
		})
		idx++
	}
	if hasDefault == "false" {
		sw.Body.List = append(sw.Body.List, &ast.CaseClause{Body: []ast.Stmt{&ast.ExprStmt{X: call(ast.NewIdent("panic"), &ast.BasicLit{Kind: token.STRING, Value: `"vs: bad select index"`})}}})
	}
	args := append([]ast.Expr{ast.NewIdent(hasDefault)}, caseVars...)
	sw.Init = &ast.AssignStmt{Lhs: []ast.Expr{ast.NewIdent(sr)}, Tok: token.DEFINE, Rhs: []ast.Expr{call(vsSel("Select"), args...)}}
	sw.Tag = &ast.SelectorExpr{X: ast.NewIdent(sr), Sel: ast.NewIdent("I")}
	blk.List = append(blk.List, sw)
	return blk
}

func (r *rw) goStmt(g *ast.GoStmt) ast.Stmt {
	r.used = true
	blk := &ast.BlockStmt{}
	c := g.Call
	fun := c.Fun
	if _, isLit := fun.(*ast.FuncLit); !isLit {
		if _, isId := fun.(*ast.Ident); !isId {
			fv := r.tmp("gf")
			blk.List = append(blk.List, &ast.AssignStmt{Lhs: []ast.Expr{ast.NewIdent(fv)}, Tok: token.DEFINE, Rhs: []ast.Expr{fun}})
			fun = ast.NewIdent(fv)
		}
	}
	var args []ast.Expr
	for _, a := range c.Args {
		tv := r.pkg.TypesInfo.Types[a]
		if tv.Value != nil || tv.IsNil() {
			args = append(args, a)
			continue
		}
		av := r.tmp("ga")
		blk.List = append(blk.List, &ast.AssignStmt{Lhs: []ast.Expr{ast.NewIdent(av)}, Tok: token.DEFINE, Rhs: []ast.Expr{a}})
		args = append(args, ast.NewIdent(av))
	}
	inner := &ast.CallExpr{Fun: fun, Args: args, Ellipsis: c.Ellipsis}
	if c.Ellipsis != token.NoPos {
		inner.Ellipsis = 1
	}
	lit := &ast.FuncLit{Type: &ast.FuncType{Params: &ast.FieldList{}}, Body: &ast.BlockStmt{List: []ast.Stmt{&ast.ExprStmt{X: inner}}}}
	blk.List = append(blk.List, &ast.ExprStmt{X: call(vsSel("Go"), lit)})
	return blk
}

func (r *rw) rangeStmt(s *ast.RangeStmt) ast.Stmt {
	t := r.pkg.TypesInfo.TypeOf(s.X)
	switch t.Underlying().(type) {
	case *types.Chan:
		r.used = true
		ok := r.tmp("ok")
		var lhs ast.Expr = ast.NewIdent("_")
		tok := token.DEFINE
		if s.Key != nil {
			lhs = s.Key
			tok = s.Tok
		}
		chv := r.tmp("rc")
		recv := &ast.AssignStmt{Lhs: []ast.Expr{lhs, ast.NewIdent(ok)}, Tok: tok, Rhs: []ast.Expr{call(vsSel("Recv2"), ast.NewIdent(chv))}}
		if tok == token.ASSIGN {
			// need ok declared
			recv = &ast.AssignStmt{Lhs: []ast.Expr{lhs, ast.NewIdent(ok)}, Tok: token.ASSIGN, Rhs: recv.Rhs}
		}
		body := &ast.BlockStmt{List: append([]ast.Stmt{recv,
			&ast.IfStmt{Cond: &ast.UnaryExpr{Op: token.NOT, X: ast.NewIdent(ok)}, Body: &ast.BlockStmt{List: []ast.Stmt{&ast.BranchStmt{Tok: token.BREAK}}}},
		}, s.Body.List...)}
		blk := &ast.BlockStmt{List: []ast.Stmt{
			&ast.AssignStmt{Lhs: []ast.Expr{ast.NewIdent(chv)}, Tok: token.DEFINE, Rhs: []ast.Expr{s.X}},
		}}
		if tok == token.ASSIGN {
			blk.List = append(blk.List, &ast.DeclStmt{Decl: &ast.GenDecl{Tok: token.VAR, Specs: []ast.Spec{&ast.ValueSpec{Names: []*ast.Ident{ast.NewIdent(ok)}, Type: ast.NewIdent("bool")}}}})
		}
		blk.List = append(blk.List, &ast.ForStmt{Body: body})
		return blk
	case *types.Map:
		if !r.mapPkgs || s.Key == nil || s.Tok != token.DEFINE {
			return s
		}
		r.used = true
		mv, kv := r.tmp("rm"), r.tmp("rk")
		keyId, isId := s.Key.(*ast.Ident)
		if !isId {
			return s
		}
		var pre []ast.Stmt
		kname := keyId.Name
		if kname == "_" {
			kname = r.tmp("k")
		}
		if s.Value != nil {
			okv := r.tmp("ok")
			pre = append(pre,
				&ast.AssignStmt{Lhs: []ast.Expr{s.Value, ast.NewIdent(okv)}, Tok: token.DEFINE, Rhs: []ast.Expr{&ast.IndexExpr{X: ast.NewIdent(mv), Index: ast.NewIdent(kname)}}},
				&ast.IfStmt{Cond: &ast.UnaryExpr{Op: token.NOT, X: ast.NewIdent(okv)}, Body: &ast.BlockStmt{List: []ast.Stmt{&ast.BranchStmt{Tok: token.CONTINUE}}}},
			)
			if id, ok := s.Value.(*ast.Ident); ok && id.Name != "_" {
				pre = append(pre, &ast.AssignStmt{Lhs: []ast.Expr{ast.NewIdent("_")}, Tok: token.ASSIGN, Rhs: []ast.Expr{ast.NewIdent(id.Name)}})
			}
		}
		loop := &ast.RangeStmt{Key: ast.NewIdent("_"), Value: ast.NewIdent(kname), Tok: token.DEFINE, X: ast.NewIdent(kv),
			Body: &ast.BlockStmt{List: append(pre, s.Body.List...)}}
		if keyId.Name != "_" {
			loop.Body.List = append([]ast.Stmt{&ast.AssignStmt{Lhs: []ast.Expr{ast.NewIdent("_")}, Tok: token.ASSIGN, Rhs: []ast.Expr{ast.NewIdent(kname)}}}, loop.Body.List...)
		}
		return &ast.BlockStmt{List: []ast.Stmt{
			&ast.AssignStmt{Lhs: []ast.Expr{ast.NewIdent(mv)}, Tok: token.DEFINE, Rhs: []ast.Expr{s.X}},
			&ast.AssignStmt{Lhs: []ast.Expr{ast.NewIdent(kv)}, Tok: token.DEFINE, Rhs: []ast.Expr{call(vsSel(r.mapFn), ast.NewIdent(mv))}},
			loop,
		}}
	}
	return s
}

func (r *rw) file(f *ast.File) {
	info := r.pkg.TypesInfo
	removed := map[string]int{} // import path -> remaining uses
	astutil.Apply(f, nil, func(c *astutil.Cursor) bool {
		switch n := c.Node().(type) {
		case *ast.SelectorExpr:
			if id, ok := n.X.(*ast.Ident); ok {
				if pn, ok := info.Uses[id].(*types.PkgName); ok {
					if forbidden[[2]string{pn.Imported().Path(), n.Sel.Name}] {
						panic(fmt.Sprintf("%s.%s is not supported by the controlled scheduler", pn.Imported().Path(), n.Sel.Name))
					}
					if to, ok := selMap[[2]string{pn.Imported().Path(), n.Sel.Name}]; ok {
						r.used = true
						c.Replace(vsSel(to))
					} else {
						removed[pn.Imported().Path()]++
					}
				}
			}
		case *ast.SendStmt:
			r.used = true
			c.Replace(&ast.ExprStmt{X: call(vsSel("Send"), n.Chan, n.Value)})
		case *ast.UnaryExpr:
			if n.Op == token.ARROW {
				r.used = true
				c.Replace(call(vsSel("Recv"), n.X))
			}
		case *ast.AssignStmt:
			if len(n.Lhs) == 2 && len(n.Rhs) == 1 {
				// post-order: rhs already replaced by vs.Recv(...) call
				if ce, ok := n.Rhs[0].(*ast.CallExpr); ok {
					if se, ok := ce.Fun.(*ast.SelectorExpr); ok {
						if x, ok := se.X.(*ast.Ident); ok && x.Name == "vs" && se.Sel.Name == "Recv" {
							se.Sel = ast.NewIdent("Recv2")
						}
					}
				}
			}
		case *ast.CallExpr:
			if len(n.Args) == 1 {
				switch {
				case r.isBuiltin(n.Fun, "close"):
					r.used = true
					n.Fun = vsSel("Close")
				case r.isBuiltin(n.Fun, "len") && r.isChan(n.Args[0]):
					r.used = true
					n.Fun = vsSel("Len")
				case r.isBuiltin(n.Fun, "cap") && r.isChan(n.Args[0]):
					r.used = true
					n.Fun = vsSel("Cap")
				}
			}
		case *ast.GoStmt:
			c.Replace(r.goStmt(n))
		case *ast.RangeStmt:
			if nn := r.rangeStmt(n); nn != ast.Stmt(n) {
				c.Replace(nn)
			}
		}
		return true
	})
}

// selectFirst converts select statements in a pre-pass (pre-order) so that comm
// clauses are seen before their receive expressions are rewritten.
func (r *rw) selects(f *ast.File) {
	astutil.Apply(f, func(c *astutil.Cursor) bool {
		if s, ok := c.Node().(*ast.SelectStmt); ok {
			if _, labeled := c.Parent().(*ast.LabeledStmt); labeled {
				panic("labeled select unsupported")
			}
			c.Replace(r.selectStmt(s))
		}
		return true
	}, nil)
}


// Packages rewritten by default: everything the controlled-scheduler harnesses import, directly or not.
var defaultPkgs = []string{
	"./io", "./internal/convert",
	"=./rpc/core", "./rpc/mock", "+./rpc/socket", "+./rpc/udp", "./rpc/http", "./rpc/http/cookie", "+./rpc/websocket", "./rpc/codec/jsonrpc",
	"./rpc/plugins/circuitbreaker", "./rpc/plugins/cluster", "./rpc/plugins/forward", "./rpc/plugins/limiter",
	"+./rpc/plugins/loadbalance", "./rpc/plugins/log", "./rpc/plugins/oneway", "+./rpc/plugins/push",
	"=./rpc/plugins/reverse", "./rpc/plugins/timeout",
	"+github.com/orcaman/concurrent-map",
}

func main() {
	repo := flag.String("repo", "/repo", "repository to rewrite")
	out := flag.String("out", "", "output directory (gets repo/ and deps/)")
	inject := flag.String("inject", "", "directory with files to add: <inject>/<pkgpath>/*.go -> <out>/repo/<pkgpath>/zz_verif_*.go")
	flag.Parse()
	if *out == "" {
		fmt.Fprintln(os.Stderr, "usage: mcrewrite -out DIR [-repo DIR] [-inject DIR] [pkgs...]")
		os.Exit(2)
	}
	args := flag.Args()
	if len(args) == 0 {
		args = defaultPkgs
	}
	mapPkgs := map[string]string{}
	var pats []string
	for _, a := range args {
		if strings.HasPrefix(a, "+") { // '+' prefix: map iteration order becomes an explorer choice
			a = a[1:]
			mapPkgs[a] = "MapKeys"
		} else if strings.HasPrefix(a, "=") { // '=' prefix: map iteration in sorted order (deterministic, not explored)
			a = a[1:]
			mapPkgs[a] = "MapKeysSorted"
		}
		pats = append(pats, a)
	}
	cfg := &packages.Config{Mode: packages.NeedName | packages.NeedFiles | packages.NeedSyntax | packages.NeedTypes | packages.NeedTypesInfo | packages.NeedImports | packages.NeedDeps | packages.NeedModule,
		Dir: *repo, Env: append(os.Environ(), "GOFLAGS=-mod=mod")}
	pkgs, err := packages.Load(cfg, pats...)
	if err != nil {
		fmt.Fprintln(os.Stderr, "mcrewrite: load:", err)
		os.Exit(1)
	}
	const mod = "github.com/hprose/hprose-golang/v3"
	for _, p := range pkgs {
		if len(p.Errors) > 0 {
			fmt.Fprintln(os.Stderr, "mcrewrite: package errors:", p.PkgPath, p.Errors)
			os.Exit(1)
		}
		key := p.PkgPath
		if strings.HasPrefix(key, mod+"/") {
			key = "./" + strings.TrimPrefix(key, mod+"/")
		}
		for _, f := range p.Syntax {
			r := &rw{pkg: p, mapPkgs: mapPkgs[key] != "", mapFn: mapPkgs[key]}
			func() {
				defer func() {
					if e := recover(); e != nil {
						fmt.Fprintf(os.Stderr, "mcrewrite: unsupported construct in %s: %v\n", p.Fset.File(f.Pos()).Name(), e)
						os.Exit(1)
					}
				}()
				r.selects(f)
				r.file(f)
			}()
			src := p.Fset.File(f.Pos()).Name()
			rel, _ := filepath.Rel(p.Module.Dir, src)
			sub := "repo"
			if p.Module.Path != mod {
				sub = "deps/" + p.Module.Path
			}
			dst := filepath.Join(*out, sub, rel)
			for from, to := range importRedirect {
				if astutil.UsesImport(f, from) {
					astutil.DeleteNamedImport(p.Fset, f, "", from)
					astutil.DeleteImport(p.Fset, f, from)
					astutil.AddNamedImport(p.Fset, f, to[0], to[1])
				}
			}
			if r.used {
				astutil.AddNamedImport(p.Fset, f, "vs", vsPath)
			}
			for _, imp := range []string{"sync", "sync/atomic", "time", "context", "math/rand", "runtime", "net"} {
				if !astutil.UsesImport(f, imp) {
					astutil.DeleteImport(p.Fset, f, imp)
				}
			}
			var buf bytes.Buffer
			if err := format.Node(&buf, p.Fset, f); err != nil {
				fmt.Fprintln(os.Stderr, "mcrewrite: format:", err)
				os.Exit(1)
			}
			os.MkdirAll(filepath.Dir(dst), 0o755)
			if err := os.WriteFile(dst, buf.Bytes(), 0o644); err != nil {
				fmt.Fprintln(os.Stderr, "mcrewrite:", err)
				os.Exit(1)
			}
		}
		fmt.Println("rewrote", p.PkgPath, len(p.Syntax), "files")
		if p.Module.Path != mod {
			// third-party module: give it a go.mod
			os.WriteFile(filepath.Join(*out, "deps", p.Module.Path, "go.mod"), []byte("module "+p.Module.Path+"\n\ngo 1.21\n"), 0o644)
		}
	}
	// go.mod / go.sum of the rewritten copy: generics are needed (go 1.21) but 1.22 loop semantics are not wanted
	gm, err := os.ReadFile(filepath.Join(*repo, "go.mod"))
	if err != nil {
		fmt.Fprintln(os.Stderr, "mcrewrite:", err)
		os.Exit(1)
	}
	lines := strings.Split(string(gm), "\n")
	for i, l := range lines {
		if strings.HasPrefix(l, "go ") {
			lines[i] = "go 1.21"
		}
	}
	os.WriteFile(filepath.Join(*out, "repo", "go.mod"), []byte(strings.Join(lines, "\n")), 0o644)
	if gs, err := os.ReadFile(filepath.Join(*repo, "go.sum")); err == nil {
		os.WriteFile(filepath.Join(*out, "repo", "go.sum"), gs, 0o644)
	}
	for _, injectDir := range strings.Split(*inject, ",") {
		if injectDir == "" {
			continue
		}
		injectDir := injectDir
		filepath.Walk(injectDir, func(path string, info os.FileInfo, err error) error {
			if err != nil || info.IsDir() || !strings.HasSuffix(path, ".go") {
				return nil
			}
			rel, _ := filepath.Rel(injectDir, filepath.Dir(path))
			dstDir := filepath.Join(*out, "repo", rel)
			if _, err := os.Stat(dstDir); err != nil {
				return nil // package not part of the rewritten copy
			}
			b, _ := os.ReadFile(path)
			os.WriteFile(filepath.Join(dstDir, "zz_verif_"+filepath.Base(path)), b, 0o644)
			return nil
		})
	}
}
