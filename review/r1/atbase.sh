#!/bin/sh
# usage: atbase.sh <go test args...>  : runs go test on ./io/ with io/ checked out at base, then restores
cd /tmp/review-1 || exit 1
export GOFLAGS=-mod=mod GOPROXY=off GOSUMDB=off GOTOOLCHAIN=local
git checkout 591b425 -- io
go test -vet=off -count=1 "$@" ./io/ 2>&1 | head -${HEADLINES:-120}
git checkout HEAD -- io
git status --short | grep -v "^??" 
