package io

// Review demos: Convert, Register after first use, embedded structs, empty lists.

import (
	"fmt"
	"reflect"
	"testing"
)

type zzReviewTagged struct {
	Name string `json:"n" xml:"x"`
}
type zzReviewTaggedHolder struct {
	T zzReviewTagged
	L []zzReviewTagged
}

type zzReviewDeepC struct{ X int }
type zzReviewDeepB struct{ zzReviewDeepC }
type zzReviewDeepD struct{ X int }
type zzReviewDeepA struct {
	zzReviewDeepB
	zzReviewDeepD
}

// 929db67 repaired mapCopy for a map that is held by value (its interface word is the map, not
// the address of a map variable). GetConverter's branch for a pointer destination has the same
// flaw and was left: for src == dest.Elem() it returns ptrCopy, which stores reflect2.PtrOf(o) -
// for a map that is the map's header, not a pointer to a map variable. io.Convert(map, *map)
// (used by rpc/plugins/reverse and push for argument conversion) returns a *map whose "map" is
// the header's first word, the entry count: the first access dereferences address 2.
// With 4096 or more entries the fault address is not in the nil page and the process dies.
func TestZZReviewConvertMapToPointerToMap(t *testing.T) {
	defer func() {
		if r := recover(); r != nil {
			t.Errorf("VIOLATION: the *map returned by Convert(map[string]interface{}{2 entries}, *map[string]interface{}) can not be used: %v", r)
		}
	}()
	m := map[string]interface{}{"a": 1, "b": 2}
	r, err := Convert(m, reflect.TypeOf((*map[string]interface{})(nil)))
	if err != nil {
		t.Fatal(err)
	}
	pm := r.(*map[string]interface{})
	if len(*pm) != 2 || (*pm)["a"] != 1 {
		t.Errorf("VIOLATION: Convert gave %v", *pm)
	}
}

// f8252e8 updates the decoder a type has already when the type is registered again with
// tags, "so that the coders of the containing structs" see the new names. But a type can have
// TWO decoders: Register puts its decoder into namedStructDecoderMap only, not into decoderMap,
// so the first direct Decode(&T{}) builds a second one through getValueDecoder and replaces the
// first in namedStructDecoderMap - while the decoders of containers built before hold the first.
// The next Register with tags updates the second only. The encoder (one instance) writes the new
// names, the containers' decoder expects the old ones: fields are lost without an error.
func TestZZReviewRegisterWithTagsUpdatesOnlyOneOfTwoDecoders(t *testing.T) {
	Register((*zzReviewTagged)(nil), "json") // decoder #1 (namedStructDecoderMap only)
	v := zzReviewTaggedHolder{T: zzReviewTagged{"a"}, L: []zzReviewTagged{{"b"}}}
	data, _ := Marshal(v)
	var out zzReviewTaggedHolder
	if err := Unmarshal(data, &out); err != nil || !reflect.DeepEqual(out, v) { // the holder's coders hold #1
		t.Fatalf("first round trip: %v %+v", err, out)
	}
	var single zzReviewTagged
	d, _ := Marshal(zzReviewTagged{"q"})
	if err := Unmarshal(d, &single); err != nil || single.Name != "q" { // direct use: decoder #2 is built
		t.Fatalf("direct: %v %+v", err, single)
	}
	Register((*zzReviewTagged)(nil), "xml") // updates #2 and the encoder
	data, _ = Marshal(v)
	out = zzReviewTaggedHolder{}
	err := Unmarshal(data, &out)
	if err != nil || !reflect.DeepEqual(out, v) {
		t.Errorf("VIOLATION: after Register(T, \"xml\") the round trip of a struct holding T loses fields: err=%v got=%+v want=%+v data=%s", err, out, v, data)
	}
}

// 977086e: "a field that shadows a promoted field of an embedded struct is legal Go: the outer
// field wins". Go's rule is about depth, not only about the outermost struct: of two promoted
// fields of the same name the shallower one wins. A{B{C{X}}; D{X}} is legal, A.X is A.D.X;
// the coders still panic with "ambiguous fields" for it (at Register, Marshal and Unmarshal).
func TestZZReviewShallowerPromotedFieldIsStillAmbiguous(t *testing.T) {
	defer func() {
		if r := recover(); r != nil {
			t.Errorf("VIOLATION: a legal Go struct (a promoted field at depth 1 hides one at depth 2) panics: %v", r)
		}
	}()
	var a zzReviewDeepA
	a.X = 5 // compiles: zzReviewDeepD.X
	data, err := Marshal(a)
	if err != nil {
		t.Fatal(err)
	}
	var out zzReviewDeepA
	if err := Unmarshal(data, &out); err != nil || out.X != 5 {
		t.Errorf("VIOLATION: %s -> %+v %v", data, out, err)
	}
}

// Present at 591b425 and left as it was: an empty, non-nil slice is written as a{} and a{}
// decodes to a nil slice (UnsafeGrow(slice, 0) leaves a nil slice nil), while the tag for
// "empty" (e) gives an empty non-nil slice and m{} gives an empty non-nil map. The round trip
// of []int{} is not equal (reflect.DeepEqual), and "no list" can not be told from "empty list"
// (the reverse-invocation plugin relies on the difference).
func TestZZReviewEmptyListDecodesToNilSlice(t *testing.T) {
	data, _ := Marshal([]int{})
	var s []int
	if err := Unmarshal(data, &s); err != nil {
		t.Fatal(err)
	}
	if s == nil {
		t.Errorf("VIOLATION: %s (the encoding of []int{}) decodes to a nil slice", data)
	}
	var i interface{}
	if err := Unmarshal(data, &i); err != nil {
		t.Fatal(err)
	}
	if l, ok := i.([]interface{}); !ok || l == nil {
		t.Errorf("VIOLATION: %s decodes into interface{} as %s", data, fmt.Sprintf("%#v", i))
	}
}
