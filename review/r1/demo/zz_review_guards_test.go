package io

// Review demos: the guards for numbers and depth added by the fixes.

import (
	"math/big"
	"runtime"
	"testing"
	"time"
)

type zzReviewTreeNode struct {
	V    int
	Kids []*zzReviewTreeNode
}

// affb72e keeps "astronomic exponents" away from complexconv (which evaluates the text as a
// Go constant expression in exact arithmetic) with saneExponents: no more than four DIGITS in
// a row after e/E/p/P. Go number literals may separate digits with '_' (1e6_4_6), and go/parser
// accepts that, so the guard is passed by 1e9_9_9_9_9_9_9_9+1e-9_9_9_9_9_9_9_9. The demo uses
// an exponent of 99999999 (36 bytes of text: 80 MB, 0.15 s); the example of the commit message
// written with underscores, s40"1e6_4_6_4_5_6_9_9_2+1e-6_4_6_4_5_6_9_9_2", was measured at
// 1024 MB and 3.8 s on HEAD - exactly what the fix set out to prevent.
func TestZZReviewComplexExponentGuardIsPassedWithUnderscores(t *testing.T) {
	data := []byte(`s36"1e9_9_9_9_9_9_9_9+1e-9_9_9_9_9_9_9_9"`)
	for _, dest := range []interface{}{new(complex128), new(complex64)} {
		var ms runtime.MemStats
		runtime.ReadMemStats(&ms)
		before := ms.TotalAlloc
		start := time.Now()
		err := Unmarshal(data, dest)
		elapsed := time.Since(start)
		runtime.ReadMemStats(&ms)
		if allocated := ms.TotalAlloc - before; allocated > 8<<20 {
			t.Errorf("VIOLATION: %s into %T allocated %d MB in %v (err=%v)", data, dest, allocated>>20, elapsed, err)
		}
	}
}

// aff8c39 refuses a double token whose exponent is above 2^14 when the destination is a big
// integer. The test looks at the exponent of the parsed big.Float; a still larger exponent
// overflows big.Float to +Inf, whose MantExp is 0, so it passes the guard, big.Float.Int returns
// nil for an infinity, and the result is a nil *big.Int (or 0 for a big.Int value) WITHOUT an
// error. d1e600000000; is refused, d1e700000000; decodes to zero.
func TestZZReviewOverflowingDoubleIntoBigIntIsSilentlyZero(t *testing.T) {
	for _, in := range []string{"d1e600000000;", "d1e700000000;", "d-1e999999999;"} {
		var p *big.Int
		if err := Unmarshal([]byte(in), &p); err == nil {
			t.Errorf("VIOLATION: %s into *big.Int: no error, result %v", in, p)
		}
		var v big.Int
		v.SetInt64(42)
		if err := Unmarshal([]byte(in), &v); err == nil {
			t.Errorf("VIOLATION: %s into big.Int: no error, result %v", in, &v)
		}
	}
}

// 5fff9b4 decodes a list into a complex number through a [2]float array, and an array
// destination ignores surplus elements and zero-fills missing ones. A list that is no
// [real, imag] pair is therefore accepted silently: [1,2,3] is 1+2i, [5] is 5+0i.
func TestZZReviewAnyListIsAComplexNumber(t *testing.T) {
	for _, in := range []string{"a3{123}", "a1{5}"} {
		var c complex128
		if err := Unmarshal([]byte(in), &c); err == nil {
			t.Errorf("VIOLATION: %s into complex128: no error, result %v", in, c)
		}
	}
}

// ea822b6 / 4cd6b0e: "the limit of both coders is 100000 levels". A node that reaches the
// next one through a slice (or an interface{}) costs two levels, in the encoder (writeValue
// and structEncoder.Write) and in the decoder (structDecoder and sliceDecoder): a chain of
// 50010 such nodes, which 591b425 encoded (739 KB) and decoded, is now refused by Marshal
// with ErrNestedTooDeep, and the stream 591b425 wrote for it is refused by Unmarshal.
func TestZZReviewDepthLimitIsHalfForChainsThroughSlices(t *testing.T) {
	var head *zzReviewTreeNode
	for i := 0; i < 50010; i++ {
		if head == nil {
			head = &zzReviewTreeNode{V: i}
		} else {
			head = &zzReviewTreeNode{V: i, Kids: []*zzReviewTreeNode{head}}
		}
	}
	data, err := Marshal(head)
	if err != nil {
		t.Errorf("VIOLATION: Marshal of a chain of 50010 nodes linked through a slice: %v", err)
		return
	}
	var out *zzReviewTreeNode
	if err := Unmarshal(data, &out); err != nil {
		t.Errorf("VIOLATION: Unmarshal of a chain of 50010 nodes linked through a slice: %v", err)
	}
}
