package io

// Review demo: pointer to an interface type with methods.

import (
	"reflect"
	"testing"
	"unsafe"
)

type zzReviewErr struct{ Msg string }

func (e *zzReviewErr) Error() string { return e.Msg }

// cd23e25 ("a destination of an interface type with methods is no longer overwritten with an
// interface{} value; calling it crashed") repaired interfaceDecode, interfacePtrDecode (the
// handlers of fields and elements) and interfaceDecoder (the ValueDecoder of I). The ValueDecoder
// of *I was left: ptrDecoderFactories[reflect.Interface] returns interfacePtrDecoder{} for every
// pointer to an interface type, and its Decode stores a *interface{} where a *error is expected.
// It is reached by a top-level destination (var p *error; Unmarshal(data, &p)), by **error, and
// by Decoder.Read(reflect.TypeOf((*error)(nil))). The error value then has a type descriptor
// where its method table should be: calling it jumps into data ("unexpected fault address ...
// fatal error: fault", not recoverable - observed with (*p).Error()). The test therefore does
// not call the value; it compares the first word of the interface value (the method table)
// with the one of a properly built error of the same dynamic type.
func TestZZReviewPointerToErrorDestinationIsStillOverwrittenWithAnEmptyInterface(t *testing.T) {
	RegisterName("zzReviewErr", (*zzReviewErr)(nil))
	data := []byte(`c11"zzReviewErr"1{s3"msg"}o0{s4"boom"}`)
	// for comparison: the field handler, which cd23e25 did repair (struct first used before)
	var before struct{ E *error }
	if err := Unmarshal([]byte(`m1{s1"e"`+string(data)+`}`), &before); err != nil || before.E == nil || (*before.E).Error() != "boom" {
		t.Fatalf("unexpected: field of type *error: %v", err)
	}
	var proper error = &zzReviewErr{}
	tabWord := func(e *error) uintptr { return *(*uintptr)(unsafe.Pointer(e)) }
	check := func(what string, get func() (*error, error)) {
		p, err := get()
		if err != nil {
			return // a cast error would be acceptable
		}
		if p == nil || *p == nil {
			t.Errorf("VIOLATION: %s: nil", what)
			return
		}
		if tabWord(p) != tabWord(&proper) {
			t.Errorf("VIOLATION: %s: the error variable holds an interface{} (first word %#x is no method table of error, want %#x): calling it kills the process", what, tabWord(p), tabWord(&proper))
			return
		}
		if msg := (*p).Error(); msg != "boom" {
			t.Errorf("VIOLATION: %s: message %q", what, msg)
		}
	}
	check("Unmarshal(data, &p) with p *error", func() (*error, error) {
		var p *error
		err := Unmarshal(data, &p)
		return p, err
	})
	check("Decoder.Read(*error)", func() (*error, error) {
		dec := NewDecoder(data)
		v := dec.Read(reflect.TypeOf((*error)(nil)))
		p, _ := v.(*error)
		return p, dec.Error
	})
	check("Unmarshal(data, &pp) with pp **error", func() (*error, error) {
		var pp **error
		err := Unmarshal(data, &pp)
		if pp == nil {
			return nil, err
		}
		return *pp, err
	})
	// A struct whose coders are built AFTER the bad decoder has been registered for *error gets it
	// for its field too (GetDecodeHandler prefers a registered ValueDecoder to the repaired handler).
	var after struct{ Later *error }
	err := Unmarshal([]byte(`m1{s5"later"`+string(data)+`}`), &after)
	check("field of type *error in a struct first used after a top-level *error", func() (*error, error) { return after.Later, err })
}
