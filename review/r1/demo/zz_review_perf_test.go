package io

// Review demos: cost of the preallocation budgets (no O(n^2) cliff was found, these are
// constant factors; see _review/bench_base.txt and _review/bench_head.txt for the timings).

import (
	"bytes"
	"runtime"
	"testing"
)

// 12836f6: the lists of one top-level value share a budget of 256 KB for their first
// allocations (preallocList); when it is used up every further list starts with 8 elements
// and doubles. An ordinary value made of many small lists - 100000 rows of 20 ints - pays
// for it on every row after the first ~1600: 8, then 16, then 20 elements, three allocations
// and two copies instead of one exact allocation. Measured with the benchmark
// (100000 x 20 ints, byte slice input): 26.5 ms / 23.7 MB / 100017 allocs at 591b425,
// 57.1 ms / 50.2 MB / 300007 allocs on HEAD; decoded into interface{}: 64.7 ms -> 146 ms.
func TestZZReviewSmallListsAreAllocatedThreeTimes(t *testing.T) {
	const rows = 20000
	lol := make([][]int, rows)
	for i := range lol {
		lol[i] = make([]int, 20)
	}
	data, err := Marshal(lol)
	if err != nil {
		t.Fatal(err)
	}
	allocs := testing.AllocsPerRun(3, func() {
		var out [][]int
		if err := Unmarshal(data, &out); err != nil || len(out) != rows {
			t.Fatal(err)
		}
	})
	if perRow := allocs / rows; perRow > 1.5 {
		t.Errorf("VIOLATION: decoding %d lists of 20 ints took %.2f allocations per list (591b425: 1.00)", rows, perRow)
	}
}

// c59477c: Decoder.next no longer allocates the announced length when the bytes are not
// buffered yet but grows the result with append as they arrive. For a long byte string (or
// string) read from a Reader that is a chain of doublings: 48 MB of bytes allocate 285 MB
// (591b425: 84 MB) and take 3.3 times as long (42 ms -> 138 ms); a 50 MB string 350 MB
// (192 MB). The demo uses 16 MB.
func TestZZReviewLongBytesFromAReaderAreCopiedByDoubling(t *testing.T) {
	payload := bytes.Repeat([]byte{1, 2, 3, 4}, 4<<20)
	data, err := Marshal(payload)
	if err != nil {
		t.Fatal(err)
	}
	var ms runtime.MemStats
	runtime.ReadMemStats(&ms)
	before := ms.TotalAlloc
	var out []byte
	dec := NewDecoderFromReader(bytes.NewReader(data), 64<<10)
	dec.Decode(&out)
	runtime.ReadMemStats(&ms)
	allocated := ms.TotalAlloc - before
	if dec.Error != nil || !bytes.Equal(out, payload) {
		t.Fatalf("err=%v len=%d", dec.Error, len(out))
	}
	if allocated > 2*uint64(len(payload)) {
		t.Errorf("VIOLATION: reading %d MB of bytes from a Reader allocated %d MB (591b425: %d MB, one exact allocation)", len(payload)>>20, allocated>>20, len(payload)>>20)
	}
}
