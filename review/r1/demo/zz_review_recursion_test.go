package io

// Review demos: recursion in the decoder that the depth limit (Decoder.enter) does not see.
//
// The fixes 54b8608 / c04593d / 4ca633e bound the nesting of lists, maps, objects and class
// definitions. Two paths still recurse once per input byte (or per class definition) without
// passing through enter(); a few megabytes of input exhaust the 1 GB goroutine stack, which
// kills the process ("fatal error: stack overflow", no recover possible):
//
//   - 4 MB of 'E' (measured: 2e6 survive, 4e6 die) through Unmarshal into any destination;
//   - an 8 MB request `c1"A"-1{}` + `c""{}`*1.6e6 (measured: 8e5 survive, 1.6e6 die).
//
// The tests do not kill the process: they feed a modest input through a Reader that records
// the depth of the call stack it is called from, and fail when the depth grows with the input.

import (
	"bytes"
	"errors"
	"runtime"
	"strings"
	"testing"
)

// zzDepthReader hands out its data and records the deepest call stack it was called from.
type zzDepthReader struct {
	data     []byte
	maxDepth int
}

func (r *zzDepthReader) Read(p []byte) (int, error) {
	pcs := make([]uintptr, 1<<17)
	if d := runtime.Callers(0, pcs); d > r.maxDepth {
		r.maxDepth = d
	}
	if len(r.data) == 0 {
		return 0, errors.New("EOF")
	}
	n := copy(p, r.data)
	r.data = r.data[n:]
	return n, nil
}

// A chain of error tags: TagError is handled by decodeString(dec.NextByte()), whose default
// branch is defaultDecode, whose TagError branch is decodeString(dec.NextByte()) again ...
// (decoder.go:defaultDecode, interface_deocder.go:decodeInterface, string_decoder.go:decodeString).
// Present at 591b425 already, left behind by the depth-limit fixes.
func TestZZReviewErrorTagChainRecursesPerByte(t *testing.T) {
	const n = 20000
	for _, dest := range []interface{}{new(string), new(interface{}), new(int), new([]int)} {
		r := &zzDepthReader{data: bytes.Repeat([]byte{TagError}, n)}
		dec := NewDecoderFromReader(r)
		dec.Decode(dest)
		if r.maxDepth > 2000 {
			t.Errorf("VIOLATION: %d bytes of 'E' decoded into %T were followed %d stack frames deep (2 per byte, no limit): 4 MB of them overflow the goroutine stack and kill the process", n, dest, r.maxDepth)
		}
	}
}

// Class definitions after an error: 4ca633e reads the class definitions in front of a value
// in a loop "for next == TagClass && dec.Error == nil". Once dec.Error is set (here by the
// negative field count of the first definition; any earlier error on the decoder does it too)
// the loop is left at once with next == TagClass and dec.Decode(p, next) re-enters
// defaultDecode: one level of recursion (4-5 frames) per class definition, without limit.
func TestZZReviewClassDefinitionsAfterAnErrorRecurse(t *testing.T) {
	const n = 10000
	for _, dest := range []interface{}{new(interface{}), new(int), new(string)} {
		r := &zzDepthReader{data: []byte(`c1"A"-1{}` + strings.Repeat(`c""{}`, n))}
		dec := NewDecoderFromReader(r)
		dec.Decode(dest)
		if dec.Error == nil {
			t.Errorf("VIOLATION: no error for a negative field count")
		}
		if r.maxDepth > 2000 {
			t.Errorf("VIOLATION: %d class definitions after an error, decoded into %T, were followed %d stack frames deep: 1.6e6 of them (8 MB) overflow the goroutine stack and kill the process", n, dest, r.maxDepth)
		}
	}
}

// The depth limit itself: ea822b6 raised it from 10000 to 100000 levels. 400 KB of "a1{"
// now make the decoding goroutine's stack grow to 128 MB (64-128 MB for nested maps and
// objects); a handful of such requests in parallel cost a gigabyte. The amplification is
// about 1:300.
func TestZZReviewDepthLimitCostsHundredMegabytesOfStack(t *testing.T) {
	const levels = 99999
	data := []byte(strings.Repeat("a1{", levels) + "n" + strings.Repeat("}", levels))
	stackSys := func() uint64 {
		var ms runtime.MemStats
		runtime.ReadMemStats(&ms)
		return ms.StackSys
	}
	before := stackSys()
	var after uint64
	var err error
	done := make(chan struct{})
	go func() {
		defer close(done)
		var v interface{}
		err = Unmarshal(data, &v)
		after = stackSys()
	}()
	<-done
	if err != nil {
		t.Fatalf("unexpected: %v", err)
	}
	if grown := int64(after) - int64(before); grown > 32<<20 {
		t.Errorf("VIOLATION: an input of %d KB made the goroutine stack grow by %d MB", len(data)>>10, grown>>20)
	}
}
