package io

// Review demos: references (TagRef) after the fixes.

import (
	"fmt"
	"runtime"
	"strings"
	"testing"
)

// c59477c rewrote readUint8Slice (a list decoded into []byte) to append its elements and
// moved dec.AddReference(slice) from before the elements to after them. Elements that are
// strings (hprose lists of numeric strings decode into []byte, decodeUint8 accepts TagString)
// take reference indices of their own, so the list now gets the index after its elements
// instead of the one before them: every later reference to one of these strings or to the
// list resolves to the wrong item. The stream below is produced by the library's own Encoder.
// At 591b425 the test passes.
func TestZZReviewListIntoBytesShiftsReferenceIndices(t *testing.T) {
	src := struct {
		A []string
		B string
	}{A: []string{"12", "34"}, B: "34"} // B is written as a reference to A[1]
	data, err := Formatter{Simple: false}.Marshal(src)
	if err != nil {
		t.Fatal(err)
	}
	var dst struct {
		A []byte
		B string
	}
	if err := (Formatter{Simple: false}).Unmarshal(data, &dst); err != nil {
		t.Fatalf("%s: %v", data, err)
	}
	if string(dst.A) != "\x0c\x22" {
		t.Fatalf("%s: A=%v", data, dst.A)
	}
	if dst.B != "34" {
		t.Errorf("VIOLATION: %s decoded B=%q, want \"34\": the reference r3 now finds the list (the bytes 12,34), the list's index moved behind its elements", data, dst.B)
	}
}

// 7c4f09f gives an interface{} destination that refers to a list the list itself (the slice
// header as it is at that moment) instead of the pointer to the list variable; 12836f6 lets a
// list of more than 256 KB worth of elements start short and move to a new array as it grows.
// Together: a list of more than 16384 elements that contains itself (written by the library's
// own Encoder from l[5] = &l) decodes into a list whose element 5 is a stale copy of the first
// 16384 elements on an abandoned array. At 591b425 element 5 was the *[]interface{} pointing
// to the complete list (an exact round trip). For n <= 16384 the copy shares the array.
func TestZZReviewSelfContainingLongListIsTruncated(t *testing.T) {
	for _, n := range []int{16384, 16385, 70000} {
		l := make([]interface{}, n)
		for i := range l {
			l[i] = i
		}
		l[5] = &l
		data, err := Formatter{Simple: false}.Marshal(&l)
		if err != nil {
			t.Fatal(err)
		}
		var out []interface{}
		if err := (Formatter{Simple: false}).Unmarshal(data, &out); err != nil {
			t.Fatal(err)
		}
		if len(out) != n {
			t.Fatalf("len %d", len(out))
		}
		var inner []interface{}
		switch v := out[5].(type) {
		case []interface{}:
			inner = v
		case *[]interface{}:
			inner = *v
		}
		if len(inner) != n || &inner[n-1] != &out[n-1] {
			t.Errorf("VIOLATION: a list of %d elements that contains itself: the inner occurrence has %d elements, shares the array: %v (%.30s...)", n, len(inner), len(inner) > 0 && &inner[0] == &out[0], data)
		}
	}
}

// bbb0242 makes the conversion between a string and a byte slice through a reference a
// copy. Every reference is converted anew, and nothing bounds it: a 1 MB string followed by
// 300 references of 3 bytes each, decoded into [][]byte (a plausible RPC parameter type; the
// pooled RPC decoders are in reference mode), keeps 300 MB alive. 100000 references (400 KB more)
// ask for 100 GB. At 591b425 the references shared the storage (1 MB in all).
// The same holds for bytes referred to by string destinations.
func TestZZReviewReferencesToAStringCopyItEveryTime(t *testing.T) {
	const strLen = 1 << 20
	const refs = 300
	var sb strings.Builder
	fmt.Fprintf(&sb, "a%d{s%d\"%s\"", refs+1, strLen, strings.Repeat("x", strLen))
	for i := 0; i < refs; i++ {
		sb.WriteString("r1;")
	}
	sb.WriteString("}")
	data := []byte(sb.String())
	var ms runtime.MemStats
	runtime.ReadMemStats(&ms)
	before := ms.TotalAlloc
	var out [][]byte
	dec := NewDecoder(data).Simple(false)
	dec.Decode(&out)
	runtime.ReadMemStats(&ms)
	allocated := ms.TotalAlloc - before
	if dec.Error != nil || len(out) != refs+1 {
		t.Fatalf("err=%v len=%d", dec.Error, len(out))
	}
	if allocated > 20*uint64(len(data)) {
		t.Errorf("VIOLATION: an input of %d KB decoded into [][]byte allocated (and keeps alive) %d MB: every one of the %d references copies the string", len(data)>>10, allocated>>20, refs)
	}
}

// fa665f8 / 514bb19: Reset forgets the reference table only when the decoder is NOT in simple
// mode, and Simple(true) switches the mode before it calls Reset. A decoder that is switched to
// simple mode therefore keeps the table of its reference-mode past; readReferred looks at the
// table without asking for the mode, so a reference in a simple-mode stream is not an error
// ("reference index out of range") but silently resolves to an object of an earlier input.
func TestZZReviewSimpleModeResolvesReferencesToEarlierInput(t *testing.T) {
	dec := NewDecoder([]byte(`s5"hello"`)).Simple(false)
	var first string
	dec.Decode(&first)
	dec.Simple(true) // calls Reset
	dec.ResetBytes([]byte(`r0;`))
	var second string
	dec.Decode(&second)
	if dec.Error == nil {
		t.Errorf("VIOLATION: r0; in simple mode, after Simple(true) and ResetBytes, decoded %q from the input before without an error", second)
	}
}
