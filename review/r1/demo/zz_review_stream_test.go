package io

// Review demo: byte slice versus Reader.
//
// A differential run (random inputs built from tags and fragments of valid streams, 975000
// inputs x 16 destination types x chunk sizes 1, 2 and 5, plus 12000 mutations of encoder
// output x chunk sizes 1, 3, 7 and 256) found no difference between the two kinds of input
// except this one.

import (
	stdio "io"
	"testing"
)

type zzReviewOneByteReader struct{ data []byte }

func (r *zzReviewOneByteReader) Read(p []byte) (int, error) {
	if len(r.data) == 0 {
		return 0, stdio.EOF
	}
	p[0] = r.data[0]
	r.data = r.data[1:]
	return 1, nil
}

// 60983fa / 5ed503e: "a string ending exactly at the end of the input is complete, not EOF".
// readStringAsBytes recognises the end by remains == 0 && utf16Length == 0. A 4-byte character
// counts two units; when only one unit is left (u + a 4-byte character, or an odd length) the
// counter ends at -1, the slow path does not recognise the end and asks for more input. From a
// byte slice the fast path returns the character; from a Reader the same bytes are an EOF
// error when they are the last of the input. (The input is not canonical hprose - the encoder
// writes such a character as s2"..." - but the two kinds of input should agree on it.)
func TestZZReviewFourByteCharAtTheEndDiffersBetweenBytesAndReader(t *testing.T) {
	data := []byte("u\xf0\x9f\x98\x80")
	var fromBytes string
	d0 := NewDecoder(data)
	d0.Decode(&fromBytes)
	var fromReader string
	d1 := NewDecoderFromReader(&zzReviewOneByteReader{data})
	d1.Decode(&fromReader)
	if (d0.Error == nil) != (d1.Error == nil) || fromBytes != fromReader {
		t.Errorf("VIOLATION: %q from a byte slice: %q err=%v; from a Reader: %q err=%v", data, fromBytes, d0.Error, fromReader, d1.Error)
	}
}
