#!/bin/sh
# usage: xdump.sh <binary> <outfile>
bin=$1; out=$2; rm -f $out
for s in $(seq 0 33); do for d in $(seq 0 25); do
  ZZ_OUT=$out ZZ_SRC=$s ZZ_DEST=$d $bin -test.run 'TestZZScratchXDump' >/dev/null 2>&1 || echo "  src $s dest $d PROCESS DIED" >> $out
done; done
