package io

// Demos for the review of the encoder's depth guard (commits 4cd6b0e, ea822b6, ffe82c6).
// Every test in this file FAILS on HEAD and prints a line starting with "VIOLATION:".

import (
	"os"
	"os/exec"
	"strings"
	"testing"
	"time"
)

// ---------------------------------------------------------------------------------------------
// 1. A value that contains itself TWICE does not end with ErrNestedTooDeep: it does not end.
//
// writeValue / structEncoder.Write / writePtr refuse to go deeper than maxDepth, but after the
// first refusal they carry on with the next element one level up, which descends to maxDepth
// again: the work is fanout^maxDepth (2^100000) and the output buffer grows until the process is
// killed. At 591b425 the same input exhausted the stack (a crash within a second); now it is a
// hang that eats memory. The encodes run in a child process that is killed after 5 seconds.
//
//   - "slice2": s := make([]interface{}, 2); s[0] = s; s[1] = s   (any mode)
//   - "dlist":  a three-node doubly linked list (Prev/Next), the default simple mode of
//     NewEncoder: the middle node is reached over and over from both sides
// ---------------------------------------------------------------------------------------------

type zzRevDL struct {
	Val        int
	Prev, Next *zzRevDL
}

type zzRevP *zzRevP

type zzRevPHolder struct {
	Name string
	P    zzRevP
}

// TestZZReviewChild is the child process of the tests below; it is skipped in a normal run.
func TestZZReviewChild(t *testing.T) {
	which := os.Getenv("ZZ_REVIEW_CHILD")
	if which == "" {
		t.Skip("helper of the zz_review tests")
	}
	var v interface{}
	simple := true
	switch which {
	case "slice2":
		s := make([]interface{}, 2)
		s[0] = s
		s[1] = s
		v = s
		simple = false
	case "dlist":
		a, b, c := &zzRevDL{Val: 1}, &zzRevDL{Val: 2}, &zzRevDL{Val: 3}
		a.Next, b.Prev, b.Next, c.Prev = b, a, c, b
		v = a
	case "ptrtype":
		// see TestZZReviewFieldOfPointerCycleType
		v = &zzRevPHolder{Name: "x"}
	}
	enc := NewEncoder(nil).Simple(simple)
	err := enc.Encode(v)
	if err != nil {
		os.Stdout.WriteString("ENDED with error: " + err.Error())
	} else {
		os.Stdout.WriteString("ENDED without error")
	}
	os.Exit(0)
}

func zzRevRunChild(t *testing.T, which string, limit time.Duration) (out string, ended bool) {
	cmd := exec.Command(os.Args[0], "-test.run=^TestZZReviewChild$")
	cmd.Env = append(os.Environ(), "ZZ_REVIEW_CHILD="+which)
	done := make(chan struct{})
	var b []byte
	go func() { b, _ = cmd.CombinedOutput(); close(done) }()
	select {
	case <-done:
		return string(b), true
	case <-time.After(limit):
		_ = cmd.Process.Kill()
		<-done
		return "", false
	}
}

func TestZZReviewSelfContainingTwiceNeverEnds(t *testing.T) {
	for _, which := range []string{"slice2", "dlist"} {
		out, ended := zzRevRunChild(t, which, 5*time.Second)
		if !ended {
			t.Errorf("VIOLATION: %s: Encode of a value that contains itself twice did not end within 5s (expected ErrNestedTooDeep at once; a value that contains itself once ends in 0.15s)", which)
		} else if !strings.Contains(out, "ENDED with error") {
			t.Errorf("VIOLATION: %s: child: %q", which, out)
		}
	}
}

// ---------------------------------------------------------------------------------------------
// 2. A struct FIELD of a type made of nothing but pointers (type P *P) hangs when the struct's
// encoder is built: getPtrEncodeHandler strips pointers with "for t.Kind() == reflect.Ptr
// { t = t.Elem() }", and P.Elem() is P. ffe82c6 and 4cd6b0e dealt with this very type for values
// (writePtr counts pointer-to-pointer as nesting) and in the decoder, the field handler was left.
// ---------------------------------------------------------------------------------------------

func TestZZReviewFieldOfPointerCycleType(t *testing.T) {
	out, ended := zzRevRunChild(t, "ptrtype", 5*time.Second)
	if !ended {
		t.Errorf("VIOLATION: Encode(&struct{Name string; P P}{}) with type P *P did not end within 5s (spins in getPtrEncodeHandler); expected null for the nil field or an UnsupportedTypeError")
	} else {
		t.Logf("child: %q", out)
	}
}

// ---------------------------------------------------------------------------------------------
// 3. The guard fires on legitimate data that 591b425 encoded: a level of data costs TWO units of
// depth when the link between the nodes is an interface{} field (writeValue +1, structEncoder.Write
// +1) or a []*T field, so the real limit is 50000 nodes, not 100000 - and the decoder, which counts
// one level per object, reads streams the encoder can no longer write.
// ---------------------------------------------------------------------------------------------

type zzRevINode struct {
	Val  int
	Next interface{}
}

type zzRevTNode struct {
	Kids []*zzRevTNode
}

type zzRevPNode struct {
	Val  int
	Next *zzRevPNode
}

func TestZZReviewDepthGuardOnLegitimateData(t *testing.T) {
	const n = 50000
	// control: linked through a *T field the guard is fine
	var phead *zzRevPNode
	for i := 0; i < n; i++ {
		phead = &zzRevPNode{i, phead}
	}
	if err := NewEncoder(nil).Simple(false).Encode(phead); err != nil {
		t.Errorf("VIOLATION: %d nodes linked by a *T field: %v", n, err)
	}
	var ihead interface{}
	for i := 0; i < n; i++ {
		ihead = &zzRevINode{i, ihead}
	}
	for _, simple := range []bool{true, false} {
		if err := NewEncoder(nil).Simple(simple).Encode(ihead); err != nil {
			t.Errorf("VIOLATION: %d-node list linked by an interface{} field, simple=%v: %v (encodes at 591b425)", n, simple, err)
		}
	}
	var thead *zzRevTNode
	for i := 0; i < n; i++ {
		thead = &zzRevTNode{[]*zzRevTNode{thead}}
	}
	for _, simple := range []bool{true, false} {
		if err := NewEncoder(nil).Simple(simple).Encode(thead); err != nil {
			t.Errorf("VIOLATION: %d-level tree linked by a []*T field, simple=%v: %v (encodes at 591b425)", n, simple, err)
		}
	}
	// the decoder reads 60000 nested objects; the encoder can not write them back
	const m = 60000
	wire := `c10"zzRevINode"2{s3"val"s4"next"}` + strings.Repeat("o0{1", m) + "n" + strings.Repeat("}", m)
	Register((*zzRevINode)(nil))
	var back *zzRevINode
	if err := Unmarshal([]byte(wire), &back); err != nil {
		t.Logf("decoder refuses it too: %v", err)
		return
	}
	if _, err := Marshal(back); err != nil {
		t.Errorf("VIOLATION: %d nested objects decode without error, encoding the decoded value again fails: %v", m, err)
	}
}

// ---------------------------------------------------------------------------------------------
// 4. writeValue and writePtr count with "enc.depth++ ... enc.depth--" without defer (the struct
// encoders use defer): a panic below them (an Error method that panics, a user ValueEncoder) leaves
// the counter raised. A pooled encoder is repaired by FreeEncoder (Simple -> Reset), a long-lived
// one that the caller recovers and keeps using (ResetBuffer) is not: every recovered panic costs
// some levels, and after enough of them every Encode fails with ErrNestedTooDeep.
// ---------------------------------------------------------------------------------------------

type zzRevPanicErr struct{}

func (zzRevPanicErr) Error() string { panic("Error method panics") }

func TestZZReviewDepthLeaksAfterRecoveredPanic(t *testing.T) {
	enc := NewEncoder(nil)
	try := func(v interface{}) (err error) {
		defer func() {
			if r := recover(); r != nil {
				enc.ResetBuffer()
			}
		}()
		return enc.Encode(v)
	}
	v := []interface{}{map[string]interface{}{"e": zzRevPanicErr{}}}
	try(v)
	if enc.depth != 0 {
		t.Errorf("VIOLATION: enc.depth = %d after one Encode that panicked and was recovered (want 0)", enc.depth)
	}
	for n := 1; n < 60000; n++ {
		try(v)
		if err := try(1); err != nil {
			t.Errorf("VIOLATION: after %d recovered panics Encode(1) fails on the same encoder: %v", n+1, err)
			break
		}
	}
}

// ---------------------------------------------------------------------------------------------
// 5. Even with ONE self reference the guard is reached only after the value has been written
// maxDepth times over: the cost of finding out is 100000 x (size of one level). A list of 2000
// small integers whose last element is the list itself (4 KB when it does not contain itself)
// takes seconds and ~200 MB of output buffer (twice that at the peak of append) before Encode
// returns ErrNestedTooDeep; 20000 elements or strings instead of digits take the process down
// for lack of memory, which is what the guard was introduced to prevent. (The reference table
// knows pointers only; the containers on the current path are not remembered.)
// ---------------------------------------------------------------------------------------------

func TestZZReviewWideSelfContainingListCost(t *testing.T) {
	s := make([]interface{}, 2000)
	for i := range s {
		s[i] = i % 10
	}
	s[len(s)-1] = s
	start := time.Now()
	enc := NewEncoder(nil).Simple(false)
	err := enc.Encode(s)
	elapsed := time.Since(start)
	if err == nil {
		t.Errorf("VIOLATION: no error")
	}
	if mb := len(enc.buf) >> 20; mb > 64 {
		t.Errorf("VIOLATION: a 2000-element list that contains itself once: %v and %d MB of output before %v", elapsed, mb, err)
	}
}
