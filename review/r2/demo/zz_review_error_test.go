package io

// Demo for the review of the error encoder (commit 42d2beb). FAILS on HEAD.

import "testing"

// A typed nil pointer is a non-nil error in Go (err != nil holds), and an Error method may be
// written to cope with a nil receiver. 591b425 wrote such an error as an error: E s8"nil-safe".
// 42d2beb writes EVERY typed nil pointer as null to avoid the nil dereference in the methods that
// do not cope - so this error, which encoded correctly before, now silently becomes "no error".
// (Calling Error() under recover, and falling back to null only when it panics, keeps both.)

type zzRevNilSafeErr struct{ msg string }

func (e *zzRevNilSafeErr) Error() string {
	if e == nil {
		return "nil-safe"
	}
	return e.msg
}

func TestZZReviewTypedNilErrorWithNilSafeMethod(t *testing.T) {
	var err error = (*zzRevNilSafeErr)(nil)
	if err == nil || err.Error() != "nil-safe" {
		t.Fatal("precondition")
	}
	const want = `Es8"nil-safe"` // what 591b425 wrote
	for name, v := range map[string]interface{}{
		"top level":    err,
		"struct field": struct{ E error }{err},
		"list element": []error{err},
	} {
		data, merr := Marshal(v)
		if merr != nil {
			t.Fatal(merr)
		}
		if !containsBytes(data, want) {
			t.Errorf("VIOLATION: %s: a non-nil error whose Error() returns %q is written as %q (591b425: ...%s...)", name, err.Error(), data, want)
		}
	}
}

func containsBytes(data []byte, s string) bool {
	for i := 0; i+len(s) <= len(data); i++ {
		if string(data[i:i+len(s)]) == s {
			return true
		}
	}
	return false
}
