package io

// An independent, minimal reader of the Hprose wire format, used by the zz_review tests as a
// reference model: it checks well-formedness (counts, UTF-16 lengths, class indices) and keeps
// the reference table the way the format defines it (strings, bytes, lists, maps, objects,
// dates, times and guids take a slot, the field names of a class definition do too; null, empty,
// single characters and numbers do not).

import (
	"fmt"
	"unicode/utf8"
)

type zzNode struct {
	Tag   byte
	Str   string    // s, b, u, numbers as text, g, D, T
	Kids  []*zzNode // a: elements; m: k,v,k,v; o: field values; E: the message
	Class int       // o: class index
	Ref   int       // r: index
	Slot  int       // the reference slot the node took, -1 if none
}

type zzClass struct {
	Name   string
	Fields []string
}

type zzModel struct {
	data    []byte
	pos     int
	simple  bool
	refs    []*zzNode
	classes []zzClass
}

func (m *zzModel) fail(format string, a ...interface{}) {
	panic(fmt.Errorf("model: at %d: %s", m.pos, fmt.Sprintf(format, a...)))
}

func (m *zzModel) next() byte {
	if m.pos >= len(m.data) {
		m.fail("unexpected end")
	}
	b := m.data[m.pos]
	m.pos++
	return b
}

func (m *zzModel) until(end ...byte) string {
	start := m.pos
	for {
		b := m.next()
		for _, e := range end {
			if b == e {
				m.pos--
				return string(m.data[start:m.pos])
			}
		}
	}
}

func (m *zzModel) count(end byte) int {
	n := 0
	for {
		b := m.next()
		if b == end {
			return n
		}
		if b < '0' || b > '9' {
			m.fail("bad count digit %q", b)
		}
		n = n*10 + int(b-'0')
	}
}

func (m *zzModel) slot(n *zzNode) {
	if m.simple {
		return
	}
	n.Slot = len(m.refs)
	m.refs = append(m.refs, n)
}

func (m *zzModel) readStringBody() string {
	n := m.count('"')
	start := m.pos
	for i := 0; i < n; i++ {
		r, size := utf8.DecodeRune(m.data[m.pos:])
		if r == utf8.RuneError && size <= 1 {
			m.fail("invalid UTF-8 in string")
		}
		m.pos += size
		if r >= 0x10000 {
			i++
			if i >= n {
				m.fail("string length splits a surrogate pair")
			}
		}
	}
	s := string(m.data[start:m.pos])
	if m.next() != '"' {
		m.fail("string %q (length %d) is not closed where its length says", s, n)
	}
	return s
}

func (m *zzModel) value() *zzNode {
	tag := m.next()
	n := &zzNode{Tag: tag, Slot: -1}
	switch {
	case tag >= '0' && tag <= '9':
		n.Str = string(tag)
	case tag == 'i' || tag == 'l' || tag == 'd':
		n.Str = m.until(';')
		if n.Str == "" {
			m.fail("empty number")
		}
		m.next()
	case tag == 'N' || tag == 't' || tag == 'f' || tag == 'n' || tag == 'e':
	case tag == 'I':
		if s := m.next(); s != '+' && s != '-' {
			m.fail("bad infinity sign")
		}
	case tag == 'u':
		r, size := utf8.DecodeRune(m.data[m.pos:])
		if (r == utf8.RuneError && size <= 1) || r >= 0x10000 {
			m.fail("bad single character")
		}
		n.Str = string(m.data[m.pos : m.pos+size])
		m.pos += size
	case tag == 's':
		m.slot(n)
		n.Str = m.readStringBody()
	case tag == 'b':
		m.slot(n)
		c := m.count('"')
		if m.pos+c > len(m.data) {
			m.fail("bytes beyond end")
		}
		n.Str = string(m.data[m.pos : m.pos+c])
		m.pos += c
		if m.next() != '"' {
			m.fail("bytes not closed")
		}
	case tag == 'g':
		m.slot(n)
		if m.next() != '{' {
			m.fail("guid")
		}
		n.Str = string(m.data[m.pos : m.pos+36])
		m.pos += 36
		if m.next() != '}' {
			m.fail("guid close")
		}
	case tag == 'D' || tag == 'T':
		m.slot(n)
		n.Str = m.until(';', 'Z')
		m.next()
	case tag == 'a':
		m.slot(n)
		c := m.count('{')
		for i := 0; i < c; i++ {
			n.Kids = append(n.Kids, m.value())
		}
		if b := m.next(); b != '}' {
			m.fail("list of %d not closed, found %q", c, b)
		}
	case tag == 'm':
		m.slot(n)
		c := m.count('{')
		for i := 0; i < 2*c; i++ {
			n.Kids = append(n.Kids, m.value())
		}
		if b := m.next(); b != '}' {
			m.fail("map of %d not closed, found %q", c, b)
		}
	case tag == 'c':
		var cls zzClass
		cls.Name = m.readStringBody()
		c := m.count('{')
		for i := 0; i < c; i++ {
			f := m.value()
			if f.Tag != 's' && f.Tag != 'u' && f.Tag != 'e' && f.Tag != 'r' {
				m.fail("class field name is a %q", f.Tag)
			}
			cls.Fields = append(cls.Fields, f.Str)
		}
		if b := m.next(); b != '}' {
			m.fail("class not closed, found %q", b)
		}
		m.classes = append(m.classes, cls)
		return m.value()
	case tag == 'o':
		n.Class = m.count('{')
		if n.Class >= len(m.classes) {
			m.fail("object of class %d, only %d defined", n.Class, len(m.classes))
		}
		m.slot(n)
		for range m.classes[n.Class].Fields {
			n.Kids = append(n.Kids, m.value())
		}
		if b := m.next(); b != '}' {
			m.fail("object of class %q (%d fields) not closed, found %q", m.classes[n.Class].Name, len(m.classes[n.Class].Fields), b)
		}
	case tag == 'r':
		n.Ref = m.count(';')
		if m.simple {
			m.fail("reference in simple mode")
		}
		if n.Ref >= len(m.refs) {
			m.fail("reference %d, only %d slots", n.Ref, len(m.refs))
		}
	case tag == 'E':
		n.Kids = append(n.Kids, m.value())
	default:
		m.fail("unknown tag %q", tag)
	}
	return n
}

// zzParse reads count values (all of the input if count < 0); the reference table is reset
// between values if resetEach.
func zzParse(data []byte, simple bool, count int, resetEach bool) (nodes []*zzNode, model *zzModel, err error) {
	model = &zzModel{data: data, simple: simple}
	defer func() {
		if r := recover(); r != nil {
			if e, ok := r.(error); ok {
				err = e
				return
			}
			panic(r)
		}
	}()
	for i := 0; count < 0 && model.pos < len(data) || i < count; i++ {
		if resetEach {
			model.refs = nil
			model.classes = nil
		}
		nodes = append(nodes, model.value())
	}
	if model.pos != len(data) {
		model.fail("trailing bytes")
	}
	return
}

// resolve follows a reference node.
func (m *zzModel) resolve(n *zzNode) *zzNode {
	if n.Tag == 'r' {
		return m.refs[n.Ref]
	}
	return n
}
