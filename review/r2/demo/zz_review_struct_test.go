package io

// Demos for the review of the struct field / registration machinery (commits 977086e, f8252e8,
// 2958c85). Every test in this file FAILS on HEAD and prints a line starting with "VIOLATION:".
// The tests use types of their own: registrations are global.

import (
	"sync"
	"testing"
)

func zzRevTry(f func()) (r interface{}) {
	defer func() { r = recover() }()
	f()
	return nil
}

// ---------------------------------------------------------------------------------------------
// 1. "a coder whose construction panics does not stay registered half-built" (977086e) - but the
// coders of OTHER types that were completed while it was being built keep it. T has ambiguous
// fields and points to U, U points back to T: building T's encoder builds U's encoder first, U's
// field handler binds T's unfinished encoder (it is published before its fields are computed),
// then T's construction panics and T is taken out of the maps. U stays registered, complete, and
// writes every T it meets through the orphan: no class definition, no fields -> "o1{}" with a class
// index that was never defined. The decoder side mirrors it: the orphan decoder has no fields and
// drops every value silently. Using T directly panics every time, as it should.
// ---------------------------------------------------------------------------------------------

type zzRevAmb1 struct{ X int }
type zzRevAmb2 struct{ X int }

type zzRevHBU struct {
	Name string
	Back *zzRevHBT
}

type zzRevHBT struct {
	U *zzRevHBU
	zzRevAmb1
	zzRevAmb2
}

func TestZZReviewHalfBuiltCoderKeptBySibling(t *testing.T) {
	if r := zzRevTry(func() { _, _ = Marshal(&zzRevHBT{}) }); r == nil {
		t.Fatalf("the ambiguous type was expected to panic")
	}
	if r := zzRevTry(func() { _, _ = Marshal(&zzRevHBT{}) }); r == nil {
		t.Errorf("VIOLATION: second use of the ambiguous type does not panic")
	}
	for _, simple := range []bool{true, false} {
		var data []byte
		var err error
		r := zzRevTry(func() {
			enc := NewEncoder(nil).Simple(simple)
			err = enc.Encode(&zzRevHBU{Name: "u", Back: &zzRevHBT{zzRevAmb1: zzRevAmb1{1}, zzRevAmb2: zzRevAmb2{2}}})
			data = enc.Bytes()
		})
		if r != nil || err != nil {
			continue // a panic or an error is what one would expect
		}
		if _, _, merr := zzParse(data, simple, 1, false); merr != nil {
			t.Errorf("VIOLATION: simple=%v: no panic, no error, and the output is not well-formed: %v\n%q", simple, merr, data)
		}
	}
	var u zzRevHBU
	err := Unmarshal([]byte(`c8"zzRevHBU"2{s4"name"s4"back"}c8"zzRevHBT"1{s1"x"}o0{s1"u"o1{5}}`), &u)
	if err == nil && u.Back != nil && u.Back.zzRevAmb1.X == 0 && u.Back.zzRevAmb2.X == 0 {
		t.Errorf("VIOLATION: decoding through the sibling type: no panic, no error, and the value 5 of field x went nowhere: %+v", *u.Back)
	}
}

// ---------------------------------------------------------------------------------------------
// 2. "a field that shadows a promoted field of an embedded struct is legal Go: the outer field
// wins" (977086e) covers a field of the enclosing struct only. Go's rule is about depth: a field
// promoted from a shallower embedded struct also wins over one promoted from a deeper one. This
// type compiles, v.X selects zzRevSibA.X, and using it with the package still panics.
// ---------------------------------------------------------------------------------------------

type zzRevSibA struct{ X int }
type zzRevSibC struct{ X int }
type zzRevSibB struct{ zzRevSibC }
type zzRevSibOuter struct {
	zzRevSibA
	zzRevSibB
}

func TestZZReviewShadowingBetweenSiblingEmbeddedStructs(t *testing.T) {
	v := zzRevSibOuter{zzRevSibA{1}, zzRevSibB{zzRevSibC{2}}}
	if v.X != 1 {
		t.Fatal("Go selects the shallower field")
	}
	if r := zzRevTry(func() { _, _ = Marshal(v) }); r != nil {
		t.Errorf("VIOLATION: a legal Go struct (v.X is zzRevSibA.X, depth 1, over zzRevSibC.X, depth 2) panics: %v", r)
	}
}

// ---------------------------------------------------------------------------------------------
// 3. Re-registration (f8252e8) keeps the coders consistent only when the call names tags. A plain
// Register(T) still puts NEW coders beside the existing ones, and the decoder's new one takes its
// fields from structFieldMapCache (which a plain call does not refresh) while the encoder's new
// one is computed from the default tags:
//
//	Register(T, "hp"); Register(T)            -> encoder writes "a","b", decoder expects "alpha","beta"
//	Register(Out); Register(In); Register(In, "hp")
//	                                          -> the tagged call updates the coders of the second
//	                                             (plain) registration; Out's coders and decoderMap
//	                                             hold those of the first: a top-level In is written
//	                                             with "alpha","beta" and read with "a","b"
//
// Both round trips lose every field without an error - the symptom f8252e8 describes.
// ---------------------------------------------------------------------------------------------

type zzRevTagsThenPlain struct {
	A int    `hp:"alpha"`
	B string `hp:"beta"`
}

func TestZZReviewRegisterWithTagsThenPlain(t *testing.T) {
	Register((*zzRevTagsThenPlain)(nil), "hp")
	Register((*zzRevTagsThenPlain)(nil))
	v := zzRevTagsThenPlain{1, "b1"}
	data, _ := Marshal(v)
	var out zzRevTagsThenPlain
	err := Unmarshal(data, &out)
	if out != v {
		t.Errorf("VIOLATION: Register(T, \"hp\"); Register(T): round trip gives %+v (err %v), want %+v\n%q", out, err, v, data)
	}
	var iv interface{}
	_ = Unmarshal(data, &iv)
	if p, ok := iv.(*zzRevTagsThenPlain); !ok || *p != v {
		t.Errorf("VIOLATION: the same into interface{}: %+v", iv)
	}
}

type zzRevPlainIn struct {
	A int    `hp:"alpha"`
	B string `hp:"beta"`
}
type zzRevPlainOut struct {
	In zzRevPlainIn
}

func TestZZReviewRegisterPlainThenWithTags(t *testing.T) {
	Register((*zzRevPlainOut)(nil))
	Register((*zzRevPlainIn)(nil))
	Register((*zzRevPlainIn)(nil), "hp")
	v := zzRevPlainIn{1, "b1"}
	data, _ := Marshal(v)
	var in zzRevPlainIn
	err := Unmarshal(data, &in)
	if in != v {
		t.Errorf("VIOLATION: Register(Out); Register(In); Register(In, \"hp\"): round trip of an In gives %+v (err %v), want %+v\n%q", in, err, v, data)
	}
	var pin *zzRevPlainIn
	_ = Unmarshal(data, &pin)
	if pin == nil || *pin != v {
		t.Errorf("VIOLATION: the same into *In: %+v", pin)
	}
	// and the struct that contains it has not got the tags at all
	odata, _ := Marshal(zzRevPlainOut{v})
	if _, model, _ := zzParse(odata, true, 1, false); model != nil && len(model.classes) == 2 && model.classes[1].Fields[0] != "alpha" {
		t.Errorf("VIOLATION: inside Out the type is still written with %q after Register(In, \"hp\")\n%q", model.classes[1].Fields, odata)
	}
}

// ---------------------------------------------------------------------------------------------
// 4. Register racing with Marshal. The struct encoder takes a snapshot of (fields, metadata) under
// its lock once per OBJECT, the stream remembers the class definition once per STREAM (enc.ref):
// a registration that lands between two objects of one stream changes the fields of the second
// under the class definition of the first. With tags that change the NUMBER of fields the stream
// is cut: "c..2{...}o0{0e}o0{0}" - no data race (go test -race is quiet), a torn stream.
// ---------------------------------------------------------------------------------------------

type zzRevRaceIn struct {
	A int    `hp:"alpha" json:"jalpha"`
	B string `hp:"-" json:"jbeta"`
}

func TestZZReviewRegisterDuringMarshal(t *testing.T) {
	Register((*zzRevRaceIn)(nil), "json")
	var wg sync.WaitGroup
	stop := make(chan struct{})
	wg.Add(1)
	go func() {
		defer wg.Done()
		for i := 0; ; i++ {
			select {
			case <-stop:
				return
			default:
			}
			if i%2 == 0 {
				Register((*zzRevRaceIn)(nil), "hp")
			} else {
				Register((*zzRevRaceIn)(nil), "json")
			}
		}
	}()
	sl := make([]zzRevRaceIn, 200)
	for k := 0; k < 20000; k++ {
		data, err := Marshal(sl)
		if err != nil {
			t.Errorf("VIOLATION: marshal: %v", err)
			break
		}
		if _, _, merr := zzParse(data, true, 1, false); merr != nil {
			t.Errorf("VIOLATION: Marshal of 200 structs while the type is being registered: the stream is not well-formed: %v\n%.120q ...", merr, data)
			break
		}
	}
	close(stop)
	wg.Wait()
}
