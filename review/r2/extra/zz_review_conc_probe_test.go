package io
import (
	"sync"
	"testing"
)
type zzC0 struct {
	A int `hp:"a0"`
	S string `hp:"s0"`
	Next *zzC1
	Self *zzC0
	Sl []zzC1
	M map[string]*zzC2
}
type zzC1 struct {
	A int `hp:"a1"`
	S string `hp:"s1"`
	Next *zzC2
	Self *zzC1
	Sl []zzC2
	M map[string]*zzC3
}
type zzC2 struct {
	A int `hp:"a2"`
	S string `hp:"s2"`
	Next *zzC3
	Self *zzC2
	Sl []zzC3
	M map[string]*zzC4
}
type zzC3 struct {
	A int `hp:"a3"`
	S string `hp:"s3"`
	Next *zzC4
	Self *zzC3
	Sl []zzC4
	M map[string]*zzC5
}
type zzC4 struct {
	A int `hp:"a4"`
	S string `hp:"s4"`
	Next *zzC5
	Self *zzC4
	Sl []zzC5
	M map[string]*zzC6
}
type zzC5 struct {
	A int `hp:"a5"`
	S string `hp:"s5"`
	Next *zzC6
	Self *zzC5
	Sl []zzC6
	M map[string]*zzC7
}
type zzC6 struct {
	A int `hp:"a6"`
	S string `hp:"s6"`
	Next *zzC7
	Self *zzC6
	Sl []zzC7
	M map[string]*zzC8
}
type zzC7 struct {
	A int `hp:"a7"`
	S string `hp:"s7"`
	Next *zzC8
	Self *zzC7
	Sl []zzC8
	M map[string]*zzC9
}
type zzC8 struct {
	A int `hp:"a8"`
	S string `hp:"s8"`
	Next *zzC9
	Self *zzC8
	Sl []zzC9
	M map[string]*zzC10
}
type zzC9 struct {
	A int `hp:"a9"`
	S string `hp:"s9"`
	Next *zzC10
	Self *zzC9
	Sl []zzC10
	M map[string]*zzC11
}
type zzC10 struct {
	A int `hp:"a10"`
	S string `hp:"s10"`
	Next *zzC11
	Self *zzC10
	Sl []zzC11
	M map[string]*zzC12
}
type zzC11 struct {
	A int `hp:"a11"`
	S string `hp:"s11"`
	Next *zzC12
	Self *zzC11
	Sl []zzC12
	M map[string]*zzC13
}
type zzC12 struct {
	A int `hp:"a12"`
	S string `hp:"s12"`
	Next *zzC13
	Self *zzC12
	Sl []zzC13
	M map[string]*zzC14
}
type zzC13 struct {
	A int `hp:"a13"`
	S string `hp:"s13"`
	Next *zzC14
	Self *zzC13
	Sl []zzC14
	M map[string]*zzC15
}
type zzC14 struct {
	A int `hp:"a14"`
	S string `hp:"s14"`
	Next *zzC15
	Self *zzC14
	Sl []zzC15
	M map[string]*zzC16
}
type zzC15 struct {
	A int `hp:"a15"`
	S string `hp:"s15"`
	Next *zzC16
	Self *zzC15
	Sl []zzC16
	M map[string]*zzC17
}
type zzC16 struct {
	A int `hp:"a16"`
	S string `hp:"s16"`
	Next *zzC17
	Self *zzC16
	Sl []zzC17
	M map[string]*zzC18
}
type zzC17 struct {
	A int `hp:"a17"`
	S string `hp:"s17"`
	Next *zzC18
	Self *zzC17
	Sl []zzC18
	M map[string]*zzC19
}
type zzC18 struct {
	A int `hp:"a18"`
	S string `hp:"s18"`
	Next *zzC19
	Self *zzC18
	Sl []zzC19
	M map[string]*zzC20
}
type zzC19 struct {
	A int `hp:"a19"`
	S string `hp:"s19"`
	Next *zzC20
	Self *zzC19
	Sl []zzC20
	M map[string]*zzC21
}
type zzC20 struct {
	A int `hp:"a20"`
	S string `hp:"s20"`
	Next *zzC21
	Self *zzC20
	Sl []zzC21
	M map[string]*zzC22
}
type zzC21 struct {
	A int `hp:"a21"`
	S string `hp:"s21"`
	Next *zzC22
	Self *zzC21
	Sl []zzC22
	M map[string]*zzC23
}
type zzC22 struct {
	A int `hp:"a22"`
	S string `hp:"s22"`
	Next *zzC23
	Self *zzC22
	Sl []zzC23
	M map[string]*zzC0
}
type zzC23 struct {
	A int `hp:"a23"`
	S string `hp:"s23"`
	Next *zzC0
	Self *zzC23
	Sl []zzC0
	M map[string]*zzC1
}
func zzConcValues() []interface{} {
	return []interface{}{
		&zzC0{A: 0, S: "s", Next: &zzC1{A: 1}, Sl: []zzC1{{A: 2}}, M: map[string]*zzC2{"k": {A: 3}}},
		&zzC1{A: 1, S: "s", Next: &zzC2{A: 1}, Sl: []zzC2{{A: 2}}, M: map[string]*zzC3{"k": {A: 3}}},
		&zzC2{A: 2, S: "s", Next: &zzC3{A: 1}, Sl: []zzC3{{A: 2}}, M: map[string]*zzC4{"k": {A: 3}}},
		&zzC3{A: 3, S: "s", Next: &zzC4{A: 1}, Sl: []zzC4{{A: 2}}, M: map[string]*zzC5{"k": {A: 3}}},
		&zzC4{A: 4, S: "s", Next: &zzC5{A: 1}, Sl: []zzC5{{A: 2}}, M: map[string]*zzC6{"k": {A: 3}}},
		&zzC5{A: 5, S: "s", Next: &zzC6{A: 1}, Sl: []zzC6{{A: 2}}, M: map[string]*zzC7{"k": {A: 3}}},
		&zzC6{A: 6, S: "s", Next: &zzC7{A: 1}, Sl: []zzC7{{A: 2}}, M: map[string]*zzC8{"k": {A: 3}}},
		&zzC7{A: 7, S: "s", Next: &zzC8{A: 1}, Sl: []zzC8{{A: 2}}, M: map[string]*zzC9{"k": {A: 3}}},
		&zzC8{A: 8, S: "s", Next: &zzC9{A: 1}, Sl: []zzC9{{A: 2}}, M: map[string]*zzC10{"k": {A: 3}}},
		&zzC9{A: 9, S: "s", Next: &zzC10{A: 1}, Sl: []zzC10{{A: 2}}, M: map[string]*zzC11{"k": {A: 3}}},
		&zzC10{A: 10, S: "s", Next: &zzC11{A: 1}, Sl: []zzC11{{A: 2}}, M: map[string]*zzC12{"k": {A: 3}}},
		&zzC11{A: 11, S: "s", Next: &zzC12{A: 1}, Sl: []zzC12{{A: 2}}, M: map[string]*zzC13{"k": {A: 3}}},
		&zzC12{A: 12, S: "s", Next: &zzC13{A: 1}, Sl: []zzC13{{A: 2}}, M: map[string]*zzC14{"k": {A: 3}}},
		&zzC13{A: 13, S: "s", Next: &zzC14{A: 1}, Sl: []zzC14{{A: 2}}, M: map[string]*zzC15{"k": {A: 3}}},
		&zzC14{A: 14, S: "s", Next: &zzC15{A: 1}, Sl: []zzC15{{A: 2}}, M: map[string]*zzC16{"k": {A: 3}}},
		&zzC15{A: 15, S: "s", Next: &zzC16{A: 1}, Sl: []zzC16{{A: 2}}, M: map[string]*zzC17{"k": {A: 3}}},
		&zzC16{A: 16, S: "s", Next: &zzC17{A: 1}, Sl: []zzC17{{A: 2}}, M: map[string]*zzC18{"k": {A: 3}}},
		&zzC17{A: 17, S: "s", Next: &zzC18{A: 1}, Sl: []zzC18{{A: 2}}, M: map[string]*zzC19{"k": {A: 3}}},
		&zzC18{A: 18, S: "s", Next: &zzC19{A: 1}, Sl: []zzC19{{A: 2}}, M: map[string]*zzC20{"k": {A: 3}}},
		&zzC19{A: 19, S: "s", Next: &zzC20{A: 1}, Sl: []zzC20{{A: 2}}, M: map[string]*zzC21{"k": {A: 3}}},
		&zzC20{A: 20, S: "s", Next: &zzC21{A: 1}, Sl: []zzC21{{A: 2}}, M: map[string]*zzC22{"k": {A: 3}}},
		&zzC21{A: 21, S: "s", Next: &zzC22{A: 1}, Sl: []zzC22{{A: 2}}, M: map[string]*zzC23{"k": {A: 3}}},
		&zzC22{A: 22, S: "s", Next: &zzC23{A: 1}, Sl: []zzC23{{A: 2}}, M: map[string]*zzC0{"k": {A: 3}}},
		&zzC23{A: 23, S: "s", Next: &zzC0{A: 1}, Sl: []zzC0{{A: 2}}, M: map[string]*zzC1{"k": {A: 3}}},
	}
}
func zzConcNew(i int) interface{} {
	switch i {
	case 0:
		return new(zzC0)
	case 1:
		return new(zzC1)
	case 2:
		return new(zzC2)
	case 3:
		return new(zzC3)
	case 4:
		return new(zzC4)
	case 5:
		return new(zzC5)
	case 6:
		return new(zzC6)
	case 7:
		return new(zzC7)
	case 8:
		return new(zzC8)
	case 9:
		return new(zzC9)
	case 10:
		return new(zzC10)
	case 11:
		return new(zzC11)
	case 12:
		return new(zzC12)
	case 13:
		return new(zzC13)
	case 14:
		return new(zzC14)
	case 15:
		return new(zzC15)
	case 16:
		return new(zzC16)
	case 17:
		return new(zzC17)
	case 18:
		return new(zzC18)
	case 19:
		return new(zzC19)
	case 20:
		return new(zzC20)
	case 21:
		return new(zzC21)
	case 22:
		return new(zzC22)
	case 23:
		return new(zzC23)
	}
	return nil
}

// first use of a family of mutually recursive types from many goroutines at once
func TestZZProbeConcFirstUse(t *testing.T) {
	vals := zzConcValues()
	var wg sync.WaitGroup
	start := make(chan struct{})
	for g := 0; g < 32; g++ {
		wg.Add(1)
		go func(g int) {
			defer wg.Done()
			<-start
			for k := 0; k < len(vals); k++ {
				i := (g + k) % len(vals)
				f := Formatter{Simple: g%2 == 0}
				data, err := f.Marshal(vals[i])
				if err != nil {
					t.Errorf("VIOLATION: marshal %d: %v", i, err)
					return
				}
				if _, _, merr := zzParse(data, f.Simple, 1, false); merr != nil {
					t.Errorf("VIOLATION: first use from goroutine %d type %d malformed: %v\n%q", g, i, merr, data)
					return
				}
				p := zzConcNew(i)
				if err := f.Unmarshal(data, p); err != nil {
					t.Errorf("VIOLATION: unmarshal %d: %v\n%q", i, err, data)
					return
				}
				d2, _ := f.Marshal(p)
				if string(d2) != string(data) {
					t.Errorf("VIOLATION: round trip differs type %d\n%q\n%q", i, data, d2)
					return
				}
			}
		}(g)
	}
	close(start)
	wg.Wait()
}

type zzRaceIn struct {
	A int    `hp:"alpha" json:"jalpha"`
	B string `hp:"beta" json:"jbeta"`
}
type zzRaceOut struct {
	In  zzRaceIn
	PIn *zzRaceIn
	Sl  []zzRaceIn
}

// Register with tags racing with Marshal/Unmarshal of a struct that contains the type
func TestZZProbeConcRegister(t *testing.T) {
	Register((*zzRaceOut)(nil))
	var wg sync.WaitGroup
	stop := make(chan struct{})
	wg.Add(1)
	go func() {
		defer wg.Done()
		for i := 0; ; i++ {
			select {
			case <-stop:
				return
			default:
			}
			if i%2 == 0 {
				Register((*zzRaceIn)(nil), "hp")
			} else {
				Register((*zzRaceIn)(nil), "json")
			}
		}
	}()
	var wg2 sync.WaitGroup
	for g := 0; g < 8; g++ {
		wg2.Add(1)
		go func(g int) {
			defer wg2.Done()
			f := Formatter{Simple: g%2 == 0}
			for k := 0; k < 3000; k++ {
				v := zzRaceOut{In: zzRaceIn{1, "b1"}, PIn: &zzRaceIn{2, "b2"}, Sl: []zzRaceIn{{3, "b3"}}}
				data, err := f.Marshal(v)
				if err != nil {
					t.Errorf("VIOLATION: marshal: %v", err)
					return
				}
				if _, _, merr := zzParse(data, f.Simple, 1, false); merr != nil {
					t.Errorf("VIOLATION: malformed while registering: %v\n%q", merr, data)
					return
				}
				var out zzRaceOut
				if err := f.Unmarshal(data, &out); err != nil {
					t.Errorf("VIOLATION: unmarshal: %v\n%q", err, data)
					return
				}
			}
		}(g)
	}
	wg2.Wait()
	close(stop)
	wg.Wait()
}
