package io

import (
	"container/list"
	"errors"
	"fmt"
	"math/big"
	_ "reflect"
	"testing"
	"time"

	"github.com/google/uuid"
)

type zzInner struct {
	A int
	B string
}

type zzEmbP struct{ P *string }

type zzMyErr struct{ msg string }

func (e *zzMyErr) Error() string { return e.msg }

type zzNilMatrix struct {
	PInt  *int
	PStr  *string
	Sl    []int
	Bs    []byte
	M     map[string]int
	I     interface{}
	Err   error
	PErr  *error
	BI    *big.Int
	BF    *big.Float
	BR    *big.Rat
	T     *time.Time
	U     *uuid.UUID
	L     *list.List
	PS    *zzInner
	PP    **int
	PSl   *[]int
	PM    *map[string]int
	Arr   *[2]int
	BsBs  [][]byte
	SlSl  [][]int
	SlI   []interface{}
	SlE   []error
	SlBI  []*big.Int
	SlBF  []*big.Float
	SlBR  []*big.Rat
	MBI   map[string]*big.Int
	ME    map[string]error
	MBs   map[string][]byte
	SlPS  []*zzInner
	SlT   []*time.Time
	SlPSl []*[]int
	S1    string
	S2    string
}

func zzFullMatrix() *zzNilMatrix {
	i := 5
	pi := &i
	s := "pstr-value"
	var e error = errors.New("err-value")
	tm := time.Date(2020, 1, 2, 3, 4, 5, 6, time.UTC)
	u := uuid.MustParse("6ba7b810-9dad-11d1-80b4-00c04fd430c8")
	l := list.New()
	l.PushBack("in-list")
	sl := []int{1, 2}
	m := map[string]int{"k": 1}
	arr := [2]int{1, 2}
	return &zzNilMatrix{
		PInt: pi, PStr: &s, Sl: []int{1}, Bs: []byte("bytes"), M: map[string]int{"a": 1},
		I: "iface-str", Err: errors.New("field-err"), PErr: &e,
		BI: big.NewInt(7), BF: big.NewFloat(1.5), BR: big.NewRat(1, 3),
		T: &tm, U: &u, L: l, PS: &zzInner{1, "inner-b"}, PP: &pi, PSl: &sl, PM: &m, Arr: &arr,
		BsBs: [][]byte{nil, []byte("x1"), {}, nil, []byte("x2")},
		SlSl: [][]int{nil, {1}, {}},
		SlI:  []interface{}{nil, (*int)(nil), []byte(nil), map[string]int(nil), (*big.Int)(nil), error(nil), (*zzMyErr)(nil), (*zzInner)(nil), "slI-str"},
		SlE:  []error{nil, errors.New("e1"), (*zzMyErr)(nil)},
		SlBI: []*big.Int{nil, big.NewInt(1)},
		SlBF: []*big.Float{nil, big.NewFloat(2.5)},
		SlBR: []*big.Rat{nil, big.NewRat(2, 3)},
		MBI:  map[string]*big.Int{"nilv": nil},
		ME:   map[string]error{"nile": nil},
		MBs:  map[string][]byte{"nilb": nil},
		SlPS: []*zzInner{nil, {2, "inner-2"}},
		SlT:  []*time.Time{nil, &tm},
		SlPSl: []*[]int{nil, &sl, new([]int)},
		S1:   "sentinel-string",
		S2:   "sentinel-string",
	}
}

func zzEncodeWith(simple bool, write bool, vs ...interface{}) ([]byte, error) {
	enc := NewEncoder(nil).Simple(simple)
	var err error
	for _, v := range vs {
		if write {
			err = enc.Write(v)
		} else {
			err = enc.Encode(v)
		}
	}
	return enc.Bytes(), err
}

func zzDecodeAll(simple bool, data []byte, n int) ([]interface{}, error) {
	dec := NewDecoder(data).Simple(simple)
	var out []interface{}
	for i := 0; i < n; i++ {
		var v interface{}
		dec.Decode(&v)
		out = append(out, v)
	}
	if dec.Error != nil {
		return out, dec.Error
	}
	if dec.head != dec.tail {
		return out, fmt.Errorf("trailing bytes: %q", data[dec.head:])
	}
	return out, nil
}

func TestZZProbeNilMatrix(t *testing.T) {
	for _, simple := range []bool{true, false} {
		for _, write := range []bool{false, true} {
			for name, v := range map[string]*zzNilMatrix{
				"empty": {S1: "sentinel-string", S2: "sentinel-string"},
				"full":  zzFullMatrix(),
			} {
				data, err := zzEncodeWith(simple, write, v, "sentinel-string", v)
				if err != nil {
					t.Errorf("VIOLATION: %s simple=%v write=%v: encode error %v", name, simple, write, err)
					continue
				}
				nodes, model, err := zzParse(data, simple, 3, false)
				if err != nil {
					t.Errorf("VIOLATION: %s simple=%v write=%v: malformed: %v\n%q", name, simple, write, err, data)
					continue
				}
				if n := model.resolve(nodes[1]); n.Str != "sentinel-string" {
					t.Errorf("VIOLATION: %s simple=%v write=%v: sentinel = %c %q\n%q", name, simple, write, n.Tag, n.Str, data)
				}
				for _, i := range []int{0, 2} {
					o := model.resolve(nodes[i])
					if o.Tag != 'o' || len(o.Kids) != 34 || model.resolve(o.Kids[32]).Str != "sentinel-string" || model.resolve(o.Kids[33]).Str != "sentinel-string" {
						t.Errorf("VIOLATION: %s simple=%v write=%v: object %d sentinels\n%q", name, simple, write, i, data)
					}
				}
				if name == "full" {
					continue // holds errors, which the decoder reports as dec.Error by design
				}
				// typed decode
				dec := NewDecoder(data).Simple(simple)
				var m1 zzNilMatrix
				dec.Decode(&m1)
				var s string
				dec.Decode(&s)
				var m2 *zzNilMatrix
				dec.Decode(&m2)
				if dec.Error != nil {
					t.Errorf("VIOLATION: %s simple=%v write=%v: typed decode error %v\n%q", name, simple, write, dec.Error, data)
					continue
				}
				if m1.S1 != "sentinel-string" || m1.S2 != "sentinel-string" || s != "sentinel-string" || m2 == nil || m2.S2 != "sentinel-string" {
					t.Errorf("VIOLATION: %s simple=%v write=%v: sentinels %q %q %q\n%q", name, simple, write, m1.S1, m1.S2, s, data)
				}
				if name == "full" {
					if m1.SlI[8] != "slI-str" || string(m1.BsBs[4]) != "x2" || m1.BsBs[0] != nil || m1.PS.B != "inner-b" || m1.SlPS[1].B != "inner-2" {
						t.Errorf("VIOLATION: %s simple=%v write=%v: content %#v\n%q", name, simple, write, m1, data)
					}
				}
				if testing.Verbose() && name == "full" && !simple && !write {
					t.Logf("%q", data)
				}
			}
		}
	}
}

// each candidate value is put in several positions, followed by a repeated sentinel string; if the
// encoder's notion of reference slots differs from the decoder's, the sentinel reference resolves wrongly.
func TestZZProbeRefSlots(t *testing.T) {
	tm := time.Date(2020, 1, 2, 3, 4, 5, 6, time.UTC)
	u := uuid.MustParse("6ba7b810-9dad-11d1-80b4-00c04fd430c8")
	l := list.New()
	l.PushBack("in-list")
	bigf := new(big.Float)
	bigf.SetInf(true)
	loc := time.FixedZone("X", 3600)
	cands := map[string]interface{}{
		"nil":           nil,
		"nil*int":       (*int)(nil),
		"nil[]byte":     []byte(nil),
		"empty[]byte":   []byte{},
		"nilmap":        map[string]int(nil),
		"nil*big.Int":   (*big.Int)(nil),
		"nil*big.Float": (*big.Float)(nil),
		"nil*big.Rat":   (*big.Rat)(nil),
		"big.Int":       big.NewInt(5),
		"big.IntVal":    *big.NewInt(5),
		"big.Float":     big.NewFloat(1.5),
		"big.FloatInf":  bigf,
		"big.Rat":       big.NewRat(1, 3),
		"big.RatInt":    big.NewRat(3, 1),
		"big.RatVal":    *big.NewRat(1, 3),
		"err":           errors.New("boom"),
		"errBadUTF8":    errors.New("bo\xffom"),
		"errEmpty":      errors.New(""),
		"typednilerr":   (*zzMyErr)(nil),
		"time":          tm,
		"*time":         &tm,
		"timeZone":      tm.In(loc),
		"timeBadYear":   nil, // placeholder
		"uuid":          u,
		"*uuid":         &u,
		"list":          l,
		"str":           "hello",
		"strEmpty":      "",
		"str1":          "x",
		"strBad":        "a\xffb",
		"strBad1":       "\xff",
		"strSurr":       "\xed\xa0\x80",
		"str4byte":      "\U0001F600",
		"complex":       complex(1, 2),
		"complexReal":   complex(1, 0),
		"complex64":     complex64(complex(1, 2)),
		"[][]byte":      [][]byte{nil, {}, []byte("ab")},
		"[1]*int":       [1]*int{nil},
		"[1][]byte":     [1][]byte{nil},
		"[2][]byte":     [2][]byte{nil, []byte("q")},
		"struct":        zzInner{1, "b"},
		"*struct":       &zzInner{1, "b"},
		"[]struct":      []zzInner{{1, "b"}, {2, "c"}},
		"[]error":       []error{nil, errors.New("e1")},
		"map[s]err":     map[string]error{"a": nil, "b": errors.New("e2")},
		"[]string":      []string{"", "x", "dup", "dup", "a\xff"},
		"[][]string":    [][]string{nil, {"dup"}, {"dup"}},
		"map[s]s":       map[string]string{"k": "k"},
		"[]*string":     []*string{nil},
		"**int-nil":     new(*int),
		"*[]int-nil":    new([]int),
		"*map-nil":      new(map[string]int),
		"*iface-nil":    new(interface{}),
		"*error-nil":    new(error),
		"anon":          struct{ A *int; B error; C string }{nil, nil, "anon-c"},
		"[]map-nil":     []map[string]int{nil, {"a": 1}},
		"[][]iface-nil": [][]interface{}{nil, {"dup9", "dup9"}},
		"[]*[]byte":     []*[]byte{nil, new([]byte)},
		"map-map-nil":   map[string]map[string]int{"a": nil},
		"[]*list":       []*list.List{nil, l},
		"[]*uuid":       []*uuid.UUID{nil, &u, &u},
		"[]uuid":        []uuid.UUID{u, u},
		"[]time":        []time.Time{tm, tm},
		"[]*time":       []*time.Time{nil, &tm, &tm},
		"[1]map":        [1]map[string]int{nil},
		"[1]map2":       [1]map[string]int{{"a": 1}},
		"[1]ptrstruct":  [1]struct{ P *int }{},
		"[1][1]*int":    [1][1]*int{},
		"ptrstruct":     struct{ P *string }{&[]string{"pp-str"}[0]},
		"ptrstruct-nil": struct{ P *string }{},
		"mapstruct":     struct{ M map[string]string }{map[string]string{"dupk": "dupk"}},
		"arrstruct":     struct{ A [1]*string }{[1]*string{&[]string{"aa-str"}[0]}},
		"embptr":        struct{ zzEmbP }{zzEmbP{&[]string{"emb-str"}[0]}},
		"[]ptrstruct":   []struct{ P *string }{{}, {&[]string{"pp-str"}[0]}},
		"map[s]ptrstruct": map[string]struct{ P *string }{"a": {&[]string{"pp-str"}[0]}},
		"[]iface-typed": []interface{}{[]byte(nil), map[int]int(nil), (*[]int)(nil), (*map[string]int)(nil), (**int)(nil), (*interface{})(nil), (*error)(nil), (*time.Time)(nil), (*uuid.UUID)(nil), (*list.List)(nil), (*big.Rat)(nil), (*zzInner)(nil), (*[2]int)(nil), (*string)(nil)},
		"complexslice":  []complex128{1, complex(1, 2)},
		"[]bigint":      []big.Int{*big.NewInt(1)},
		"[]*bigrat":     []*big.Rat{big.NewRat(1, 3), big.NewRat(1, 3), nil},
		"map[err]":      map[string]interface{}{"e": errors.New("dupmsg"), "s": "dupmsg"},
		"*anon":         &struct{ A *int; B error; C string }{nil, nil, "anon-c"},
	}
	delete(cands, "timeBadYear")
	for name, c := range cands {
		for _, simple := range []bool{true, false} {
			for _, write := range []bool{false, true} {
				positions := map[string]interface{}{
					"top":   c,
					"slice": []interface{}{c, "sentinel-string", "sentinel-string"},
					"map":   map[string]interface{}{"k": c},
					"field": struct {
						V interface{}
						S string
						T string
					}{c, "sentinel-string", "sentinel-string"},
					"ptr": &c,
				}
				for pname, pv := range positions {
					func() {
						defer func() {
							if r := recover(); r != nil {
								t.Errorf("VIOLATION: %s/%s simple=%v write=%v: panic %v", name, pname, simple, write, r)
							}
						}()
						data, err := zzEncodeWith(simple, write, pv, "sentinel-string", "sentinel-string", pv, "sentinel-string")
						if err != nil {
							t.Errorf("VIOLATION: %s/%s simple=%v write=%v: encode error %v", name, pname, simple, write, err)
							return
						}
						nodes, model, err := zzParse(data, simple, 5, false)
						if err != nil {
							t.Errorf("VIOLATION: %s/%s simple=%v write=%v: malformed: %v\n%q", name, pname, simple, write, err, data)
							return
						}
						for _, i := range []int{1, 2, 4} {
							if n := model.resolve(nodes[i]); n.Tag != 's' || n.Str != "sentinel-string" {
								t.Errorf("VIOLATION: %s/%s simple=%v write=%v: sentinel %d = %c %q\n%q", name, pname, simple, write, i, n.Tag, n.Str, data)
							}
						}
						// the same with Reset between the values
						{
							enc := NewEncoder(nil).Simple(simple)
							for _, x := range []interface{}{pv, "sentinel-string", pv, pv, "sentinel-string"} {
								if write {
									enc.Write(x)
								} else {
									enc.Encode(x)
								}
								enc.Reset()
							}
							nodes, model, err := zzParse(enc.Bytes(), simple, 5, true)
							if err != nil {
								t.Errorf("VIOLATION: %s/%s simple=%v write=%v with Reset: malformed: %v\n%q", name, pname, simple, write, err, enc.Bytes())
								return
							}
							if n := model.resolve(nodes[4]); n.Tag != 's' || n.Str != "sentinel-string" {
								t.Errorf("VIOLATION: %s/%s simple=%v write=%v with Reset: sentinel", name, pname, simple, write)
							}
						}
						if pname == "slice" {
							l := model.resolve(nodes[0])
							if l.Tag != 'a' || len(l.Kids) != 3 || model.resolve(l.Kids[2]).Str != "sentinel-string" {
								t.Errorf("VIOLATION: %s/%s simple=%v write=%v: in-slice sentinel\n%q", name, pname, simple, write, data)
							}
						}
					}()
				}
			}
		}
	}
}
