package core_test

import (
	"reflect"
	"testing"

	. "github.com/hprose/hprose-golang/v3/rpc/core"
)

// 5cb27be: "a proxy tag with a quoted last value ... no longer panics". It no longer panics,
// but the value it yields is wrong: the closing quote is not consumed, so the value keeps its
// opening quote and the closing quote becomes a header of its own. The same quoted value in
// any position but the last is parsed correctly (see TestTagParser: str2:'12345' -> 12345).
func TestZZReviewTagQuotedLastValue(t *testing.T) {
	type testStruct struct {
		Last   func() `header:"id:123,token:'abc'" context:"a:1,s:\"x y\""`
		Middle func() `header:"token:'abc',id:123"`
	}
	f, _ := reflect.TypeOf(testStruct{}).FieldByName("Middle")
	parser := ParseTag(NewClientContext(), f.Tag)
	if got := parser.Context.RequestHeaders().GetString("token"); got != "abc" {
		t.Fatalf("setup: a quoted value that is not the last: %q", got)
	}
	f, _ = reflect.TypeOf(testStruct{}).FieldByName("Last")
	parser = ParseTag(NewClientContext(), f.Tag)
	headers := parser.Context.RequestHeaders().ToMap()
	if got, _ := headers["token"].(string); got != "abc" {
		t.Errorf("VIOLATION: header:\"id:123,token:'abc'\": token = %q, want \"abc\"; all request headers: %v", headers["token"], headers)
	}
	if _, ok := headers["'"]; ok {
		t.Errorf("VIOLATION: the closing quote became a request header of its own: %v", headers)
	}
	items := parser.Context.Items().ToMap()
	if got, _ := items["s"].(string); got != "x y" {
		t.Errorf("VIOLATION: context:\"a:1,s:\\\"x y\\\"\": s = %q, want \"x y\"; all items: %v", items["s"], items)
	}
}
