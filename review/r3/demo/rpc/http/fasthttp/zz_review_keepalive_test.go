package fasthttp_test

import (
	"sync/atomic"
	"testing"
	"time"

	"github.com/hprose/hprose-golang/v3/rpc/core"
	"github.com/valyala/fasthttp"
)

// 8ebb176 set MaxIdemponentCallAttempts to 1 to keep fasthttp from repeating a POST whose
// connection was closed without an answer. That retry is also the only way fasthttp has to get
// over a kept-alive connection that the server has closed while it was idle (fasthttp does not
// watch its idle connections, it finds out when it writes the next request): the second call
// after a pause longer than the server's idle time-out now fails, although the server is up
// and has never seen the request. At 591b425 the call was sent again on a new connection.
func TestZZReviewFasthttpCallAfterIdleClose(t *testing.T) {
	service := core.NewService()
	var runs int32
	service.AddFunction(func(s string) string {
		atomic.AddInt32(&runs, 1)
		return s
	}, "echo")
	server := &fasthttp.Server{IdleTimeout: 100 * time.Millisecond}
	if err := service.Bind(server); err != nil {
		t.Fatal(err)
	}
	go server.ListenAndServe("127.0.0.1:18001")
	defer server.Shutdown()
	time.Sleep(20 * time.Millisecond)

	client := core.NewClient("http://127.0.0.1:18001/")
	client.Timeout = 5 * time.Second
	var proxy struct {
		Echo func(s string) (string, error)
	}
	client.UseService(&proxy)
	if s, err := proxy.Echo("one"); err != nil || s != "one" {
		t.Fatalf("first call: %q %v", s, err)
	}
	time.Sleep(500 * time.Millisecond) // the server closes the idle connection meanwhile
	s, err := proxy.Echo("two")
	if err != nil || s != "two" {
		t.Errorf("VIOLATION: the call after an idle pause failed: %q, %v (the function ran %d times in all; the server is up and never saw this request)", s, err, atomic.LoadInt32(&runs))
	}
}
