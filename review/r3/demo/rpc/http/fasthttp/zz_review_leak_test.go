package fasthttp_test

import (
	"context"
	"net"
	"runtime"
	"sync"
	"testing"
	"time"

	"github.com/hprose/hprose-golang/v3/rpc/core"
)

// 07f33fa lets a call return when its context ends, and leaves the exchange "to finish on its
// own". Against a server that stays silent (the very case in which calls are cancelled or
// aborted) it never finishes: every abandoned call leaves two goroutines (the one that runs
// fasthttp's Do and the one that waits for it to give the request and response back), the
// pooled request/response and an open connection behind, for as long as the server is silent.
func TestZZReviewFasthttpAbandonedExchangesStay(t *testing.T) {
	ln, err := net.Listen("tcp", "127.0.0.1:18002")
	if err != nil {
		t.Fatal(err)
	}
	defer ln.Close()
	var held sync.Map
	go func() { // a server that accepts, reads and never answers
		for {
			c, err := ln.Accept()
			if err != nil {
				return
			}
			held.Store(c, true)
		}
	}()
	client := core.NewClient("http://127.0.0.1:18002/")
	client.Timeout = 0 // no time-out: the case the commit names ("for ever without a timeout")
	before := runtime.NumGoroutine()
	const calls = 20
	for i := 0; i < calls; i++ {
		ctx, cancel := context.WithCancel(context.Background())
		time.AfterFunc(20*time.Millisecond, cancel)
		start := time.Now()
		_, err := client.InvokeContext(ctx, "echo", []interface{}{"x"})
		if err == nil || time.Since(start) > time.Second {
			t.Fatalf("the cancelled call: %v after %v", err, time.Since(start))
		}
	}
	client.Abort()
	time.Sleep(2 * time.Second)
	after := runtime.NumGoroutine()
	n := 0
	held.Range(func(k, _ interface{}) bool { n++; return true })
	if after > before+5 {
		t.Errorf("VIOLATION: %d cancelled calls, all returned, Abort called: 2s later %d goroutines more than before (%d -> %d) and %d connections still open", calls, after-before, before, after, n)
	}
	held.Range(func(k, _ interface{}) bool { k.(net.Conn).Close(); return true })
}
