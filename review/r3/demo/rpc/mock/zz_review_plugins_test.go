package mock_test

import (
	"context"
	"sync"
	"sync/atomic"
	"testing"
	"time"

	"github.com/hprose/hprose-golang/v3/rpc/core"
	. "github.com/hprose/hprose-golang/v3/rpc/mock"
)

type zzCounter struct {
	hits int32
}

func (c *zzCounter) Invoke(ctx context.Context, name string, args []interface{}, next core.NextInvokeHandler) ([]interface{}, error) {
	atomic.AddInt32(&c.hits, 1)
	return next(ctx, name, args)
}

func zzEchoService(t *testing.T, address string) (*core.Service, Server) {
	service := core.NewService()
	service.AddFunction(func(s string) string { return s }, "echo")
	server := Server{Address: address}
	if err := service.Bind(server); err != nil {
		t.Fatal(err)
	}
	return service, server
}

// e5912a8 tells the closures of one function literal apart, but leaves method values to be
// compared by their code alone: Unuse(a.Invoke) also removes b.Invoke, the handler of another
// object, and Unuse of the method value of an object that was never installed removes them all.
func TestZZReviewUnuseMethodValueOfOtherReceiver(t *testing.T) {
	_, server := zzEchoService(t, "zzReviewUnuseMethodValue")
	defer server.Close()
	client := core.NewClient("mock://zzReviewUnuseMethodValue")
	a, b, never := &zzCounter{}, &zzCounter{}, &zzCounter{}
	client.Use(a.Invoke, b.Invoke)
	if _, err := client.Invoke("echo", []interface{}{"x"}); err != nil {
		t.Fatal(err)
	}
	if a.hits != 1 || b.hits != 1 {
		t.Fatalf("setup: a=%d b=%d", a.hits, b.hits)
	}
	client.Unuse(never.Invoke)
	if _, err := client.Invoke("echo", []interface{}{"x"}); err != nil {
		t.Fatal(err)
	}
	if a.hits != 2 || b.hits != 2 {
		t.Errorf("VIOLATION: Unuse(never.Invoke), the method value of an object that was never installed, removed installed handlers: after the second call a.hits=%d b.hits=%d, want 2 and 2", a.hits, b.hits)
	}
	client.Unuse(a.Invoke, b.Invoke)
	a.hits, b.hits = 0, 0
	client.Use(a.Invoke, b.Invoke)
	client.Unuse(a.Invoke)
	if _, err := client.Invoke("echo", []interface{}{"x"}); err != nil {
		t.Fatal(err)
	}
	if a.hits != 0 || b.hits != 1 {
		t.Errorf("VIOLATION: Unuse(a.Invoke) with a.Invoke and b.Invoke installed: a.hits=%d (want 0) b.hits=%d (want 1: b's handler was not named)", a.hits, b.hits)
	}
}

// an invoke plugin object of a type that can not be compared (a struct with a slice)
type zzSlicePlugin struct {
	names []string
	hits  *int32
}

func (p zzSlicePlugin) Handler(ctx context.Context, name string, args []interface{}, next core.NextInvokeHandler) ([]interface{}, error) {
	atomic.AddInt32(p.hits, 1)
	return next(ctx, name, args)
}

// 276a936 finds plugin objects by ==; for a plugin object of a type that can not be compared
// the comparison panics, samePluginObject swallows that and reports "different": such a plugin,
// once installed, can never be removed, and Unuse says nothing.
func TestZZReviewUnuseUncomparablePluginObject(t *testing.T) {
	_, server := zzEchoService(t, "zzReviewUnuseUncomparable")
	defer server.Close()
	client := core.NewClient("mock://zzReviewUnuseUncomparable")
	var hits int32
	p := zzSlicePlugin{names: []string{"echo"}, hits: &hits}
	client.Use(p)
	if _, err := client.Invoke("echo", []interface{}{"x"}); err != nil || hits != 1 {
		t.Fatalf("setup: %v hits=%d", err, hits)
	}
	client.Unuse(p)
	if _, err := client.Invoke("echo", []interface{}{"x"}); err != nil {
		t.Fatal(err)
	}
	if hits != 1 {
		t.Errorf("VIOLATION: client.Unuse(p) of the installed plugin object p (a struct value with a slice field) removed nothing: the handler ran again (hits=%d)", hits)
	}
}

// Use and Unuse from inside a call (a plugin that installs or removes handlers when it sees
// a certain call) must not deadlock against the locks taken when a call begins.
func TestZZReviewUseFromInsideACall(t *testing.T) {
	service, server := zzEchoService(t, "zzReviewUseInside")
	defer server.Close()
	client := core.NewClient("mock://zzReviewUseInside")
	extra := &zzCounter{}
	type nestedKey struct{}
	var inner core.InvokeHandler = func(ctx context.Context, name string, args []interface{}, next core.NextInvokeHandler) ([]interface{}, error) {
		if ctx.Value(nestedKey{}) == nil {
			client.Use(extra.Invoke)
			client.Unuse(extra.Invoke)
			if _, err := client.InvokeContext(context.WithValue(context.Background(), nestedKey{}, true), "echo", []interface{}{"nested"}); err != nil {
				return nil, err
			}
		}
		return next(ctx, name, args)
	}
	client.Use(inner)
	var sinner core.InvokeHandler = func(ctx context.Context, name string, args []interface{}, next core.NextInvokeHandler) ([]interface{}, error) {
		service.Use(extra.Invoke)
		service.Unuse(extra.Invoke)
		return next(ctx, name, args)
	}
	service.Use(sinner)
	done := make(chan error, 1)
	go func() {
		var wg sync.WaitGroup
		var first atomic.Value
		for i := 0; i < 8; i++ {
			wg.Add(1)
			go func() {
				defer wg.Done()
				for j := 0; j < 50; j++ {
					if _, err := client.Invoke("echo", []interface{}{"x"}); err != nil {
						first.Store(err)
					}
					client.Use(inner)
					client.Unuse(inner)
				}
			}()
		}
		wg.Wait()
		err, _ := first.Load().(error)
		done <- err
	}()
	select {
	case err := <-done:
		if err != nil {
			t.Errorf("VIOLATION: %v", err)
		}
	case <-time.After(20 * time.Second):
		t.Errorf("VIOLATION: deadlock: calls whose handlers call Use/Unuse/Invoke did not finish in 20s")
	}
}

// go test -race: Use and Unuse on the client and on the service while calls run.
func TestZZReviewUseUnuseWhileCallsRun(t *testing.T) {
	service, server := zzEchoService(t, "zzReviewUseRace")
	defer server.Close()
	client := core.NewClient("mock://zzReviewUseRace")
	var proxy struct {
		Echo func(s string) (string, error)
	}
	client.UseService(&proxy)
	stop := make(chan struct{})
	var wg sync.WaitGroup
	var failures int32
	for i := 0; i < 8; i++ {
		wg.Add(1)
		go func() {
			defer wg.Done()
			for {
				select {
				case <-stop:
					return
				default:
				}
				if s, err := proxy.Echo("x"); err != nil || s != "x" {
					atomic.AddInt32(&failures, 1)
				}
			}
		}()
	}
	for i := 0; i < 4; i++ {
		wg.Add(1)
		go func() {
			defer wg.Done()
			c := &zzCounter{}
			p := &zzTwoSided{}
			for {
				select {
				case <-stop:
					return
				default:
				}
				client.Use(c.Invoke, p)
				service.Use(c.Invoke, p)
				client.Unuse(p, c.Invoke)
				service.Unuse(p, c.Invoke)
			}
		}()
	}
	time.Sleep(1500 * time.Millisecond)
	close(stop)
	wg.Wait()
	if failures > 0 {
		t.Errorf("VIOLATION: %d calls failed while handlers were installed and removed", failures)
	}
}

// zzTwoSided is a plugin with an invoke half and an IO half; each call must pass through both
// halves or through none (e11ee95).
type zzTwoSided struct {
	halfOnly int32
}

func (p *zzTwoSided) InvokeHandler(ctx context.Context, name string, args []interface{}, next core.NextInvokeHandler) ([]interface{}, error) {
	if c, ok := core.FromContext(ctx); ok {
		c.Items().Set("zzTwoSided", true)
	}
	return next(ctx, name, args)
}

func (p *zzTwoSided) IOHandler(ctx context.Context, request []byte, next core.NextIOHandler) ([]byte, error) {
	return next(ctx, request)
}

// 954f5b9 tells panic(nil) from a normal return in Service.Process (the invoke chain) with a
// flag; 8218853 put the IO chain and the decoding of the request under a recover in
// Service.handle WITHOUT such a flag. This module says "go 1.13", so recover() returns nil
// for panic(nil): an IO plugin of the service that ends in panic(nil) is taken for a normal
// return with an empty response, and the caller is told that its call succeeded with a nil
// result although the function never ran.
func TestZZReviewPanicNilInServiceIOPlugin(t *testing.T) {
	service, server := zzEchoService(t, "zzReviewPanicNilIO")
	defer server.Close()
	var ran int32
	service.AddFunction(func() string { atomic.AddInt32(&ran, 1); return "ran" }, "run")
	var ioh core.IOHandler = func(ctx context.Context, request []byte, next core.NextIOHandler) ([]byte, error) {
		var p interface{}
		panic(p)
	}
	service.Use(ioh)
	client := core.NewClient("mock://zzReviewPanicNilIO")
	var proxy struct {
		Run func() (string, error)
	}
	client.UseService(&proxy)
	s, err := proxy.Run()
	if err == nil {
		t.Errorf("VIOLATION: an IO plugin of the service panicked with nil, the function ran %d times, and the caller got (%q, nil): a success", atomic.LoadInt32(&ran), s)
	}
}
