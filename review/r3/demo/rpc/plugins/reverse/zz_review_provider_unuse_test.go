package reverse

import (
	"context"
	"sync/atomic"
	"testing"

	"github.com/hprose/hprose-golang/v3/rpc/core"
)

type zzInvokePlugin struct {
	hits int32
}

func (p *zzInvokePlugin) Handler(ctx context.Context, name string, args []interface{}, next core.NextInvokeHandler) ([]interface{}, error) {
	atomic.AddInt32(&p.hits, 1)
	return next(ctx, name, args)
}

type zzOtherInvokePlugin struct {
	hits int32
}

func (p *zzOtherInvokePlugin) Handler(ctx context.Context, name string, args []interface{}, next core.NextInvokeHandler) ([]interface{}, error) {
	atomic.AddInt32(&p.hits, 1)
	return next(ctx, name, args)
}

// 276a936 made Client.Unuse and Service.Unuse find a plugin object by the object. The exported
// pair core.SeparatePluginHandlers + PluginManager.Use/Unuse still knows nothing of objects,
// and reverse.Provider.Use/Unuse is built on it: Provider.Unuse of one plugin object (or of one
// that was never installed) still removes every installed plugin object, of whatever type.
func TestZZReviewProviderUnuseRemovesEveryPluginObject(t *testing.T) {
	p := NewProvider(core.NewClient("mock://zzReviewProviderUnuse"), "zz")
	p.AddFunction(func(s string) string { return s }, "echo")
	a, b, never := &zzInvokePlugin{}, &zzOtherInvokePlugin{}, &zzInvokePlugin{}
	p.Use(a, b)
	if rv := p.process(newCall(1, "echo", []interface{}{"x"})); rv[2] != "" || a.hits != 1 || b.hits != 1 {
		t.Fatalf("setup: %v a=%d b=%d", rv, a.hits, b.hits)
	}
	p.Unuse(never)
	p.process(newCall(2, "echo", []interface{}{"x"}))
	if a.hits != 2 || b.hits != 2 {
		t.Errorf("VIOLATION: Provider.Unuse(never), a plugin object that was never installed, removed installed plugin objects: a.hits=%d b.hits=%d after the second call, want 2 and 2", a.hits, b.hits)
	}
	p.Unuse(a, b)
	a.hits, b.hits = 0, 0
	p.Use(a, b)
	p.Unuse(a)
	p.process(newCall(3, "echo", []interface{}{"x"}))
	if a.hits != 0 || b.hits != 1 {
		t.Errorf("VIOLATION: Provider.Unuse(a) with a and b installed: a.hits=%d (want 0) b.hits=%d (want 1: b is another object, of another type)", a.hits, b.hits)
	}
}
