package socket_test

import (
	"net"
	"sync"
	"sync/atomic"
	"testing"
	"time"

	"github.com/hprose/hprose-golang/v3/rpc/core"
	socket "github.com/hprose/hprose-golang/v3/rpc/socket"
)

// 599e139 moved the dial out of the pool lock, but without a placeholder for the dial in
// progress: every call that finds no connection dials one of its own. The first burst of N
// concurrent calls of a client opens N connections (N OnConnect callbacks, N accepted
// connections on the server); the snapshot opened exactly one.
func TestZZReviewSocketDialHerd(t *testing.T) {
	service := core.NewService()
	service.AddFunction(func(s string) string { return s }, "echo")
	var accepted, connected int32
	service.GetHandler("socket").(*socket.Handler).OnAccept = func(c net.Conn) net.Conn {
		atomic.AddInt32(&accepted, 1)
		return c
	}
	server, err := net.Listen("tcp", "127.0.0.1:18413")
	if err != nil {
		t.Fatal(err)
	}
	defer server.Close()
	if err = service.Bind(server); err != nil {
		t.Fatal(err)
	}
	time.Sleep(5 * time.Millisecond)

	client := core.NewClient("tcp://127.0.0.1:18413/")
	client.GetTransport("socket").(*socket.Transport).OnConnect = func(c net.Conn) net.Conn {
		atomic.AddInt32(&connected, 1)
		time.Sleep(5 * time.Millisecond) // what a TLS handshake in OnConnect costs
		return c
	}
	var proxy struct {
		Echo func(s string) (string, error)
	}
	client.UseService(&proxy)
	const n = 64
	var wg sync.WaitGroup
	start := make(chan struct{})
	for i := 0; i < n; i++ {
		wg.Add(1)
		go func() {
			defer wg.Done()
			<-start
			if s, err := proxy.Echo("x"); err != nil || s != "x" {
				t.Errorf("echo: %q %v", s, err)
			}
		}()
	}
	close(start)
	wg.Wait()
	time.Sleep(50 * time.Millisecond)
	if c, a := atomic.LoadInt32(&connected), atomic.LoadInt32(&accepted); c > 1 || a > 1 {
		t.Errorf("VIOLATION: %d concurrent first calls of one client to one server dialed %d connections (OnConnect) and the server accepted %d; one connection serves them all (and did at 591b425)", n, c, a)
	}
}
