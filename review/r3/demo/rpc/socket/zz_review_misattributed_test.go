package socket_test

import (
	"context"
	"net"
	"strings"
	"testing"
	"time"

	"github.com/hprose/hprose-golang/v3/rpc/core"
	socket "github.com/hprose/hprose-golang/v3/rpc/socket"
)

// zzSlowReadConn delivers what the server sends a little late (a slow network).
type zzSlowReadConn struct {
	net.Conn
	delay time.Duration
}

func (c zzSlowReadConn) Read(b []byte) (int, error) {
	n, err := c.Conn.Read(b)
	time.Sleep(c.delay)
	return n, err
}

// 05564fa: "an error frame fails the call it names, not every call pending on the client
// connection". When the named call is no longer pending (its caller has given up: time-out,
// cancellation) the old behaviour is still there: the text of that call's error frame is
// handed to every other call pending on the connection.
func TestZZReviewSocketErrorFrameOfAGoneCall(t *testing.T) {
	service := core.NewService()
	service.MaxRequestLength = 64
	service.AddFunction(func(d time.Duration) string {
		time.Sleep(d)
		return "done"
	}, "wait")
	service.AddFunction(func(s string) int { return len(s) }, "size")
	server, err := net.Listen("tcp", "127.0.0.1:18415")
	if err != nil {
		t.Fatal(err)
	}
	defer server.Close()
	if err = service.Bind(server); err != nil {
		t.Fatal(err)
	}
	time.Sleep(5 * time.Millisecond)

	client := core.NewClient("tcp://127.0.0.1:18415/")
	client.Timeout = 5 * time.Second
	client.GetTransport("socket").(*socket.Transport).OnConnect = func(c net.Conn) net.Conn {
		return zzSlowReadConn{c, 100 * time.Millisecond}
	}
	var proxy struct {
		Wait func(d time.Duration) (string, error)
		Size func(ctx context.Context, s string) (int, error)
	}
	client.UseService(&proxy)
	waitErr := make(chan error, 1)
	go func() {
		_, err := proxy.Wait(time.Second)
		waitErr <- err
	}()
	time.Sleep(50 * time.Millisecond) // the small, valid call is on its way
	ctx, cancel := context.WithTimeout(context.Background(), 20*time.Millisecond)
	defer cancel()
	_, err = proxy.Size(ctx, strings.Repeat("x", 1000)) // refused by the server, but its caller gives up first
	if err == nil || err == core.ErrRequestEntityTooLarge {
		t.Fatalf("setup: the oversized call was expected to time out before its refusal arrives: %v", err)
	}
	select {
	case err := <-waitErr:
		if err == core.ErrRequestEntityTooLarge {
			t.Errorf("VIOLATION: the small pending call wait(1s) failed with the error frame of another call that was no longer pending: %v", err)
		} else {
			t.Logf("wait: %v", err)
		}
	case <-time.After(4 * time.Second):
		t.Errorf("VIOLATION: the pending call did not return")
	}
}
