package socket_test

import (
	"net"
	"runtime"
	"strings"
	"testing"
	"time"

	"github.com/hprose/hprose-golang/v3/rpc/core"
)

// A call that the server refuses with an error frame (here: too large) fails, and the commit
// b4b2569/6d6c3b0 says "the connection leaves the pool now, so that the next call does not go
// into it". The error is handed to the caller BEFORE the connection is taken out of the pool,
// so a caller that issues its next (perfectly valid) call right away can still be given the
// retired connection and fails with errRefusedConnection / ErrClosed / EOF.
func TestZZReviewSocketNextCallAfterRefusal(t *testing.T) {
	if runtime.GOMAXPROCS(0) < 4 {
		defer runtime.GOMAXPROCS(runtime.GOMAXPROCS(8)) // the window needs the caller and the receive loop on different processors
	}
	service := core.NewService()
	service.MaxRequestLength = 64
	service.AddFunction(func(s string) int { return len(s) }, "size")
	server, err := net.Listen("tcp", "127.0.0.1:18412")
	if err != nil {
		t.Fatal(err)
	}
	defer server.Close()
	if err = service.Bind(server); err != nil {
		t.Fatal(err)
	}
	time.Sleep(5 * time.Millisecond)

	client := core.NewClient("tcp://127.0.0.1:18412/")
	client.Timeout = 5 * time.Second
	var proxy struct {
		Size func(s string) (int, error)
	}
	client.UseService(&proxy)
	big := strings.Repeat("x", 1000)
	bad := 0
	var firstErr error
	const rounds = 60000
	for i := 0; i < rounds; i++ {
		if _, err := proxy.Size(big); err == nil {
			t.Fatalf("round %d: the oversized call succeeded", i)
		}
		// the valid call that follows the refused one
		if n, err := proxy.Size("abc"); err != nil || n != 3 {
			bad++
			if firstErr == nil {
				firstErr = err
			}
			if bad >= 3 {
				break
			}
		}
	}
	if bad > 0 {
		t.Errorf("VIOLATION: %d of %d valid calls issued right after a refused call failed, first error: %v", bad, rounds, firstErr)
	}
}
