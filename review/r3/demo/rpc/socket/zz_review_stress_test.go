package socket_test

import (
	"net"
	"runtime"
	"strings"
	"sync"
	"sync/atomic"
	"testing"
	"time"

	"github.com/hprose/hprose-golang/v3/rpc/core"
	socket "github.com/hprose/hprose-golang/v3/rpc/socket"
)

// stress: concurrent calls (some refused as too large), Abort now and then, the server cutting
// connections now and then. No call may outlive its time-out by much, no goroutine may stay.
func TestZZReviewSocketStress(t *testing.T) {
	before := runtime.NumGoroutine()
	service := core.NewService()
	service.MaxRequestLength = 4096
	service.AddFunction(func(s string) string { return s }, "echo")
	var conns sync.Map
	h := service.GetHandler("socket").(*socket.Handler)
	h.OnAccept = func(c net.Conn) net.Conn { conns.Store(c, true); return c }
	h.OnClose = func(c net.Conn) { conns.Delete(c) }
	server, err := net.Listen("tcp", "127.0.0.1:18414")
	if err != nil {
		t.Fatal(err)
	}
	if err = service.Bind(server); err != nil {
		t.Fatal(err)
	}
	time.Sleep(5 * time.Millisecond)
	client := core.NewClient("tcp://127.0.0.1:18414/")
	client.Timeout = 2 * time.Second
	var proxy struct {
		Echo func(s string) (string, error)
	}
	client.UseService(&proxy)
	big := strings.Repeat("x", 10000)
	stop := make(chan struct{})
	var wg sync.WaitGroup
	var slow, wrong, ok, failed int32
	for i := 0; i < 16; i++ {
		wg.Add(1)
		go func(i int) {
			defer wg.Done()
			for n := 0; ; n++ {
				select {
				case <-stop:
					return
				default:
				}
				arg := "abc"
				if i == 0 && n%50 == 0 {
					arg = big
				}
				start := time.Now()
				s, err := proxy.Echo(arg)
				if d := time.Since(start); d > 4*time.Second {
					atomic.AddInt32(&slow, 1)
				}
				if err == nil {
					if s != arg {
						atomic.AddInt32(&wrong, 1)
					}
					atomic.AddInt32(&ok, 1)
				} else {
					atomic.AddInt32(&failed, 1)
				}
			}
		}(i)
	}
	wg.Add(1)
	go func() {
		defer wg.Done()
		for n := 0; ; n++ {
			select {
			case <-stop:
				return
			case <-time.After(7 * time.Millisecond):
			}
			if n%2 == 0 {
				client.Abort()
			} else {
				conns.Range(func(k, _ interface{}) bool { k.(net.Conn).Close(); return true })
			}
		}
	}()
	time.Sleep(3 * time.Second)
	close(stop)
	done := make(chan struct{})
	go func() { wg.Wait(); close(done) }()
	select {
	case <-done:
	case <-time.After(10 * time.Second):
		buf := make([]byte, 1<<20)
		t.Fatalf("VIOLATION: calls did not return 10s after the stress ended\n%s", buf[:runtime.Stack(buf, true)])
	}
	t.Logf("ok=%d failed=%d", ok, failed)
	if slow > 0 || wrong > 0 {
		t.Errorf("VIOLATION: %d calls outlived their time-out, %d wrong results", slow, wrong)
	}
	client.Abort()
	server.Close()
	conns.Range(func(k, _ interface{}) bool { k.(net.Conn).Close(); return true })
	var after int
	for i := 0; i < 50; i++ {
		time.Sleep(100 * time.Millisecond)
		if after = runtime.NumGoroutine(); after <= before+3 {
			break
		}
	}
	if after > before+3 {
		buf := make([]byte, 1<<20)
		t.Errorf("VIOLATION: goroutines before=%d after=%d\n%s", before, after, buf[:runtime.Stack(buf, true)])
	}
}
