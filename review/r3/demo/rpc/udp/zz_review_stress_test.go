package udp_test

import (
	"net"
	"runtime"
	"strings"
	"sync"
	"sync/atomic"
	"testing"
	"time"

	"github.com/hprose/hprose-golang/v3/rpc/core"
)

func TestZZReviewUDPStress(t *testing.T) {
	before := runtime.NumGoroutine()
	service := core.NewService()
	service.MaxRequestLength = 4096
	service.AddFunction(func(s string) string { return s }, "echo")
	service.AddFunction(func(n int) string { return strings.Repeat("y", n) }, "blow")
	service.AddFunction(func(d time.Duration) string { time.Sleep(d); return "slept" }, "sleep")
	addr, _ := net.ResolveUDPAddr("udp", "127.0.0.1:18416")
	server, err := net.ListenUDP("udp", addr)
	if err != nil {
		t.Fatal(err)
	}
	if err = service.Bind(server); err != nil {
		t.Fatal(err)
	}
	time.Sleep(5 * time.Millisecond)
	client := core.NewClient("udp://127.0.0.1:18416/")
	client.Timeout = 2 * time.Second
	var proxy struct {
		Echo  func(s string) (string, error)
		Blow  func(n int) (string, error)
		Sleep func(d time.Duration) (string, error)
	}
	client.UseService(&proxy)
	big := strings.Repeat("x", 10000)
	stop := make(chan struct{})
	var wg sync.WaitGroup
	var slow, wrong, ok, failed, abort int32
	// a call that stays pending while the 15-bit identifiers go round
	sleepRes := make(chan string, 1)
	go func() {
		s, err := proxy.Sleep(1500 * time.Millisecond)
		if err != nil {
			s = err.Error()
		}
		sleepRes <- s
	}()
	for i := 0; i < 16; i++ {
		wg.Add(1)
		go func(i int) {
			defer wg.Done()
			for n := 0; ; n++ {
				select {
				case <-stop:
					return
				default:
				}
				arg := "abc"
				if i == 0 && n%50 == 0 {
					arg = big
				}
				start := time.Now()
				var s string
				var err error
				if i == 1 && n%50 == 0 {
					s, err = proxy.Blow(70000)
					if err == nil {
						atomic.AddInt32(&wrong, 1)
					}
					arg = s
				} else {
					s, err = proxy.Echo(arg)
				}
				if d := time.Since(start); d > 4*time.Second {
					atomic.AddInt32(&slow, 1)
				}
				if err == nil {
					if s != arg {
						atomic.AddInt32(&wrong, 1)
					}
					atomic.AddInt32(&ok, 1)
				} else {
					atomic.AddInt32(&failed, 1)
				}
			}
		}(i)
	}
	wg.Add(1)
	go func() {
		defer wg.Done()
		<-time.After(2 * time.Second) // after the sleeping call is answered
		for n := 0; ; n++ {
			select {
			case <-stop:
				return
			case <-time.After(7 * time.Millisecond):
			}
			atomic.AddInt32(&abort, 1)
			client.Abort()
		}
	}()
	time.Sleep(3 * time.Second)
	close(stop)
	done := make(chan struct{})
	go func() { wg.Wait(); close(done) }()
	select {
	case <-done:
	case <-time.After(10 * time.Second):
		buf := make([]byte, 1<<20)
		t.Fatalf("VIOLATION: calls did not return 10s after the stress ended\n%s", buf[:runtime.Stack(buf, true)])
	}
	t.Logf("ok=%d failed=%d aborts=%d", ok, failed, abort)
	if s := <-sleepRes; s != "slept" {
		t.Errorf("VIOLATION: the call that was pending while %d other calls went by got %q", ok+failed, s)
	}
	if slow > 0 || wrong > 0 {
		t.Errorf("VIOLATION: %d calls outlived their time-out, %d wrong results", slow, wrong)
	}
	client.Abort()
	server.Close()
	var after int
	for i := 0; i < 50; i++ {
		time.Sleep(100 * time.Millisecond)
		if after = runtime.NumGoroutine(); after <= before+3 {
			break
		}
	}
	if after > before+3 {
		buf := make([]byte, 1<<20)
		t.Errorf("VIOLATION: goroutines before=%d after=%d\n%s", before, after, buf[:runtime.Stack(buf, true)])
	}
}
