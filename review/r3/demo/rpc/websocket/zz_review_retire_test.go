package websocket_test

import (
	"net/http"
	"runtime"
	"strings"
	"testing"
	"time"

	"github.com/hprose/hprose-golang/v3/rpc/core"
)

// the websocket twin of TestZZReviewSocketNextCallAfterRefusal (rpc/socket): the error of a
// refused call reaches its caller before the connection has left the pool.
func TestZZReviewWebsocketNextCallAfterRefusal(t *testing.T) {
	if runtime.GOMAXPROCS(0) < 4 {
		defer runtime.GOMAXPROCS(runtime.GOMAXPROCS(8))
	}
	service := core.NewService()
	service.MaxRequestLength = 64
	service.AddFunction(func(s string) int { return len(s) }, "size")
	server := &http.Server{Addr: "127.0.0.1:18004"}
	if err := service.Bind(server); err != nil {
		t.Fatal(err)
	}
	go server.ListenAndServe()
	defer server.Close()
	time.Sleep(20 * time.Millisecond)

	client := core.NewClient("ws://127.0.0.1:18004/")
	client.Timeout = 5 * time.Second
	var proxy struct {
		Size func(s string) (int, error)
	}
	client.UseService(&proxy)
	big := strings.Repeat("x", 1000)
	bad := 0
	var firstErr error
	const rounds = 40000
	for i := 0; i < rounds; i++ {
		if _, err := proxy.Size(big); err == nil {
			t.Fatalf("round %d: the oversized call succeeded", i)
		}
		if n, err := proxy.Size("abc"); err != nil || n != 3 {
			bad++
			if firstErr == nil {
				firstErr = err
			}
			if bad >= 3 {
				break
			}
		}
	}
	if bad > 0 {
		t.Errorf("VIOLATION: %d valid calls issued right after a refused call failed (within %d rounds), first error: %v", bad, rounds, firstErr)
	}
}
