package circuitbreaker_test

import (
	"context"
	"errors"
	"sync"
	"sync/atomic"
	"testing"
	"time"

	"github.com/hprose/hprose-golang/v3/rpc/plugins/circuitbreaker"
)

func TestZZReviewBreaker(t *testing.T) {
	cb := circuitbreaker.New(circuitbreaker.WithThreshold(3), circuitbreaker.WithRecoverTime(400*time.Millisecond))
	var forwarded int64
	var failing int32 = 1
	next := func(ctx context.Context, request []byte) ([]byte, error) {
		atomic.AddInt64(&forwarded, 1)
		if atomic.LoadInt32(&failing) == 1 {
			if atomic.LoadInt64(&forwarded)%2 == 0 {
				panic(nil)
			}
			return nil, errors.New("down")
		}
		return []byte("ok"), nil
	}
	for i := 0; i < 4; i++ {
		cb.IOHandler(context.Background(), nil, next)
	}
	if _, err := cb.IOHandler(context.Background(), nil, next); err != circuitbreaker.ErrBreaker {
		t.Fatalf("VIOLATION: breaker not open after 4 failures: %v", err)
	}
	before := atomic.LoadInt64(&forwarded)
	var wg sync.WaitGroup
	end := time.Now().Add(250 * time.Millisecond)
	for g := 0; g < 8; g++ {
		wg.Add(1)
		go func() {
			defer wg.Done()
			for time.Now().Before(end) {
				cb.IOHandler(context.Background(), nil, next)
			}
		}()
	}
	wg.Wait()
	if n := atomic.LoadInt64(&forwarded) - before; n != 0 {
		t.Errorf("VIOLATION: %d calls forwarded while the breaker was open", n)
	}
	time.Sleep(500 * time.Millisecond)
	atomic.StoreInt32(&failing, 0)
	if r, err := cb.IOHandler(context.Background(), nil, next); err != nil || string(r) != "ok" {
		t.Errorf("VIOLATION: after the recovery time: %q %v", r, err)
	}
}
