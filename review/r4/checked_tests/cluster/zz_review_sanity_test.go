package cluster_test

import (
	"context"
	"errors"
	"testing"
	"time"

	"github.com/hprose/hprose-golang/v3/rpc/core"
	"github.com/hprose/hprose-golang/v3/rpc/plugins/cluster"
)

func zzCall(client *core.Client, h func(ctx context.Context, request []byte, next core.NextIOHandler) ([]byte, error), next core.NextIOHandler) ([]byte, error) {
	cc := core.NewClientContext()
	cc.Init(client)
	ctx := core.WithContext(context.Background(), cc)
	return h(ctx, []byte("x"), next)
}

func TestZZReviewClusterBudgets(t *testing.T) {
	client := core.NewClient("mock://a", "mock://b", "mock://c")
	// user OnRetry that does not count
	attempts := 0
	c := cluster.New(cluster.Config{Retry: 3, Idempotent: true, OnRetry: func(context.Context) time.Duration { return 0 }})
	_, err := zzCall(client, c.Handler, func(ctx context.Context, request []byte) ([]byte, error) {
		attempts++
		return nil, errors.New("down")
	})
	if attempts != 4 || err == nil {
		t.Errorf("VIOLATION: user OnRetry: %d attempts (want 4), err %v", attempts, err)
	}
	// user OnRetry that counts by itself
	attempts = 0
	c = cluster.New(cluster.Config{Retry: 3, Idempotent: true, OnRetry: func(ctx context.Context) time.Duration {
		items := core.GetClientContext(ctx).Items()
		items.Set("retried", items.GetInt("retried")+1)
		return 0
	}})
	zzCall(client, c.Handler, func(ctx context.Context, request []byte) ([]byte, error) {
		attempts++
		return nil, errors.New("down")
	})
	if attempts != 4 {
		t.Errorf("VIOLATION: counting OnRetry: %d attempts (want 4)", attempts)
	}
	// failover: never the same server twice in a row, budget respected, panic and panic(nil) are failures
	attempts = 0
	var hosts []string
	c = cluster.New(cluster.FailoverConfig(cluster.WithRetry(5), cluster.WithIdempotent(true), cluster.WithMinInterval(time.Microsecond)))
	_, err = zzCall(client, c.Handler, func(ctx context.Context, request []byte) ([]byte, error) {
		attempts++
		hosts = append(hosts, core.GetClientContext(ctx).URL.Host)
		switch attempts % 3 {
		case 0:
			panic(nil)
		case 1:
			panic("x")
		}
		return nil, errors.New("down")
	})
	if attempts != 6 || err == nil {
		t.Errorf("VIOLATION: failover: %d attempts (want 6), err %v", attempts, err)
	}
	for i := 1; i < len(hosts); i++ {
		if hosts[i] == hosts[i-1] {
			t.Errorf("VIOLATION: failover retried on the server that had just failed: %v", hosts)
		}
	}
	// success after failures
	attempts = 0
	r, err := zzCall(client, c.Handler, func(ctx context.Context, request []byte) ([]byte, error) {
		attempts++
		if attempts < 3 {
			return nil, errors.New("down")
		}
		return []byte("ok"), nil
	})
	if string(r) != "ok" || err != nil || attempts != 3 {
		t.Errorf("VIOLATION: %q %v %d", r, err, attempts)
	}
	// forking: all forks panic(nil) / error
	done := make(chan error, 1)
	go func() {
		_, err := zzCall(client, cluster.Forking, func(ctx context.Context, request []byte) ([]byte, error) {
			switch core.GetClientContext(ctx).URL.Host {
			case "a":
				panic(nil)
			case "b":
				panic("b")
			}
			return nil, errors.New("c down")
		})
		done <- err
	}()
	select {
	case err := <-done:
		if err == nil {
			t.Errorf("VIOLATION: forking with all forks failed returned success")
		}
	case <-time.After(5 * time.Second):
		t.Errorf("VIOLATION: forking never returned")
	}
}
