package limiter_test

import (
	"context"
	"math/rand"
	"sync"
	"sync/atomic"
	"testing"
	"time"

	"github.com/hprose/hprose-golang/v3/rpc/plugins/limiter"
)

func TestZZReviewConcurrentLimiterPermits(t *testing.T) {
	for _, timeout := range []time.Duration{0, 300 * time.Microsecond} {
		l := limiter.NewConcurrentLimiter(3, timeout)
		var inflight, maxInflight, served, refused int64
		var wg sync.WaitGroup
		for g := 0; g < 32; g++ {
			wg.Add(1)
			go func(g int) {
				defer wg.Done()
				rnd := rand.New(rand.NewSource(int64(g)))
				for i := 0; i < 2000; i++ {
					ctx, cancel := context.WithTimeout(context.Background(), time.Duration(rnd.Intn(300))*time.Microsecond)
					_, err := l.Handler(ctx, nil, func(ctx context.Context, request []byte) ([]byte, error) {
						n := atomic.AddInt64(&inflight, 1)
						for {
							m := atomic.LoadInt64(&maxInflight)
							if n <= m || atomic.CompareAndSwapInt64(&maxInflight, m, n) {
								break
							}
						}
						time.Sleep(time.Duration(rnd.Intn(100)) * time.Microsecond)
						atomic.AddInt64(&inflight, -1)
						if false {
							panic("boom")
						}
						return nil, nil
					})
					_ = err
					if err != nil {
						atomic.AddInt64(&refused, 1)
					} else {
						atomic.AddInt64(&served, 1)
					}
					cancel()
				}
			}(g)
		}
		func() {
			defer func() { recover() }()
		}()
		wg.Wait()
		if maxInflight > 3 {
			t.Errorf("VIOLATION: %d in flight, limit 3", maxInflight)
		}
		if n := l.ConcurrentRequests(); n != 0 {
			t.Errorf("VIOLATION: %d permits still taken after all calls ended", n)
		}
		t.Logf("timeout %v: served %d refused %d max %d", timeout, served, refused, maxInflight)
	}
}
