package loadbalance

import (
	"context"
	"sync"
	"sync/atomic"
	"testing"
	"time"

	"github.com/hprose/hprose-golang/v3/rpc/core"
)

func TestZZReviewLeastActiveCounts(t *testing.T) {
	lb := NewLeastActiveLoadBalance()
	client := core.NewClient("mock://a", "mock://b", "mock://c")
	var perServer sync.Map
	var worst int64
	call := func() {
		cc := core.NewClientContext()
		cc.Init(client)
		ctx := core.WithContext(context.Background(), cc)
		lb.Handler(ctx, nil, func(ctx context.Context, request []byte) ([]byte, error) {
			host := core.GetClientContext(ctx).URL.Host
			v, _ := perServer.LoadOrStore(host, new(int64))
			n := atomic.AddInt64(v.(*int64), 1)
			// difference between this server's load and the least loaded one
			min := n
			perServer.Range(func(_, o interface{}) bool {
				if m := atomic.LoadInt64(o.(*int64)); m < min {
					min = m
				}
				return true
			})
			if d := n - min; d > atomic.LoadInt64(&worst) {
				atomic.StoreInt64(&worst, d)
			}
			time.Sleep(200 * time.Microsecond)
			atomic.AddInt64(v.(*int64), -1)
			return nil, nil
		})
	}
	var wg sync.WaitGroup
	for g := 0; g < 16; g++ {
		wg.Add(1)
		go func() {
			defer wg.Done()
			for i := 0; i < 500; i++ {
				call()
			}
		}()
	}
	wg.Wait()
	lb.rwlock.Lock()
	for i, a := range lb.actives {
		if a != 0 {
			t.Errorf("VIOLATION: actives[%d] = %d after all calls ended", i, a)
		}
	}
	lb.rwlock.Unlock()
	t.Logf("worst imbalance seen %d", worst)
}

func TestZZReviewRoundRobinWrap(t *testing.T) {
	lb := NewRoundRobinLoadBalance()
	lb.index = 1<<63 - 3
	for i := 0; i < 10; i++ {
		for _, n := range []int64{2, 3, 7} {
			if x := lb.getIndex(n); x < 0 || x >= n {
				t.Errorf("VIOLATION: index %d for n=%d", x, n)
			}
		}
	}
}
