package mock_test

import (
	"context"
	"runtime"
	"sync/atomic"
	"testing"
	"time"

	"github.com/hprose/hprose-golang/v3/rpc/core"
	. "github.com/hprose/hprose-golang/v3/rpc/mock"
	"github.com/hprose/hprose-golang/v3/rpc/plugins/push"
)

func TestZZReviewPushHeartBeatEndToEnd(t *testing.T) {
	service := core.NewService()
	b := push.NewBroker(service)
	b.HeartBeat = 1500 * time.Millisecond
	b.Timeout = 20 * time.Millisecond
	var offline int32
	b.OnUnsubscribe = func(ctx context.Context, id, topic string, messages []push.Message) {
		atomic.AddInt32(&offline, 1)
	}
	server := Server{Address: "zzReviewPushHB"}
	if err := service.Bind(server); err != nil {
		t.Fatal(err)
	}
	client := core.NewClient("mock://zzReviewPushHB")
	p := push.NewProsumer(client, "hb")
	var got int64
	var lastSeq int64 = -1
	var disorder int32
	p.Subscribe("t", func(seq int64) {
		if seq <= atomic.LoadInt64(&lastSeq) {
			atomic.AddInt32(&disorder, 1)
		}
		atomic.StoreInt64(&lastSeq, seq)
		atomic.AddInt64(&got, 1)
	})
	p.Subscribe("u", func(seq int64) {})
	base := runtime.NumGoroutine()
	var sent int64
	end := time.Now().Add(6 * time.Second)
	for seq := int64(0); time.Now().Before(end); seq++ {
		if b.Unicast(context.Background(), seq, "t", "hb", "x") {
			sent++
		} else {
			t.Errorf("VIOLATION: publish %d refused: client offline although it polls all the time", seq)
			break
		}
		switch seq % 5 {
		case 0:
			time.Sleep(30 * time.Millisecond) // longer than Timeout: the poll times out in between
		case 1:
			time.Sleep(19 * time.Millisecond)
		case 2:
			time.Sleep(20 * time.Millisecond)
		case 3:
			time.Sleep(21 * time.Millisecond)
		}
	}
	deadline := time.Now().Add(5 * time.Second)
	for atomic.LoadInt64(&got) < sent && time.Now().Before(deadline) {
		time.Sleep(10 * time.Millisecond)
	}
	if g := atomic.LoadInt64(&got); g != sent {
		t.Errorf("VIOLATION: sent %d delivered %d", sent, g)
	}
	if disorder != 0 {
		t.Errorf("VIOLATION: %d deliveries out of order", disorder)
	}
	if offline != 0 {
		t.Errorf("VIOLATION: client taken offline (%d OnUnsubscribe)", offline)
	}
	time.Sleep(2 * time.Second)
	if offline != 0 {
		t.Errorf("VIOLATION: idle polling client taken offline (%d OnUnsubscribe)", offline)
	}
	if n := runtime.NumGoroutine(); n > base+8 {
		t.Errorf("VIOLATION: %d goroutines more than at the start", n-base)
	}
	t.Logf("sent %d", sent)
}
