package push

import (
	"context"
	"fmt"
	"runtime"
	"sync"
	"sync/atomic"
	"testing"
	"time"

	"github.com/hprose/hprose-golang/v3/rpc/core"
)

func zzCtx(service *core.Service, id string) context.Context {
	sc := core.NewServiceContext(service)
	sc.RequestHeaders().Set("id", id)
	return core.WithContext(context.Background(), sc)
}

type zzMsg struct{ pub, seq int }

// accounting: every publish that reported true is seen exactly once, by a poll or by
// OnUnsubscribe; per publisher and topic the polls see ascending sequence numbers.
func zzStress(t *testing.T, timeout, heartbeat time.Duration, churn bool, dur time.Duration) {
	service := core.NewService()
	b := NewBroker(service)
	b.Timeout = timeout
	b.HeartBeat = heartbeat
	id := "c"
	var mu sync.Mutex
	seen := map[string]map[zzMsg]int{"stable": {}, "churn": {}}
	var offline int32
	b.OnUnsubscribe = func(ctx context.Context, id string, topic string, messages []Message) {
		if topic == "stable" {
			atomic.AddInt32(&offline, 1)
		}
		mu.Lock()
		for _, m := range messages {
			seen[topic][m.Data.(zzMsg)]++
		}
		mu.Unlock()
	}
	ctx := zzCtx(service, id)
	b.subscribe(ctx, "stable")
	b.subscribe(ctx, "churn")
	stop := make(chan struct{})
	var wg sync.WaitGroup
	var polls, empty, nilpolls int64
	last := map[string]map[int]int{"stable": {}, "churn": {}}
	var violations int32
	pollerDone := make(chan struct{})
	var stopPoll int32
	go func() {
		defer close(pollerDone)
		for atomic.LoadInt32(&stopPoll) == 0 {
			r := b.message(zzCtx(service, id))
			atomic.AddInt64(&polls, 1)
			if r == nil {
				atomic.AddInt64(&nilpolls, 1)
				time.Sleep(time.Millisecond)
				continue
			}
			if len(r) == 0 {
				atomic.AddInt64(&empty, 1)
			}
			mu.Lock()
			for topic, ms := range r {
				for _, m := range ms {
					z := m.Data.(zzMsg)
					seen[topic][z]++
					if topic == "stable" {
						if l, ok := last[topic][z.pub]; ok && z.seq <= l {
							if atomic.AddInt32(&violations, 1) < 5 {
								t.Errorf("VIOLATION: topic %s publisher %d: %d delivered after %d", topic, z.pub, z.seq, l)
							}
						}
						last[topic][z.pub] = z.seq
					}
				}
			}
			mu.Unlock()
		}
	}()
	var sent [2]map[zzMsg]bool
	sent[0], sent[1] = map[zzMsg]bool{}, map[zzMsg]bool{}
	var smu sync.Mutex
	for p := 0; p < 4; p++ {
		wg.Add(1)
		go func(p int) {
			defer wg.Done()
			pctx := context.Background()
			for seq := 0; ; seq++ {
				select {
				case <-stop:
					return
				default:
				}
				for ti, topic := range []string{"stable", "churn"} {
					if b.Unicast(pctx, zzMsg{p, seq}, topic, id, "x") {
						smu.Lock()
						sent[ti][zzMsg{p, seq}] = true
						smu.Unlock()
					}
				}
				if seq%64 == 0 {
					time.Sleep(time.Duration(seq%7) * 100 * time.Microsecond)
				}
			}
		}(p)
	}
	if churn {
		wg.Add(1)
		go func() {
			defer wg.Done()
			for i := 0; ; i++ {
				select {
				case <-stop:
					b.subscribe(zzCtx(service, id), "churn")
					return
				default:
				}
				b.unsubscribe(zzCtx(service, id), "churn")
				runtime.Gosched()
				b.subscribe(zzCtx(service, id), "churn")
				time.Sleep(200 * time.Microsecond)
			}
		}()
	}
	time.Sleep(dur)
	close(stop)
	wg.Wait()
	// drain: wait until two consecutive empty polls (needs Timeout > 0) or quiescence
	deadline := time.Now().Add(20 * time.Second)
	for time.Now().Before(deadline) {
		if !b.pending(id) {
			time.Sleep(100 * time.Millisecond)
			if !b.pending(id) {
				break
			}
		}
		time.Sleep(10 * time.Millisecond)
	}
	if b.pending(id) {
		t.Errorf("VIOLATION: messages stay cached although the client polls all the time")
	}
	atomic.StoreInt32(&stopPoll, 1)
	// end the last poll
	b.unsubscribe(zzCtx(service, id), "churn")
	b.unsubscribe(zzCtx(service, id), "stable")
	select {
	case <-pollerDone:
	case <-time.After(20 * time.Second):
		t.Errorf("VIOLATION: the last poll never returned after everything was unsubscribed")
	}
	mu.Lock()
	defer mu.Unlock()
	for ti, topic := range []string{"stable", "churn"} {
		lost, dup := 0, 0
		for m := range sent[ti] {
			switch n := seen[topic][m]; {
			case n == 0:
				lost++
				if lost < 4 {
					t.Errorf("VIOLATION: topic %s message %v reported as published, seen by nobody", topic, m)
				}
			case n > 1:
				dup++
			}
		}
		extra := 0
		for m := range seen[topic] {
			if !sent[ti][m] {
				extra++
			}
		}
		t.Logf("%s: sent %d lost %d dup %d seen-but-refused %d", topic, len(sent[ti]), lost, dup, extra)
		if lost > 0 || dup > 0 || extra > 0 {
			t.Errorf("VIOLATION: topic %s: lost %d duplicated %d delivered-although-refused %d of %d", topic, lost, dup, extra, len(sent[ti]))
		}
	}
	if heartbeat > 0 && atomic.LoadInt32(&offline) > 1 {
		t.Errorf("VIOLATION: client taken offline %d times although it polled continuously", offline-1)
	}
	t.Logf("polls %d empty %d nil %d", polls, empty, nilpolls)
	_ = fmt.Sprint
}

func TestZZReviewBrokerStressShortTimeout(t *testing.T) { zzStress(t, 2*time.Millisecond, 0, true, 3*time.Second) }
func TestZZReviewBrokerStressNoTimeout(t *testing.T)    { zzStress(t, 0, 0, true, 3*time.Second) }
func TestZZReviewBrokerStressHeartBeat(t *testing.T) {
	zzStress(t, 3*time.Millisecond, 5*time.Second, false, 3*time.Second)
}
