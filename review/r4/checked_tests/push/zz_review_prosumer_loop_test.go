package push

import (
	"fmt"
	"math/rand"
	"runtime"
	"testing"
	"time"

	"github.com/hprose/hprose-golang/v3/rpc/core"
	"github.com/hprose/hprose-golang/v3/rpc/mock"
)

func init() {
	mock.RegisterHandler()
	mock.RegisterTransport()
}

// subscribe / publish / expect delivery / unsubscribe, again and again with jitter: every
// interleaving of "the loop is just ending" with "the application subscribes again".
func TestZZReviewProsumerLoopRestart(t *testing.T) {
	service := core.NewService()
	b := NewBroker(service)
	b.HeartBeat = 0
	b.Timeout = 0
	server := mock.Server{Address: "zzReviewProsumerLoop"}
	if err := service.Bind(server); err != nil {
		t.Fatal(err)
	}
	client := core.NewClient("mock://zzReviewProsumerLoop")
	client.Timeout = 0
	p := NewProsumer(client, "L")
	p.RetryInterval = time.Millisecond
	got := make(chan string, 1024)
	base := runtime.NumGoroutine()
	rnd := rand.New(rand.NewSource(1))
	for i := 0; i < 2000; i++ {
		topic := fmt.Sprintf("t%d", i%3)
		if _, err := p.Subscribe(topic, func(data string) { got <- data }); err != nil {
			t.Fatal(err)
		}
		want := fmt.Sprintf("%s#%d", topic, i)
		if !b.Unicast(nil, want, topic, "L", "x") {
			t.Fatalf("VIOLATION: round %d: publish refused right after Subscribe returned", i)
		}
		select {
		case v := <-got:
			if v != want {
				t.Fatalf("VIOLATION: round %d: got %q want %q", i, v, want)
			}
		case <-time.After(10 * time.Second):
			p.loop.Lock()
			polling, again := p.loop.polling, p.loop.again
			p.loop.Unlock()
			t.Fatalf("VIOLATION: round %d: message published after Subscribe returned was not delivered in 10s (loop.polling=%v again=%v)", i, polling, again)
		}
		if _, err := p.Unsubscribe(topic); err != nil {
			t.Fatal(err)
		}
		switch rnd.Intn(4) {
		case 0:
		case 1:
			runtime.Gosched()
		case 2:
			time.Sleep(time.Duration(rnd.Intn(200)) * time.Microsecond)
		case 3:
			for k := 0; k < rnd.Intn(2000); k++ {
			}
		}
	}
	time.Sleep(300 * time.Millisecond)
	if n := runtime.NumGoroutine(); n > base+5 {
		t.Errorf("VIOLATION: %d goroutines more than before", n-base)
	}
}

func TestZZReviewProsumerLoopRestartConcurrent(t *testing.T) {
	service := core.NewService()
	b := NewBroker(service)
	b.HeartBeat = 0
	b.Timeout = 0
	server := mock.Server{Address: "zzReviewProsumerLoop2"}
	if err := service.Bind(server); err != nil {
		t.Fatal(err)
	}
	client := core.NewClient("mock://zzReviewProsumerLoop2")
	client.Timeout = 0
	p := NewProsumer(client, "L2")
	p.RetryInterval = time.Millisecond
	errs := make(chan string, 16)
	done := make(chan struct{}, 3)
	for g := 0; g < 3; g++ {
		go func(g int) {
			defer func() { done <- struct{}{} }()
			rnd := rand.New(rand.NewSource(int64(g)))
			topic := fmt.Sprintf("g%d", g)
			got := make(chan string, 16)
			for i := 0; i < 1500; i++ {
				if _, err := p.Subscribe(topic, func(data string) { got <- data }); err != nil {
					errs <- err.Error()
					return
				}
				want := fmt.Sprintf("%s#%d", topic, i)
				if !b.Unicast(nil, want, topic, "L2", "x") {
					errs <- fmt.Sprintf("round %d/%s: publish refused right after Subscribe returned", i, topic)
					return
				}
				select {
				case v := <-got:
					if v != want {
						errs <- fmt.Sprintf("round %d: got %q want %q", i, v, want)
						return
					}
				case <-time.After(10 * time.Second):
					p.loop.Lock()
					polling, again := p.loop.polling, p.loop.again
					p.loop.Unlock()
					errs <- fmt.Sprintf("round %d/%s: message published after Subscribe returned was not delivered in 10s (loop.polling=%v again=%v)", i, topic, polling, again)
					return
				}
				if _, err := p.Unsubscribe(topic); err != nil {
					errs <- err.Error()
					return
				}
				if rnd.Intn(3) == 0 {
					time.Sleep(time.Duration(rnd.Intn(300)) * time.Microsecond)
				}
			}
		}(g)
	}
	for i := 0; i < 3; i++ {
		<-done
	}
	close(errs)
	for e := range errs {
		t.Errorf("VIOLATION: %s", e)
	}
}
