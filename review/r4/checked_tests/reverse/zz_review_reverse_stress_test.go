package reverse

import (
	"context"
	"reflect"
	"runtime"
	"sync"
	"sync/atomic"
	"testing"
	"time"

	"github.com/hprose/hprose-golang/v3/rpc/core"
)

func zzCtx(service *core.Service, id string) context.Context {
	sc := core.NewServiceContext(service)
	sc.RequestHeaders().Set("id", id)
	return core.WithContext(context.Background(), sc)
}

// The Caller under a provider loop of our own (begin / end called directly), idle time-out
// short enough to fire all the time.
func TestZZReviewReverseCallerStress(t *testing.T) {
	service := core.NewService()
	caller := NewCaller(service)
	caller.Timeout = 10 * time.Second
	caller.IdleTimeout = 1 * time.Millisecond
	caller.HeartBeat = 0
	var stop int32
	var idle, batches int64
	provDone := make(chan struct{})
	go func() {
		defer close(provDone)
		for atomic.LoadInt32(&stop) == 0 {
			calls := caller.begin(zzCtx(service, "p"))
			if calls == nil {
				t.Errorf("VIOLATION: begin answered nil (stop) to the only poller")
				return
			}
			if len(calls) == 0 {
				atomic.AddInt64(&idle, 1)
				continue
			}
			atomic.AddInt64(&batches, 1)
			go func(calls []call) {
				results := make([]returnValue, len(calls))
				for i, c := range calls {
					index, _, args := c.Value()
					results[i] = newReturnValue(index, args[0].(int)+1, "")
				}
				caller.end(zzCtx(service, "p"), results)
			}(calls)
		}
	}()
	base := runtime.NumGoroutine()
	var wg sync.WaitGroup
	var bad int32
	intType := reflect.TypeOf(0)
	for g := 0; g < 3; g++ {
		wg.Add(1)
		go func(g int) {
			defer wg.Done()
			for i := 0; i < 3000 && atomic.LoadInt32(&bad) == 0; i++ {
				x := g*100000 + i
				r, err := caller.InvokeContext(context.Background(), "p", "inc", []interface{}{x}, intType)
				if err != nil || len(r) != 1 || r[0] != x+1 {
					if atomic.AddInt32(&bad, 1) < 5 {
						t.Errorf("VIOLATION: inc(%d) = %v, %v", x, r, err)
					}
				}
				if i%2 == 0 {
					time.Sleep(time.Duration(900+(i*37)%400) * time.Microsecond) // let the poll go idle
				}
			}
		}(g)
	}
	wg.Wait()
	atomic.StoreInt32(&stop, 1)
	<-provDone
	time.Sleep(200 * time.Millisecond)
	t.Logf("idle polls %d batches %d", idle, batches)
	if n := runtime.NumGoroutine(); n > base+5 {
		t.Errorf("VIOLATION: %d goroutines more than before", n-base)
	}
	if cc, ok := caller.calls.Get("p"); ok && cc.(*callCache).Len() != 0 {
		t.Errorf("VIOLATION: %d calls left in the cache", cc.(*callCache).Len())
	}
	if rm, ok := caller.results.Get("p"); ok {
		rm := rm.(*resultMap)
		rm.Lock()
		n := len(rm.results)
		rm.Unlock()
		if n != 0 {
			t.Errorf("VIOLATION: %d result channels left registered", n)
		}
	}
	if caller.responders.Count() != 0 {
		t.Errorf("VIOLATION: %d responders left registered", caller.responders.Count())
	}
}
