package reverse

import "github.com/hprose/hprose-golang/v3/rpc/mock"

func init() {
	mock.RegisterHandler()
	mock.RegisterTransport()
}
