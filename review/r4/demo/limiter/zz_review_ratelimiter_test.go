package limiter_test

import (
	"context"
	"sync"
	"sync/atomic"
	"testing"
	"time"

	"github.com/hprose/hprose-golang/v3/rpc/plugins/limiter"
)

// ef29c56 made the limiter turn a caller away BEFORE it takes its tokens when the wait would
// exceed the limiter's own time-out ("a caller that is turned away must not push the next free
// instant further out"). The same caller turned away by its own context (60a8670: "returns the
// caller's context error when the caller gives up during the wait") is still charged first:
// callers whose deadline is known to lie before their slot take their tokens, wait, fail - and
// the tokens stay taken. A burst of impatient callers (an RPC client's ordinary per-call
// time-out) shuts the limiter for everybody for minutes, exactly the effect ef29c56 describes.
func TestZZReviewRateLimiterChargesCallersThatGiveUp(t *testing.T) {
	l := limiter.NewRateLimiter(10) // 10 permits per second, no time-out of its own
	var admitted, refused int32
	var wg sync.WaitGroup
	for i := 0; i < 600; i++ {
		wg.Add(1)
		go func() {
			defer wg.Done()
			ctx, cancel := context.WithTimeout(context.Background(), 20*time.Millisecond)
			defer cancel()
			if err := l.Acquire(ctx, 1); err != nil {
				atomic.AddInt32(&refused, 1)
			} else {
				atomic.AddInt32(&admitted, 1)
			}
		}()
	}
	wg.Wait()
	t.Logf("burst: admitted %d, gave up %d", admitted, refused)
	// Not more than a handful of calls went through; at 10/s a patient caller is due almost at
	// once. It is given 5 seconds.
	ctx, cancel := context.WithTimeout(context.Background(), 5*time.Second)
	defer cancel()
	begin := time.Now()
	err := l.Acquire(ctx, 1)
	if err != nil {
		t.Errorf("VIOLATION: after a burst of 600 callers of which %d were admitted and %d gave up after 20ms, a caller that waits 5s is not admitted (%v after %v): the callers that gave up kept their tokens, the limiter (10/s) is shut for about %ds", admitted, refused, err, time.Since(begin).Round(time.Millisecond), refused/10)
	}
}
