package loadbalance_test

import (
	"context"
	"testing"
	"time"

	"github.com/hprose/hprose-golang/v3/rpc/core"
	"github.com/hprose/hprose-golang/v3/rpc/plugins/cluster"
	"github.com/hprose/hprose-golang/v3/rpc/plugins/loadbalance"
)

// A client whose URL list is empty (core.Client.SetURI drops every URI that does not parse, and
// core.ClientContext.Init explicitly allows len(URLs) == 0): LeastActive panics with "index out
// of range [0]" - as it did on 591b425 - but since f52e0de it does so while it HOLDS lb.rwlock
// (Lock taken before the choice, no deferred Unlock). Every later call through this balancer
// blocks for ever, also after the application has repaired the URL list.
func TestZZReviewLeastActiveEmptyURLsKeepsLock(t *testing.T) {
	lb := loadbalance.NewLeastActiveLoadBalance()
	client := core.NewClient("://not a url") // dropped by SetURI: zero URLs
	if len(client.URLs) != 0 {
		t.Fatalf("precondition: %d urls", len(client.URLs))
	}
	call := func() (err error) {
		cc := core.NewClientContext()
		cc.Init(client)
		ctx := core.WithContext(context.Background(), cc)
		defer func() {
			if e := recover(); e != nil {
				err = core.NewPanicError(e)
			}
		}()
		_, err = lb.Handler(ctx, []byte("x"), func(ctx context.Context, request []byte) ([]byte, error) {
			return request, nil
		})
		return
	}
	err := call()
	t.Logf("call with no URL: %v", err)
	// the application repairs the list
	client.SetURI("mock://a", "mock://b")
	done := make(chan error, 1)
	go func() { done <- call() }()
	select {
	case err := <-done:
		if err != nil {
			t.Errorf("VIOLATION: call after the URL list was repaired failed: %v", err)
		}
	case <-time.After(5 * time.Second):
		t.Errorf("VIOLATION: the call after the one that panicked (empty URL list) is still blocked after 5s: LeastActive panicked while holding its write lock and never released it")
	}
}

// The same through the documented stack cluster(failover) + LeastActive: the cluster plugin
// recovers the panic and retries; on 591b425 the call ended with the panic as its error after
// the retries, now the first retry blocks for ever on the balancer's lock.
func TestZZReviewLeastActiveEmptyURLsUnderClusterHangs(t *testing.T) {
	lb := loadbalance.NewLeastActiveLoadBalance()
	client := core.NewClient("://not a url")
	c := cluster.New(cluster.FailtryConfig(cluster.WithRetry(2), cluster.WithIdempotent(true), cluster.WithMinInterval(time.Millisecond)))
	done := make(chan error, 1)
	go func() {
		cc := core.NewClientContext()
		cc.Init(client)
		ctx := core.WithContext(context.Background(), cc)
		_, err := c.Handler(ctx, []byte("x"), func(ctx context.Context, request []byte) ([]byte, error) {
			return lb.Handler(ctx, request, func(ctx context.Context, request []byte) ([]byte, error) {
				return request, nil
			})
		})
		done <- err
	}()
	select {
	case err := <-done:
		t.Logf("call ended: %v", err)
	case <-time.After(5 * time.Second):
		t.Errorf("VIOLATION: cluster+LeastActive call with an empty URL list never returns (5s): the retry waits for the lock the panicking first attempt left locked")
	}
}
