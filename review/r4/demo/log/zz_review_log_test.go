package log

import (
	"bytes"
	"context"
	"fmt"
	"strings"
	"testing"

	jsoniter "github.com/json-iterator/go"
)

type zzNode struct {
	Name     string
	Children []*zzNode
	parent   *zzNode // not exported: no printer follows it
}

type zzInner struct{ A, B int }
type zzOuter struct {
	Inner zzInner
	Cur   *zzInner // points at Inner: &Outer == &Outer.Inner, but nothing contains itself
}

func zzCapture(f func(l *Log)) string {
	var buf bytes.Buffer
	f(New(func(v ...interface{}) { fmt.Fprintln(&buf, v...) }))
	return buf.String()
}

func TestZZReviewLogRefusesOrdinaryValues(t *testing.T) {
	root := &zzNode{Name: "root"}
	root.Children = append(root.Children, &zzNode{Name: "kid", parent: root})
	o := &zzOuter{Inner: zzInner{1, 2}}
	o.Cur = &o.Inner
	for _, c := range []struct {
		name string
		v    interface{}
		want string
	}{
		{"tree with unexported parent pointer", root, `"Name":"kid"`},
		{"pointer to the struct's own first field", o, `"A":1`},
	} {
		if _, err := jsoniter.Marshal(c.v); err != nil {
			t.Fatalf("precondition: %s is not printable: %v", c.name, err)
		}
		out := zzCapture(func(l *Log) {
			l.InvokeHandler(context.Background(), "f", []interface{}{c.v}, func(ctx context.Context, name string, args []interface{}) ([]interface{}, error) {
				return nil, nil
			})
		})
		if !strings.Contains(out, c.want) {
			t.Errorf("VIOLATION: %s: jsoniter prints it without trouble (as the plugin did on 591b425), the log now says: %s", c.name, strings.TrimSpace(out))
		}
	}
}
