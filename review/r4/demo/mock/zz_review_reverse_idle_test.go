package mock_test

import (
	"testing"
	"time"

	"github.com/hprose/hprose-golang/v3/rpc/core"
	. "github.com/hprose/hprose-golang/v3/rpc/mock"
	"github.com/hprose/hprose-golang/v3/rpc/plugins/reverse"
)

// The idle answer of Caller.begin is emptyCall (an empty, non-nil []call); on the wire that is
// "a{}", which the provider's codec decodes into a NIL []call - and nil is what Provider.Listen
// takes for "stop" (`if calls == nil { return }`). So the first poll that goes idle
// (Caller.IdleTimeout, 2 minutes by default) ends the provider's Listen loop silently: no
// OnError, `closed` stays 0 (a second Listen() returns at once because the CAS 1->0 fails), the
// provider looks alive and every later call to it times out. 88d5bea / c720201 repaired the
// server side of exactly this path (withdraw the responder, return emptyCall) and left the
// client side of it behind. (Same on 591b425.)
func TestZZReviewReverseProviderStopsAfterIdlePoll(t *testing.T) {
	service := core.NewService()
	caller := reverse.NewCaller(service)
	caller.IdleTimeout = 100 * time.Millisecond
	caller.Timeout = 3 * time.Second
	caller.HeartBeat = 0
	server := Server{Address: "zzReviewReverseIdle"}
	if err := service.Bind(server); err != nil {
		t.Fatal(err)
	}
	client := core.NewClient("mock://zzReviewReverseIdle")
	provider := reverse.NewProvider(client, "p1")
	provider.AddFunction(func(name string) string { return "hello " + name }, "hello")
	returned := make(chan struct{})
	go func() {
		provider.Listen()
		close(returned)
	}()

	// before any idle poll: works
	r, err := caller.Invoke("p1", "hello", []interface{}{"a"}, reflectString)
	if err != nil || len(r) != 1 || r[0] != "hello a" {
		t.Fatalf("precondition: first call: %v %v", r, err)
	}
	time.Sleep(time.Second) // ten idle time-outs
	select {
	case <-returned:
		t.Errorf("VIOLATION: Provider.Listen returned by itself after an idle poll (nobody closed the provider)")
	default:
	}
	begin := time.Now()
	r, err = caller.Invoke("p1", "hello", []interface{}{"b"}, reflectString)
	if err != nil || len(r) != 1 || r[0] != "hello b" {
		t.Errorf("VIOLATION: call after one second without calls: result %v error %v after %v; want \"hello b\"", r, err, time.Since(begin).Round(time.Millisecond))
	}
}
