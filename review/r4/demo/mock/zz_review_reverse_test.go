package mock_test

import (
	"testing"
	"time"

	"github.com/hprose/hprose-golang/v3/rpc/core"
	. "github.com/hprose/hprose-golang/v3/rpc/mock"
	"github.com/hprose/hprose-golang/v3/rpc/plugins/reverse"
)

// A provider that is closed while it executes a call: on 591b425 the result of the call that
// was in progress was still reported ("=") and the caller got its answer. Since 0611d09 the
// report loop is `for atomic.LoadInt32(&p.closed) == 0 { end(results) ... }`: after Close it is
// not even tried once, the finished result is thrown away and the caller waits for its whole
// Timeout (30s by default) for a call that HAS been executed.
func TestZZReviewReverseCloseDropsFinishedResult(t *testing.T) {
	service := core.NewService()
	caller := reverse.NewCaller(service)
	caller.Timeout = 4 * time.Second
	caller.HeartBeat = 0
	server := Server{Address: "zzReviewReverseClose"}
	if err := service.Bind(server); err != nil {
		t.Fatal(err)
	}
	client := core.NewClient("mock://zzReviewReverseClose")
	provider := reverse.NewProvider(client, "p1")
	started := make(chan struct{})
	release := make(chan struct{})
	executed := make(chan struct{})
	provider.AddFunction(func() string {
		close(started)
		<-release
		close(executed)
		return "done"
	}, "work")
	go provider.Listen()

	type answer struct {
		result []interface{}
		err    error
	}
	got := make(chan answer, 1)
	begin := time.Now()
	go func() {
		r, err := caller.Invoke("p1", "work", nil, reflectString)
		got <- answer{r, err}
	}()
	select {
	case <-started:
	case <-time.After(10 * time.Second):
		t.Fatal("the provider never got the call")
	}
	if err := provider.Close(); err != nil { // graceful shutdown while a call is in progress
		t.Fatalf("Close: %v", err)
	}
	close(release)
	<-executed
	a := <-got
	if a.err != nil {
		t.Errorf("VIOLATION: the call was executed by the provider (function returned \"done\"), but the caller got error %q after %v: the provider dropped the finished result because it had been closed meanwhile", a.err, time.Since(begin).Round(time.Millisecond))
	} else if len(a.result) != 1 || a.result[0] != "done" {
		t.Errorf("VIOLATION: result %v", a.result)
	}
}
