package mock_test

import "reflect"

var reflectString = reflect.TypeOf("")
