package push

import (
	"context"
	"sort"
	"testing"
	"time"

	"github.com/hprose/hprose-golang/v3/rpc/core"
)

func zzDenyCtx(service *core.Service, id string) context.Context {
	sc := core.NewServiceContext(service)
	sc.RequestHeaders().Set("id", id)
	return core.WithContext(context.Background(), sc)
}

// Deny(ctx, id, "") is "deny every topic of this client" (the branch for topic == "" ranges over
// all topics). Its Range callback returns false, which ENDS the iteration after the first
// topic: one arbitrary topic is denied, the others stay subscribed and keep receiving. The
// fixes da9b8f1 / b662679 repaired what happens after Deny (nil interface in send, unsubscribe
// of a denied topic) and left this behind. Also left behind by b662679: Deny replaces the cache
// without ending it, so what was cached (publishes that were answered "true") is dropped and is
// given neither to the client nor to OnUnsubscribe.
func TestZZReviewDenyAllDeniesOneTopic(t *testing.T) {
	service := core.NewService()
	b := NewBroker(service)
	b.HeartBeat = 0
	b.Timeout = 200 * time.Millisecond
	ctx := zzDenyCtx(service, "d")
	for _, topic := range []string{"a", "b", "c"} {
		if !b.subscribe(ctx, topic) {
			t.Fatal("subscribe")
		}
	}
	b.Deny(context.Background(), "d", "")
	var still []string
	for _, topic := range []string{"a", "b", "c"} {
		if b.Exists(topic, "d") {
			still = append(still, topic)
		}
	}
	sort.Strings(still)
	if len(still) != 0 {
		t.Errorf("VIOLATION: after Deny(id, \"\") (all topics) the client is still subscribed to %v", still)
	}
	r := b.message(zzDenyCtx(service, "d"))
	denied := 0
	for _, ms := range r {
		if ms == nil {
			denied++
		}
	}
	if denied != 3 {
		t.Errorf("VIOLATION: the poll after Deny(id, \"\") tells the client about %d denied topics, want 3: %v", denied, r)
	}
}

func TestZZReviewDenyDropsCachedMessages(t *testing.T) {
	service := core.NewService()
	b := NewBroker(service)
	b.HeartBeat = 0
	b.Timeout = 200 * time.Millisecond
	var handed []Message
	b.OnUnsubscribe = func(ctx context.Context, id, topic string, messages []Message) {
		handed = append(handed, messages...)
	}
	ctx := zzDenyCtx(service, "d2")
	b.subscribe(ctx, "a")
	if !b.Unicast(context.Background(), "m1", "a", "d2", "x") {
		t.Fatal("publish refused")
	}
	b.Deny(context.Background(), "d2", "a")
	r := b.message(zzDenyCtx(service, "d2"))
	if len(r["a"]) == 0 && len(handed) == 0 {
		t.Errorf("VIOLATION: the publish was answered true; after Deny the message was given neither to the client's poll (%v) nor to OnUnsubscribe", r)
	}
}
