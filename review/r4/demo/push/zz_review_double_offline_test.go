package push

import (
	"context"
	"sync"
	"sync/atomic"
	"testing"
	"time"

	"github.com/hprose/hprose-golang/v3/rpc/core"
)

func zzCtx2(service *core.Service, id string) context.Context {
	sc := core.NewServiceContext(service)
	sc.RequestHeaders().Set("id", id)
	return core.WithContext(context.Background(), sc)
}

// Two unsubscribes of the same topic (the client's Unsubscribe and the heartbeat's offline, or an
// Unsubscribe repeated after a client-side time-out) around a new Subscribe:
//   U1: Load(topic)=cache1   U2: Load(topic)=cache1   U1: Delete, cache1.end()
//   S : LoadOrStore(topic, cache2)                    U2: Delete  <- removes cache2, ends cache1 again
// cache2 is out of the map without having been ended: a publisher that holds it appends to it and
// reports success (the very thing b662679 closed for the simple case), what it held is given to
// nobody, and the client, whose Subscribe was answered true, is subscribed to nothing.
func TestZZReviewDoubleOfflineLosesNewCache(t *testing.T) {
	service := core.NewService()
	b := NewBroker(service)
	b.Timeout = 5 * time.Millisecond
	b.HeartBeat = 0
	id := "c"
	type msg struct{ pub, seq int }
	var mu sync.Mutex
	seen := map[msg]int{}
	b.OnUnsubscribe = func(ctx context.Context, id string, topic string, messages []Message) {
		mu.Lock()
		for _, m := range messages {
			seen[m.Data.(msg)]++
		}
		mu.Unlock()
	}
	b.subscribe(zzCtx2(service, id), "keep")
	b.subscribe(zzCtx2(service, id), "churn")
	stop := make(chan struct{})
	var stopPoll int32
	pollerDone := make(chan struct{})
	go func() {
		defer close(pollerDone)
		for atomic.LoadInt32(&stopPoll) == 0 {
			r := b.message(zzCtx2(service, id))
			mu.Lock()
			for _, m := range r["churn"] {
				seen[m.Data.(msg)]++
			}
			mu.Unlock()
		}
	}()
	var wg sync.WaitGroup
	sent := map[msg]bool{}
	var smu sync.Mutex
	for p := 0; p < 3; p++ {
		wg.Add(1)
		go func(p int) {
			defer wg.Done()
			for seq := 0; ; seq++ {
				select {
				case <-stop:
					return
				default:
				}
				if b.Unicast(context.Background(), msg{p, seq}, "churn", id, "x") {
					smu.Lock()
					sent[msg{p, seq}] = true
					smu.Unlock()
				}
			}
		}(p)
	}
	for u := 0; u < 2; u++ {
		wg.Add(1)
		go func() {
			defer wg.Done()
			for {
				select {
				case <-stop:
					return
				default:
				}
				b.unsubscribe(zzCtx2(service, id), "churn")
			}
		}()
	}
	wg.Add(1)
	go func() {
		defer wg.Done()
		for {
			select {
			case <-stop:
				return
			default:
			}
			b.subscribe(zzCtx2(service, id), "churn")
		}
	}()
	time.Sleep(3 * time.Second)
	close(stop)
	wg.Wait()
	b.unsubscribe(zzCtx2(service, id), "churn")
	time.Sleep(100 * time.Millisecond)
	atomic.StoreInt32(&stopPoll, 1)
	b.unsubscribe(zzCtx2(service, id), "keep")
	<-pollerDone
	lost := 0
	mu.Lock()
	for m := range sent {
		if seen[m] == 0 {
			lost++
		}
	}
	mu.Unlock()
	t.Logf("published %d, lost %d", len(sent), lost)
	if lost > 0 {
		t.Errorf("VIOLATION: %d of %d publishes that were answered true were given neither to a poll nor to OnUnsubscribe", lost, len(sent))
	}
}
