package rpc_test

import (
	"net"
	"sync"
	"testing"
	"time"

	"github.com/hprose/hprose-golang/v3/rpc"
	"github.com/hprose/hprose-golang/v3/rpc/plugins/push"
)

// Since 2330473 / 3e13c53 the Prosumer runs the callbacks in its ONE polling goroutine and does
// not poll again before the last callback of the batch has returned. The broker's heartbeat
// (10s by default) starts when the batch is handed over and is only disarmed by the next poll:
// a callback that takes longer than Broker.HeartBeat gets its own client taken offline (all
// subscriptions removed on the broker, OnUnsubscribe fired), the next poll is answered with
// nil, the poll loop ends silently (no OnError, no client-side OnUnsubscribe) and nothing is
// ever delivered again. On 591b425 the batch was dispatched in its own goroutine and the loop
// polled again at once, so a slow callback did not cost the subscription.
func TestZZReviewPushSlowCallbackLosesSubscription(t *testing.T) {
	service := push.NewBroker(rpc.NewService())
	service.HeartBeat = 500 * time.Millisecond
	service.Timeout = 20 * time.Second // no poll times out during this test
	var mu sync.Mutex
	var unsubscribed []string
	service.OnUnsubscribe = func(_ context_, id string, topic string, messages []push.Message) {
		mu.Lock()
		unsubscribed = append(unsubscribed, id+"/"+topic)
		mu.Unlock()
	}
	server, err := net.Listen("tcp", "127.0.0.1:18431")
	if err != nil {
		t.Fatal(err)
	}
	defer server.Close()
	if err = service.Bind(server); err != nil {
		t.Fatal(err)
	}
	time.Sleep(50 * time.Millisecond)

	client := rpc.NewClient("tcp://127.0.0.1:18431/")
	prosumer := push.NewProsumer(client, "slow")
	got := make(chan int, 16)
	if _, err := prosumer.Subscribe("topic", func(data int) {
		if data == 1 {
			time.Sleep(2500 * time.Millisecond) // five heartbeats
		}
		got <- data
	}); err != nil {
		t.Fatal(err)
	}
	time.Sleep(200 * time.Millisecond) // the first poll is pending
	if r := service.Push(1, "topic", "slow"); !r["slow"] {
		t.Fatalf("precondition: first push refused: %v", r)
	}
	select {
	case v := <-got:
		if v != 1 {
			t.Fatalf("got %d", v)
		}
	case <-time.After(20 * time.Second):
		t.Fatal("first message never delivered")
	}
	time.Sleep(500 * time.Millisecond) // the loop has polled again (or has ended)
	mu.Lock()
	u := append([]string(nil), unsubscribed...)
	mu.Unlock()
	if len(u) > 0 {
		t.Errorf("VIOLATION: the broker took the client offline (OnUnsubscribe %v) while its callback was still working on the first batch", u)
	}
	if !service.Exists("topic", "slow") {
		t.Errorf("VIOLATION: the subscription is gone on the broker after a callback that ran for 2.5s (HeartBeat 0.5s)")
	}
	r := service.Push(2, "topic", "slow")
	select {
	case v := <-got:
		if v != 2 {
			t.Errorf("VIOLATION: got %d, want 2", v)
		}
	case <-time.After(6 * time.Second):
		t.Errorf("VIOLATION: the second message (push result %v) was never delivered: the Prosumer's poll loop has ended and the application was told nothing", r)
	}
}
