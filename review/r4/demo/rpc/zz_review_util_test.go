package rpc_test

import "context"

type context_ = context.Context
