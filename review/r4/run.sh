#!/bin/sh
# usage: run.sh <pkgdir> <go test args...>
export GOFLAGS=-mod=mod GOPROXY=off GOSUMDB=off GOTOOLCHAIN=local
cd /tmp/review-4 || exit 1
pkg=$1; shift
exec unshare -n sh -c 'ip link set lo up; exec go test -vet=off -count=1 -p 1 "$@"' sh "$pkg" "$@"
