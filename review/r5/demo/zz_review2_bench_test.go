package io

import "testing"

type zzR2Small struct {
	ID   int
	Name string
	OK   bool
}

func zzR2DeepList(n int) interface{} {
	var v interface{} = 1
	for i := 0; i < n; i++ {
		v = []interface{}{v}
	}
	return v
}

func BenchmarkZZR2Ints(b *testing.B) {
	s := make([]int, 1000000)
	for i := range s {
		s[i] = i
	}
	enc := new(Encoder).Simple(false)
	b.ResetTimer()
	for i := 0; i < b.N; i++ {
		enc.ResetBuffer().Reset()
		if err := enc.Encode(s); err != nil {
			b.Fatal(err)
		}
	}
}

func BenchmarkZZR2IfaceInts(b *testing.B) {
	s := make([]interface{}, 1000000)
	for i := range s {
		s[i] = i
	}
	enc := new(Encoder).Simple(false)
	b.ResetTimer()
	for i := 0; i < b.N; i++ {
		enc.ResetBuffer().Reset()
		if err := enc.Encode(s); err != nil {
			b.Fatal(err)
		}
	}
}

func BenchmarkZZR2Structs(b *testing.B) {
	s := make([]zzR2Small, 100000)
	for i := range s {
		s[i] = zzR2Small{i, "name", true}
	}
	enc := new(Encoder).Simple(false)
	b.ResetTimer()
	for i := 0; i < b.N; i++ {
		enc.ResetBuffer().Reset()
		if err := enc.Encode(s); err != nil {
			b.Fatal(err)
		}
	}
}

func BenchmarkZZR2StructPtrs(b *testing.B) {
	s := make([]*zzR2Small, 100000)
	for i := range s {
		s[i] = &zzR2Small{i, "name", true}
	}
	enc := new(Encoder).Simple(false)
	b.ResetTimer()
	for i := 0; i < b.N; i++ {
		enc.ResetBuffer().Reset()
		if err := enc.Encode(s); err != nil {
			b.Fatal(err)
		}
	}
}

func BenchmarkZZR2Deep2000(b *testing.B) {
	v := zzR2DeepList(2000)
	enc := new(Encoder).Simple(false)
	b.ResetTimer()
	for i := 0; i < b.N; i++ {
		enc.ResetBuffer().Reset()
		if err := enc.Encode(v); err != nil {
			b.Fatal(err)
		}
	}
}

func BenchmarkZZR2Deep50000(b *testing.B) {
	v := zzR2DeepList(50000)
	enc := new(Encoder).Simple(false)
	b.ResetTimer()
	for i := 0; i < b.N; i++ {
		enc.ResetBuffer().Reset()
		if err := enc.Encode(v); err != nil {
			b.Fatal(err)
		}
	}
}

// wide below depth 1000: 1001-deep spine, then 200000 ints behind interfaces
func BenchmarkZZR2WideBelow1000(b *testing.B) {
	leaf := make([]interface{}, 200000)
	for i := range leaf {
		leaf[i] = i
	}
	var v interface{} = leaf
	for i := 0; i < 1001; i++ {
		v = []interface{}{v}
	}
	enc := new(Encoder).Simple(false)
	b.ResetTimer()
	for i := 0; i < b.N; i++ {
		enc.ResetBuffer().Reset()
		if err := enc.Encode(v); err != nil {
			b.Fatal(err)
		}
	}
}
