package io

import (
	"errors"
	"fmt"
	"testing"
	"time"
)

// zzR2Count is a field that counts how often the struct around it is written and stops the
// encoding (by a panic the test recovers) when that happens absurdly often: the test must
// not run for 2^1000 steps nor fill the memory with output.
type zzR2Count int

var zzR2Writes int

const zzR2WriteLimit = 300000

type zzR2CountEncoder struct{}

func (zzR2CountEncoder) Encode(enc *Encoder, v interface{}) { zzR2CountEncoder{}.Write(enc, v) }
func (zzR2CountEncoder) Write(enc *Encoder, v interface{}) {
	zzR2Writes++
	if zzR2Writes > zzR2WriteLimit {
		panic("zzR2: too many writes")
	}
	enc.WriteInt(0)
}

func init() { RegisterValueEncoder(zzR2Count(0), zzR2CountEncoder{}) }

type zzR2Node struct {
	C zzR2Count
	A *zzR2Node
	T time.Time
	B *zzR2Node
}

type zzR2NodeOK struct {
	C zzR2Count
	A *zzR2NodeOK
	T time.Time
	B *zzR2NodeOK
}

func zzR2Run(v interface{}) (writes int, err error) {
	zzR2Writes = 0
	defer func() {
		writes = zzR2Writes
		if r := recover(); r != nil {
			err = fmt.Errorf("stopped: %v", r)
		}
	}()
	enc := new(Encoder).Simple(true)
	err = enc.Encode(v)
	return
}

// 79e0f6d: "once the encoder has refused a value as nested too deep it writes nothing below
// it (a value that contains itself twice made it descend again from every level: 2^depth
// work)". The refusal is remembered in enc.Error only, and encoders that do not pass enter()
// overwrite enc.Error (time_encoder.go: year outside of range; ptr_encoder.go: unsupported
// type): with such a field between the two self references the descent starts again at
// every level.
func TestZZReview2NestedErrorOverwritten(t *testing.T) {
	// control: the same shape with a good time is refused after about a thousand writes
	ok := &zzR2NodeOK{T: time.Date(2020, 1, 1, 0, 0, 0, 0, time.UTC)}
	ok.A, ok.B = ok, ok
	writes, err := zzR2Run(ok)
	t.Logf("control: %d struct writes, err=%v", writes, err)
	if !errors.Is(err, ErrNestedTooDeep) || writes > 5000 {
		t.Errorf("VIOLATION: control: %d writes, err=%v", writes, err)
	}
	n := &zzR2Node{T: time.Date(10000, 1, 1, 0, 0, 0, 0, time.UTC)}
	n.A, n.B = n, n
	start := time.Now()
	writes, err = zzR2Run(n)
	t.Logf("bad time between the self references: %d struct writes in %v, err=%v", writes, time.Since(start), err)
	if writes > zzR2WriteLimit {
		t.Errorf("VIOLATION: a value that contains itself twice and has a time beyond year 9999 was written more than %d times over (the control: about 1000 times, then ErrNestedTooDeep): the year error replaces ErrNestedTooDeep in enc.Error and the encoder descends again from every level - 2^depth work, Encode does not return", zzR2WriteLimit)
	}
}
