package io

import (
	"fmt"
	"reflect"
	"strings"
	"testing"
)

type zzR2NilSafe struct{ msg string }

func (e *zzR2NilSafe) Error() string {
	if e == nil {
		return "nil-safe"
	}
	return e.msg
}

type zzR2NilDeref struct{ msg string }

func (e *zzR2NilDeref) Error() string { return e.msg }

type zzR2FuncErr func() string

func (f zzR2FuncErr) Error() string { return f() }

type zzR2MapErr map[string]string

func (m zzR2MapErr) Error() string { return "map:" + m["msg"] }

type zzR2ErrHolder struct {
	E error
	N int
}

func zzR2Enc(simple bool, v interface{}) (s string, err error) {
	defer func() {
		if r := recover(); r != nil {
			err = fmt.Errorf("PANIC: %v", r)
		}
	}()
	enc := new(Encoder).Simple(simple)
	err = enc.Encode(v)
	return string(enc.Buffer()), err
}

func TestZZR2ErrorEncoder(t *testing.T) {
	var ns *zzR2NilSafe
	var nd *zzR2NilDeref
	var fe zzR2FuncErr
	var me zzR2MapErr
	var e1 error = ns
	var e2 error = nd
	cases := []struct {
		name string
		v    interface{}
	}{
		{"top nilsafe", ns}, {"top nilderef", nd}, {"field nilsafe", zzR2ErrHolder{ns, 1}}, {"field nilderef", zzR2ErrHolder{nd, 1}},
		{"list", []interface{}{ns, nd, 1}}, {"errlist", []error{ns, nd}}, {"map", map[string]interface{}{"a": ns}},
		{"errmap", map[string]error{"a": ns, "b": nd}},
		{"*error nilsafe", &e1}, {"*error nilderef", &e2},
		{"nil func error", fe}, {"nil map error", me}, {"field nil func error", zzR2ErrHolder{fe, 1}},
	}
	for _, c := range cases {
		for _, simple := range []bool{true, false} {
			s, err := zzR2Enc(simple, c.v)
			t.Logf("%-22s simple=%v -> %q err=%v", c.name, simple, s, err)
			if err != nil && strings.HasPrefix(err.Error(), "PANIC") {
				t.Errorf("VIOLATION: %s: encoding panicked: %v", c.name, err)
			}
		}
	}
	// reference counting after a typed nil error in reference mode
	x := "hello"
	s, err := zzR2Enc(false, []interface{}{ns, x, nd, x, x})
	t.Logf("refs: %q %v", s, err)
	var out []interface{}
	dec := NewDecoder([]byte(s)).Simple(false)
	dec.Decode(&out)
	t.Logf("decoded: %v err=%v", out, dec.Error)
}

// 65 pointers deep
func TestZZR2DeepPointerType(t *testing.T) {
	mk := func(base reflect.Type, n int) reflect.Type {
		for i := 0; i < n; i++ {
			base = reflect.PtrTo(base)
		}
		return base
	}
	for _, n := range []int{3, 63, 64, 65, 66, 70} {
		for _, base := range []reflect.Type{reflect.TypeOf(0), reflect.TypeOf(func() {}), reflect.TypeOf(make(chan int))} {
			ft := mk(base, n)
			st := reflect.StructOf([]reflect.StructField{{Name: "A", Type: reflect.TypeOf(0)}, {Name: "P", Type: ft}, {Name: "Z", Type: reflect.TypeOf(0)}})
			v := reflect.New(st).Elem()
			v.Field(0).SetInt(1)
			v.Field(2).SetInt(2)
			// build the chain down to a value
			cur := reflect.New(base).Elem()
			if base.Kind() == reflect.Int {
				cur.SetInt(7)
			}
			for i := 0; i < n; i++ {
				p := reflect.New(cur.Type())
				p.Elem().Set(cur)
				cur = p
			}
			v.Field(1).Set(cur)
			s, err := zzR2Enc(true, v.Interface())
			t.Logf("n=%d base=%s -> %q err=%v", n, base.Kind(), s, err)
			switch base.Kind() {
			case reflect.Int:
				if err != nil || !strings.Contains(s, "7") {
					t.Errorf("VIOLATION: %d pointers to int: %q %v", n, s, err)
				}
			default:
				// a func / chan field is left out of the struct (as for 1..64 pointers)
				if err != nil || strings.Contains(s, `"p"`) {
					t.Errorf("VIOLATION: %d pointers to %s: the field is not left out: %q err=%v", n, base.Kind(), s, err)
				}
			}
		}
	}
}

// references converted from text into bytes: who shares storage with whom
func TestZZR2ConvertedSharing(t *testing.T) {
	for _, n := range []int{10, 63, 64, 200} {
		text := strings.Repeat("a", n)
		var out struct {
			A []byte
			B []byte
			C []byte
			S string
		}
		// build by hand: m4{ "a" s.. "b" r "c" r "s" r }
		ref := "r1;"
		hand := `m4{uas` + itoa(n) + `"` + text + `"ub` + ref + `uc` + ref + `us` + ref + `}`
		dec := NewDecoder([]byte(hand)).Simple(false)
		dec.Decode(&out)
		if dec.Error != nil {
			t.Fatalf("n=%d: %v", n, dec.Error)
		}
		out.B[0] = 'X'
		t.Logf("n=%d after B[0]='X': A=%.3s B=%.3s C=%.3s S=%.3s", n, out.A, out.B, out.C, out.S)
		if out.S[0] != 'a' {
			t.Errorf("VIOLATION: n=%d: a write through []byte changed the string destination", n)
		}
		if out.C[0] == 'X' {
			t.Errorf("VIOLATION: n=%d: a write through one []byte destination changed another one (and only for texts of 64 bytes and more: the destinations of shorter texts are independent)", n)
		}
	}
}

func itoa(n int) string {
	return string(AppendUint64(nil, uint64(n)))
}
