package io

import (
	"fmt"
	"math/big"
	"reflect"
	"strings"
	"testing"
)

func TestZZR2Uint8Slice(t *testing.T) {
	for _, in := range []string{
		`a2{a3{12s1"3"}r1;}`,   // [][]byte, second refers to the first
		`a3{a2{s1"1"2}r1;r2;}`, // r1 -> list; r2 -> the string "1" -> as bytes
		`a2{a2{r0;1}a1{2}}`,    // reference to the outer list from an element
		`a2{a2{r1;1}a1{2}}`,    // reference to the list itself from inside
		`a2{a3{12z}r1;}`,       // error in the middle
		`a2{a3{12`,             // cut
		`a3{a3{12s1"3"}s1"3"r2;}`,
		`a3{a3{12s1"3"}r2;r1;}`,
	} {
		for _, simple := range []bool{false, true} {
			var out [][]byte
			dec := NewDecoder([]byte(in)).Simple(simple)
			func() {
				defer func() {
					if r := recover(); r != nil {
						t.Errorf("VIOLATION: %q simple=%v panicked: %v", in, simple, r)
					}
				}()
				dec.Decode(&out)
			}()
			t.Logf("%q simple=%v -> %v err=%v refs=%d", in, simple, out, dec.Error, len(dec.refer.ref))
		}
	}
	// a struct with []byte read from a list and a later reference to a string
	var v struct {
		A []byte
		S string
		T string
	}
	dec := NewDecoder([]byte(`m3{s1"a"a2{1s1"2"}s1"s"s3"abc"s1"t"r5;}`)).Simple(false)
	dec.Decode(&v)
	t.Logf("struct: %+v err=%v", v, dec.Error)
}

func TestZZR2ErrorTag(t *testing.T) {
	for _, in := range []string{`Es3"abc"`, `Eu` + "x", `Ee`, `Er0;`, `a2{s3"abc"Er1;}`, `EE`, `E`, `Ei1;`, `Eb3"abc"`, `Es3"ab`, `En`, strings.Repeat("E", 100000)} {
		for _, dst := range []string{"iface", "int", "struct"} {
			dec := NewDecoder([]byte(in)).Simple(false)
			switch dst {
			case "iface":
				var v interface{}
				dec.Decode(&v)
			case "int":
				var v int
				dec.Decode(&v)
			case "struct":
				var v zzR2ErrHolder
				dec.Decode(&v)
			}
			show := in
			if len(show) > 30 {
				show = show[:30] + "..."
			}
			t.Logf("%q -> %s: err=%q (%T) consumed=%d/%d", show, dst, fmt.Sprint(dec.Error), dec.Error, dec.head, len(in))
			if dec.Error == nil {
				t.Errorf("VIOLATION: %q into %s: no error", show, dst)
			}
		}
	}
}

func TestZZR2BigAndComplex(t *testing.T) {
	for _, in := range []string{`d1e400;`, `d1e99999999999;`, `d-1e99999999999;`, `dInf;`, `I+`, `I-`, `N`, `d1e2;`, `d1.5;`, `d1e16384;`} {
		var b *big.Int
		dec := NewDecoder([]byte(in))
		dec.Decode(&b)
		s := "<nil>"
		if b != nil {
			s = b.String()
			if len(s) > 20 {
				s = s[:20] + fmt.Sprintf("...(%d digits)", len(s))
			}
		}
		t.Logf("bigint %q -> %s err=%v", in, s, dec.Error)
	}
	for _, in := range []string{`s5"1_000"`, `s3"1+i"`, `s6"1e6_4+i"`, `s9"(1_0+2_0i)"`, `s4"0x_1"`} {
		var c complex128
		dec := NewDecoder([]byte(in))
		dec.Decode(&c)
		t.Logf("complex %q -> %v err=%v", in, c, dec.Error)
	}
}

func TestZZR2PtrCopy(t *testing.T) {
	type one struct{ P *int }
	x := 7
	srcs := []interface{}{map[string]int{"a": 1}, one{&x}, [1]*int{&x}, [1]map[string]int{{"a": 1}}, func() {}, make(chan int), struct{ M map[string]int }{map[string]int{"k": 2}}}
	for _, src := range srcs {
		func() {
			defer func() {
				if r := recover(); r != nil {
					t.Errorf("VIOLATION: Convert(%T) to pointer panicked: %v", src, r)
				}
			}()
			out, err := Convert(src, reflect.PtrTo(reflect.TypeOf(src)))
			if err != nil {
				t.Logf("Convert(%T): err=%v", src, err)
				return
			}
			got := reflect.ValueOf(out).Elem().Interface()
			if reflect.TypeOf(src).Kind() == reflect.Func || reflect.TypeOf(src).Kind() == reflect.Chan {
				t.Logf("Convert(%T): ok (ptr non-nil=%v)", src, !reflect.ValueOf(out).IsNil())
				return
			}
			if !reflect.DeepEqual(got, src) {
				t.Errorf("VIOLATION: Convert(%T) to pointer: got %#v want %#v", src, got, src)
			} else {
				t.Logf("Convert(%T): ok", src)
			}
		}()
	}
}

type zzR2Stringer interface{ String() string }

func TestZZR2InterfacePtr(t *testing.T) {
	// *error destinations on several paths
	for _, in := range []string{`n`, `Es3"abc"`, `s3"abc"`, `i1;`} {
		func() {
			defer func() {
				if r := recover(); r != nil {
					t.Errorf("VIOLATION: %q into *error panicked: %v", in, r)
				}
			}()
			var pe *error
			dec := NewDecoder([]byte(in))
			dec.Decode(&pe)
			t.Logf("%q -> *error %v (deref %v) err=%v", in, pe, func() interface{} {
				if pe != nil {
					return *pe
				}
				return nil
			}(), dec.Error)
			var ppe **error
			dec = NewDecoder([]byte(in))
			dec.Decode(&ppe)
			t.Logf("%q -> **error %v err=%v", in, ppe, dec.Error)
			var h struct {
				E *error
				S *zzR2Stringer
				L []*error
			}
			dec = NewDecoder([]byte(`m3{s1"e"` + in + `s1"s"` + in + `s1"l"a1{` + in + `}}`))
			dec.Decode(&h)
			t.Logf("%q -> struct %+v err=%v", in, h, dec.Error)
			r := NewDecoder([]byte(in)).Read(reflect.TypeOf((*error)(nil)))
			t.Logf("%q -> Read(*error) %v", in, r)
		}()
	}
}
