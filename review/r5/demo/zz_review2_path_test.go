package io

import (
	"strings"
	"testing"
)

type zzR2Tree struct {
	L, R *zzR2Tree
	V    interface{}
	S    []interface{}
	M    map[string]interface{}
}

// acyclic values that reach the same pointer / map / slice several times below depth 1000
func TestZZR2NoFalseCycle(t *testing.T) {
	for _, simple := range []bool{true, false} {
		shared := &zzR2Tree{V: 1}
		sharedMap := map[string]interface{}{"k": 1}
		backing := []interface{}{1, 2, 3}
		sub := backing[:3:3] // same start and length, other capacity
		bottom := &zzR2Tree{L: shared, R: shared, V: shared, S: []interface{}{shared, sharedMap, backing, sub, backing[:2], backing[1:]}, M: map[string]interface{}{"a": sharedMap, "b": sharedMap, "c": shared}}
		// a slice inside the slice that has the same start: element 0 of outer is outer[:1]'s
		// sibling, not itself
		outer := make([]interface{}, 2)
		outer[1] = 5
		inner := outer[1:2]
		outer[0] = inner
		bottom.S = append(bottom.S, outer)
		var top interface{} = bottom
		for i := 0; i < 1200; i++ {
			switch i % 4 {
			case 0:
				top = &zzR2Tree{L: top.(*zzR2Tree)}
			case 1:
				top = []interface{}{top}
			case 2:
				top = map[string]interface{}{"x": top}
			case 3:
				top = &zzR2Tree{V: top}
			}
		}
		enc := new(Encoder).Simple(simple)
		if err := enc.Encode(top); err != nil {
			t.Errorf("VIOLATION: simple=%v: acyclic value refused: %v", simple, err)
			continue
		}
		first := enc.Bytes()
		// the same value again on the same encoder (no Reset), through Write, and after Reset
		enc.ResetBuffer()
		if err := enc.Write(top); err != nil {
			t.Errorf("VIOLATION: simple=%v: second time (Write) refused: %v", simple, err)
		}
		enc.ResetBuffer().Reset()
		if err := enc.Encode(top); err != nil || len(enc.Bytes()) != len(first) {
			t.Errorf("VIOLATION: simple=%v: third time differs: %v", simple, err)
		}
		if enc.depth != 0 || len(enc.pathStack) != 0 || len(enc.path) != 0 {
			t.Errorf("VIOLATION: simple=%v: depth=%d stack=%d path=%d after encoding", simple, enc.depth, len(enc.pathStack), len(enc.path))
		}
		if simple && strings.Count(string(first), "n") > 40 {
			t.Logf("nulls: %d", strings.Count(string(first), "n"))
		}
	}
}

type zzR2Panicker struct{}

func (zzR2Panicker) Error() string { panic("boom") }

// a panic below depth 1000 leaves the encoder balanced, and a cycle is refused afterwards
func TestZZR2PanicBalance(t *testing.T) {
	var top interface{} = []interface{}{&zzR2Tree{V: 1}, zzR2Panicker{}}
	for i := 0; i < 1100; i++ {
		top = []interface{}{top}
	}
	enc := new(Encoder).Simple(true)
	func() {
		defer func() { recover() }()
		_ = enc.Encode(top)
	}()
	if enc.depth != 0 || len(enc.pathStack) != 0 || len(enc.path) != 0 {
		t.Errorf("VIOLATION: after a panic: depth=%d stack=%d path=%d", enc.depth, len(enc.pathStack), len(enc.path))
	}
	enc.ResetBuffer().Reset()
	var good interface{} = 1
	for i := 0; i < 1100; i++ {
		good = []interface{}{good}
	}
	if err := enc.Encode(good); err != nil {
		t.Errorf("VIOLATION: good value after a panic refused: %v", err)
	}
}

// pool reuse after an error
func TestZZR2PoolAfterError(t *testing.T) {
	n := &zzR2Plain2{}
	n.A = n
	for i := 0; i < 50; i++ {
		enc := GetEncoder().Simple(true)
		err := enc.Encode(n)
		if err == nil {
			t.Errorf("VIOLATION: cycle accepted")
		}
		FreeEncoder(enc)
		enc = GetEncoder()
		if err := enc.Encode([]interface{}{1, "a"}); err != nil || string(enc.Buffer()) != `a2{1ua}` {
			t.Errorf("VIOLATION: pooled encoder after error: %q %v", enc.Buffer(), err)
		}
		FreeEncoder(enc)
	}
}

type zzR2Plain2 struct{ A *zzR2Plain2 }
