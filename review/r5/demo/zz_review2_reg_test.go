package io

import (
	"reflect"
	"strings"
	"sync"
	"testing"
	"time"
)

type zzR2RegInner struct {
	Val int `json:"v" other:"w"`
}
type zzR2RegOuter struct {
	In  zzR2RegInner
	InP *zzR2RegInner
	Ls  []zzR2RegInner
}
type zzR2RegRec struct {
	Name string `json:"n" other:"m"`
	Next *zzR2RegRec
}

func TestZZR2RegisterRace(t *testing.T) {
	var wg sync.WaitGroup
	stop := make(chan struct{})
	var mu sync.Mutex
	var bad []string
	report := func(s string) {
		mu.Lock()
		if len(bad) < 5 {
			bad = append(bad, s)
		}
		mu.Unlock()
	}
	for g := 0; g < 4; g++ {
		wg.Add(1)
		go func() {
			defer wg.Done()
			for {
				select {
				case <-stop:
					return
				default:
				}
				v := zzR2RegOuter{zzR2RegInner{1}, &zzR2RegInner{2}, []zzR2RegInner{{3}}}
				data, err := Marshal(v)
				if err != nil {
					report("marshal: " + err.Error())
					continue
				}
				s := string(data)
				if !(strings.Contains(s, `s1"v"`) || strings.Contains(s, `s1"w"`)) {
					report("field name: " + s)
				}
				var out zzR2RegOuter
				if err := Unmarshal(data, &out); err != nil {
					report("unmarshal: " + err.Error() + " " + s)
					continue
				}
				// a registration between Marshal and Unmarshal changes the names: only
				// complain when the field names on the wire are the ones of one registration
				_ = out
				r := &zzR2RegRec{"a", &zzR2RegRec{"b", nil}}
				data, err = Marshal(r)
				if err != nil {
					report("marshal rec: " + err.Error())
				}
				var ro *zzR2RegRec
				_ = Unmarshal(data, &ro)
			}
		}()
	}
	wg.Add(1)
	go func() {
		defer wg.Done()
		for i := 0; i < 2000; i++ {
			Register((*zzR2RegInner)(nil), "other")
			Register((*zzR2RegRec)(nil), "other")
			Register((*zzR2RegOuter)(nil))
			Register((*zzR2RegInner)(nil))
			Register((*zzR2RegRec)(nil))
			RegisterName("Alias", (*zzR2RegInner)(nil), "json")
		}
		close(stop)
	}()
	done := make(chan struct{})
	go func() { wg.Wait(); close(done) }()
	select {
	case <-done:
	case <-time.After(120 * time.Second):
		t.Fatalf("VIOLATION: registration racing with use did not finish (deadlock?)")
	}
	for _, b := range bad {
		t.Errorf("VIOLATION: %s", b)
	}
	// the state at rest: last registration of Inner was RegisterName("Alias", ..., "json")
	v := zzR2RegOuter{zzR2RegInner{1}, &zzR2RegInner{2}, []zzR2RegInner{{3}}}
	data, _ := Marshal(v)
	t.Logf("%s", data)
	var out zzR2RegOuter
	if err := Unmarshal(data, &out); err != nil || !reflect.DeepEqual(out, v) {
		t.Errorf("VIOLATION: round trip after registrations: %+v err=%v", out, err)
	}
	var any interface{}
	_ = Unmarshal(data, &any)
	t.Logf("%#v", any)
}

type zzR2TwoNames struct{ A int }
type zzR2First struct {
	A int `x:"xa" y:"ya"`
}

func TestZZR2RegisterSemantics(t *testing.T) {
	// first use, then Register with tag, then Register without
	d0, _ := Marshal(zzR2First{1})
	Register(zzR2First{}, "x")
	d1, _ := Marshal(zzR2First{1})
	Register(zzR2First{}, "y")
	d2, _ := Marshal(zzR2First{1})
	Register(zzR2First{})
	d3, _ := Marshal(zzR2First{1})
	t.Logf("%s | %s | %s | %s", d0, d1, d2, d3)
	var o zzR2First
	if err := Unmarshal(d3, &o); err != nil || o.A != 1 {
		t.Errorf("VIOLATION: d3 round trip %+v %v", o, err)
	}
	var i interface{}
	if err := Unmarshal(d3, &i); err != nil {
		t.Errorf("VIOLATION: %v", err)
	} else if p, ok := i.(*zzR2First); !ok || p.A != 1 {
		t.Errorf("VIOLATION: d3 into interface{}: %#v", i)
	}
	if !strings.Contains(string(d1), "xa") || !strings.Contains(string(d2), "ya") || !strings.Contains(string(d3), `s1"a"`) {
		t.Errorf("VIOLATION: names: %s | %s | %s", d1, d2, d3)
	}
	// two names for one type
	RegisterName("NameOne", zzR2TwoNames{})
	a, _ := Marshal(zzR2TwoNames{1})
	RegisterName("NameTwo", zzR2TwoNames{})
	b, _ := Marshal(zzR2TwoNames{1})
	t.Logf("%s | %s", a, b)
	for _, d := range [][]byte{a, b} {
		var i interface{}
		if err := Unmarshal(d, &i); err != nil {
			t.Errorf("VIOLATION: %v", err)
		} else if p, ok := i.(*zzR2TwoNames); !ok || p.A != 1 {
			t.Errorf("VIOLATION: %s into interface{}: %#v", d, i)
		}
	}
	// anonymous struct with an alias
	anon := struct{ Q int }{5}
	RegisterName("AnonAlias", anon)
	c, err := Marshal(anon)
	t.Logf("%s %v", c, err)
	var back interface{}
	err = Unmarshal(c, &back)
	t.Logf("%#v %v", back, err)
	c2, err := Marshal(&anon)
	t.Logf("%s %v", c2, err)
}
