package io

import (
	"fmt"
	"os"
	"os/exec"
	"runtime/debug"
	"strconv"
	"strings"
	"testing"
)

var zzR2StackEnc *Encoder
var zzR2LeafDepth int

type zzR2Leaf struct{}

func (zzR2Leaf) Error() string {
	if zzR2StackEnc != nil {
		zzR2LeafDepth = zzR2StackEnc.depth
	}
	return "x"
}

type zzR2IfNode struct{ Next interface{} }
type zzR2PtrNode struct {
	Next *zzR2PtrNode
	Leaf interface{}
}
type zzR2KidsNode struct{ Kids []*zzR2KidsNode; Leaf interface{} }
type zzR2IKidsNode struct{ Kids []interface{} }
type zzR2MapNode struct{ M map[string]*zzR2MapNode; Leaf interface{} }
type zzR2M map[string]zzR2M
type zzR2L []zzR2L
type zzR2ValNode struct{ Next []zzR2ValNode; Leaf interface{} }
type zzR2AnonHolder struct {
	Next interface{}
}

var zzR2LeafValue interface{} = zzR2Leaf{}

func zzR2Build(shape string, levels int) interface{} {
	var leaf interface{} = zzR2LeafValue
	switch shape {
	case "list":
		v := leaf
		for i := 0; i < levels; i++ {
			v = []interface{}{v}
		}
		return v
	case "simap":
		v := leaf
		for i := 0; i < levels; i++ {
			v = map[string]interface{}{"k": v}
		}
		return v
	case "iimap":
		v := leaf
		for i := 0; i < levels; i++ {
			v = map[interface{}]interface{}{1: v}
		}
		return v
	case "othermap":
		v := leaf
		for i := 0; i < levels; i++ {
			v = map[float64]interface{}{1: v}
		}
		return v
	case "array":
		v := leaf
		for i := 0; i < levels; i++ {
			v = [1]interface{}{v}
		}
		return v
	case "array2":
		v := leaf
		for i := 0; i < levels; i++ {
			v = [2]interface{}{0, v}
		}
		return v
	case "ifnode":
		v := leaf
		for i := 0; i < levels; i++ {
			v = &zzR2IfNode{v}
		}
		return v
	case "ifnodeval":
		v := leaf
		for i := 0; i < levels; i++ {
			v = zzR2IfNode{v}
		}
		return v
	case "ptrnode":
		n := &zzR2PtrNode{Leaf: leaf}
		for i := 0; i < levels; i++ {
			n = &zzR2PtrNode{Next: n}
		}
		return n
	case "kids":
		n := &zzR2KidsNode{Leaf: leaf}
		for i := 0; i < levels; i++ {
			n = &zzR2KidsNode{Kids: []*zzR2KidsNode{n}}
		}
		return n
	case "ikids":
		v := leaf
		for i := 0; i < levels; i++ {
			v = &zzR2IKidsNode{Kids: []interface{}{v}}
		}
		return v
	case "mapnode":
		n := &zzR2MapNode{Leaf: leaf}
		for i := 0; i < levels; i++ {
			n = &zzR2MapNode{M: map[string]*zzR2MapNode{"k": n}}
		}
		return n
	case "valnode":
		n := zzR2ValNode{Leaf: leaf}
		for i := 0; i < levels; i++ {
			n = zzR2ValNode{Next: []zzR2ValNode{n}}
		}
		return n
	case "ptriface":
		v := leaf
		for i := 0; i < levels; i++ {
			w := v
			v = &w
		}
		return v
	case "anon":
		v := leaf
		for i := 0; i < levels; i++ {
			v = &struct{ Next interface{} }{v}
		}
		return v
	case "anonmap":
		v := leaf
		for i := 0; i < levels; i++ {
			v = map[interface{}]interface{}{"a": &struct{ Next interface{} }{[]interface{}{v}}}
		}
		return v
	}
	panic("unknown shape " + shape)
}

var zzR2Shapes = []string{"list", "simap", "iimap", "othermap", "array", "array2", "ifnode", "ifnodeval", "ptrnode", "kids", "ikids", "mapnode", "valnode", "ptriface", "anon", "anonmap"}

// child: ZZR2_SHAPE, ZZR2_STEPS, ZZR2_MAXSTACK (bytes, 0 = default), ZZR2_SIMPLE
func TestZZR2StackChild(t *testing.T) {
	shape := os.Getenv("ZZR2_SHAPE")
	if shape == "" {
		t.Skip("child only")
	}
	steps, _ := strconv.Atoi(os.Getenv("ZZR2_STEPS"))
	maxStack, _ := strconv.Atoi(os.Getenv("ZZR2_MAXSTACK"))
	simple := os.Getenv("ZZR2_SIMPLE") == "1"
	const probe = 500
	enc := new(Encoder).Simple(simple)
	zzR2StackEnc = enc
	if err := enc.Encode(zzR2Build(shape, probe)); err != nil {
		t.Fatalf("probe: %v", err)
	}
	d := zzR2LeafDepth
	levels := steps * probe / d
	fmt.Printf("ZZR2 shape=%s depthAtLeaf(probe %d levels)=%d levels=%d\n", shape, probe, d, levels)
	v := zzR2Build(shape, levels)
	if maxStack > 0 {
		debug.SetMaxStack(maxStack)
	}
	enc = new(Encoder).Simple(simple)
	zzR2StackEnc = enc
	zzR2LeafDepth = 0
	err := enc.Encode(v)
	fmt.Printf("ZZR2 DONE shape=%s leafDepth=%d err=%v bytes=%d\n", shape, zzR2LeafDepth, err, len(enc.Buffer()))
}

func zzR2RunChild(t *testing.T, run string, env ...string) (string, error) {
	cmd := exec.Command(os.Args[0], "-test.run=^"+run+"$", "-test.v")
	cmd.Env = append(os.Environ(), env...)
	out, err := cmd.CombinedOutput()
	s := string(out)
	if len(s) > 3000 {
		// keep the head: the fatal error line and the first frames
		s = s[:3000]
	}
	return s, err
}

// scaled: 1/8 of the steps with 1/8 of the stack the runtime allows (512 MiB is the largest
// power of two below the 1e9 limit)
func TestZZR2StackScaled(t *testing.T) {
	if os.Getenv("ZZR2_SCALED") == "" {
		t.Skip("set ZZR2_SCALED=1")
	}
	for _, shape := range zzR2Shapes {
		for _, simple := range []string{"0", "1"} {
			out, err := zzR2RunChild(t, "TestZZR2StackChild", "ZZR2_SHAPE="+shape, "ZZR2_STEPS=49990", "ZZR2_MAXSTACK=67108864", "ZZR2_SIMPLE="+simple)
			var lines []string
			for _, l := range strings.Split(out, "\n") {
				if strings.HasPrefix(l, "ZZR2") || strings.Contains(l, "stack") && len(lines) < 6 {
					lines = append(lines, l)
				}
			}
			t.Logf("shape=%s simple=%s err=%v\n%s", shape, simple, err, strings.Join(lines, "\n"))
		}
	}
}
