package io

import (
	"bytes"
	"fmt"
	"io"
	"os"
	"reflect"
	"runtime/debug"
	"strconv"
	"strings"
	"testing"
)

type zzR2CutReader struct {
	data  []byte
	dec   *Decoder
	depth int
	calls int
}

func (r *zzR2CutReader) Read(p []byte) (int, error) {
	r.calls++
	if len(r.data) > 0 {
		n := copy(p, r.data)
		r.data = r.data[n:]
		return n, nil
	}
	if r.dec != nil && r.dec.depth > r.depth {
		r.depth = r.dec.depth
	}
	return 0, io.EOF
}

func zzR2DecData(shape string, levels int) []byte {
	zzR2LeafValue = "LEAFMARK"
	enc := new(Encoder).Simple(false)
	if err := enc.Encode(zzR2Build(shape, levels)); err != nil {
		panic(err)
	}
	data := enc.Bytes()
	i := bytes.Index(data, []byte(`s8"LEAFMARK"`))
	if i < 0 {
		panic("no leaf")
	}
	return data[:i]
}

func zzR2DecDest(dest string) interface{} {
	switch dest {
	case "iface":
		return new(interface{})
	case "ilist":
		return new([]interface{})
	case "simap":
		return new(map[string]interface{})
	case "iimap":
		return new(map[interface{}]interface{})
	case "ifnode":
		return new(*zzR2IfNode)
	case "ifnodeval":
		return new(zzR2IfNode)
	case "ptrnode":
		return new(*zzR2PtrNode)
	case "kids":
		return new(*zzR2KidsNode)
	case "ikids":
		return new(*zzR2IKidsNode)
	case "mapnode":
		return new(*zzR2MapNode)
	case "valnode":
		return new(zzR2ValNode)
	}
	panic("unknown dest " + dest)
}

// child: ZZR2_DSHAPE, ZZR2_DEST, ZZR2_DEPTH, ZZR2_MAXSTACK, ZZR2_MAPTYPE
func TestZZR2DecStackChild(t *testing.T) {
	shape := os.Getenv("ZZR2_DSHAPE")
	if shape == "" {
		t.Skip("child only")
	}
	dest := os.Getenv("ZZR2_DEST")
	depth, _ := strconv.Atoi(os.Getenv("ZZR2_DEPTH"))
	maxStack, _ := strconv.Atoi(os.Getenv("ZZR2_MAXSTACK"))
	Register((*zzR2IfNode)(nil))
	Register((*zzR2PtrNode)(nil))
	Register((*zzR2KidsNode)(nil))
	Register((*zzR2IKidsNode)(nil))
	Register((*zzR2MapNode)(nil))
	Register((*zzR2ValNode)(nil))
	run := func(levels int) (int, error) {
		data := zzR2DecData(shape, levels)
		r := &zzR2CutReader{data: data}
		dec := NewDecoderFromReader(r, len(data)+16).Simple(false)
		if os.Getenv("ZZR2_MAPTYPE") == "si" {
			dec.MapType = MapTypeSIMap
		}
		if os.Getenv("ZZR2_STRUCTTYPE") == "value" {
			dec.StructType = StructTypeValue
		}
		r.dec = dec
		dec.Decode(zzR2DecDest(dest))
		return r.depth, dec.Error
	}
	const probe = 200
	d, err := run(probe)
	levels := depth * probe / d
	fmt.Printf("ZZR2 dshape=%s dest=%s probeDepth=%d (err %v) levels=%d\n", shape, dest, d, err, levels)
	if maxStack > 0 {
		debug.SetMaxStack(maxStack)
	}
	d, err = run(levels)
	fmt.Printf("ZZR2 DONE dshape=%s dest=%s depthAtLeaf=%d err=%v\n", shape, dest, d, err)
	_ = reflect.TypeOf
}

var zzR2DecCases = [][2]string{
	{"list", "iface"}, {"list", "ilist"},
	{"simap", "iface"}, {"simap", "simap"}, {"simap", "iimap"},
	{"iimap", "iface"},
	{"ifnode", "iface"}, {"ifnode", "ifnode"}, {"ifnode", "ifnodeval"}, {"ifnode", "simap"},
	{"ptrnode", "iface"}, {"ptrnode", "ptrnode"},
	{"kids", "iface"}, {"kids", "kids"},
	{"ikids", "iface"}, {"ikids", "ikids"},
	{"mapnode", "iface"}, {"mapnode", "mapnode"},
	{"valnode", "iface"}, {"valnode", "valnode"},
	{"anon", "iface"}, {"anon", "ifnode"},
	{"anonmap", "iface"},
}

func TestZZR2DecStackScaled(t *testing.T) {
	if os.Getenv("ZZR2_SCALED") == "" {
		t.Skip("set ZZR2_SCALED=1")
	}
	for _, c := range zzR2DecCases {
		for _, extra := range []string{"", "ZZR2_MAPTYPE=si", "ZZR2_STRUCTTYPE=value"} {
			out, err := zzR2RunChild(t, "TestZZR2DecStackChild", "ZZR2_DSHAPE="+c[0], "ZZR2_DEST="+c[1], "ZZR2_DEPTH=24990", "ZZR2_MAXSTACK=67108864", extra)
			var lines []string
			for _, l := range strings.Split(out, "\n") {
				if strings.HasPrefix(l, "ZZR2") || (strings.Contains(l, "stack") || strings.Contains(l, "panic")) && len(lines) < 6 {
					lines = append(lines, l)
				}
			}
			t.Logf("case=%v %s err=%v\n%s", c, extra, err, strings.Join(lines, "\n"))
		}
	}
}
