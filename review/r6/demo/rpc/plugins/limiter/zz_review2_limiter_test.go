package limiter

import (
	"context"
	"testing"
	"time"
)

// 58158c4 turns a caller away without charging it when its DEADLINE comes before its permits
// are due. A caller whose context is already done for another reason (cancelled: the client was
// aborted, the http request was dropped) has no deadline to compare: it is still charged, gives
// up at once, and pushes the next free instant out - the very effect the commit describes.
func TestReview2CancelledCallersStillTakeTokens(t *testing.T) {
	l := NewRateLimiter(10) // 10 permits per second
	gone, cancel := context.WithCancel(context.Background())
	cancel()
	refused := 0
	for i := 0; i < 300; i++ {
		if err := l.Acquire(gone, 1); err != nil {
			refused++
		}
	}
	t.Logf("%d of 300 cancelled callers were refused", refused)
	// a patient caller now: 2 seconds are twenty permits' worth of patience
	ctx, cancel2 := context.WithTimeout(context.Background(), 2*time.Second)
	defer cancel2()
	start := time.Now()
	err := l.Acquire(ctx, 1)
	if err != nil {
		t.Errorf("VIOLATION: after 300 callers that had already given up (all returned an error, none made a call) a caller with 2s of patience is turned away by a 10/s limiter after %v: %v (the limiter is shut for about %ds)", time.Since(start), err, refused/10)
	}
}

// the same with deadlines that are past while the limiter is open is bounded: checked, no finding
func TestReview2ExpiredCallersOnAnOpenLimiter(t *testing.T) {
	l := NewRateLimiter(10)
	past, cancel := context.WithDeadline(context.Background(), time.Now().Add(-time.Second))
	defer cancel()
	admitted := 0
	for i := 0; i < 300; i++ {
		if err := l.Acquire(past, 1); err == nil {
			admitted++
		}
	}
	ctx, cancel2 := context.WithTimeout(context.Background(), 2*time.Second)
	defer cancel2()
	err := l.Acquire(ctx, 1)
	t.Logf("admitted with a past deadline: %d; the patient caller: %v", admitted, err)
}
