package log

import (
	"bytes"
	"os"
	"os/exec"
	"runtime/debug"
	"strings"
	"testing"

	"github.com/hprose/hprose-golang/v3/rpc/core"
	"github.com/hprose/hprose-golang/v3/rpc/mock"
)

type review2Links struct { // the TYPE is not exported, its field is
	Next *Review2Node
}

// Review2Node embeds a struct of an unexported type: reflect reports the embedded field with a
// PkgPath (not exported), but encoding/json and jsoniter print its promoted exported fields.
type Review2Node struct {
	review2Links
	Name string
}

func review2Cycle() interface{} {
	n := &Review2Node{Name: "n"}
	n.Next = n
	return []interface{}{n}
}

// The child: prints the value the way the plugin does.
func TestReview2LogChild(t *testing.T) {
	if os.Getenv("REVIEW2_LOG_CHILD") == "" {
		t.Skip("helper of TestReview2LogEmbeddedCycle")
	}
	debug.SetMaxStack(32 << 20) // fail fast and small instead of growing to 1 GB
	l := New(func(v ...interface{}) {})
	l.print("args:", review2Cycle())
	os.Stdout.WriteString("REVIEW2-SURVIVED\n")
}

func TestReview2LogEmbeddedCycle(t *testing.T) {
	cmd := exec.Command(os.Args[0], "-test.run", "^TestReview2LogChild$", "-test.v")
	cmd.Env = append(os.Environ(), "REVIEW2_LOG_CHILD=1")
	var out bytes.Buffer
	cmd.Stdout, cmd.Stderr = &out, &out
	err := cmd.Run()
	s := out.String()
	if err != nil || !strings.Contains(s, "REVIEW2-SURVIVED") {
		head := s
		if len(head) > 300 {
			head = head[:300]
		}
		t.Errorf("VIOLATION: the log plugin killed the process printing a value that contains itself through an embedded struct of an unexported type (acyclic skips the embedded field, jsoniter follows it): %v\n%s", err, head)
	}
}

// The same from the wire: the service logs its calls; a client sends an object whose (promoted)
// field refers to the object itself. hprose/io fills the fields that embedded structs of
// unexported types promote, exactly like jsoniter prints them.
func TestReview2LogWireChild(t *testing.T) {
	if os.Getenv("REVIEW2_LOG_CHILD") == "" {
		t.Skip("helper of TestReview2LogEmbeddedCycleFromTheWire")
	}
	debug.SetMaxStack(32 << 20)
	mock.RegisterHandler()
	mock.RegisterTransport()
	service := core.NewService()
	service.Use(New(func(v ...interface{}) {}))
	service.AddFunction(func(n *Review2Node) string { return n.Name }, "name")
	server := mock.Server{Address: "review2LogWire"}
	if err := service.Bind(server); err != nil {
		t.Fatal(err)
	}
	defer server.Close()
	client := core.NewClient("mock://review2LogWire")
	n := &Review2Node{Name: "n"}
	n.Next = n
	results, err := client.Invoke("name", []interface{}{n})
	os.Stdout.WriteString("REVIEW2-SURVIVED\n")
	t.Log(results, err)
}

func TestReview2LogEmbeddedCycleFromTheWire(t *testing.T) {
	cmd := exec.Command(os.Args[0], "-test.run", "^TestReview2LogWireChild$", "-test.v")
	cmd.Env = append(os.Environ(), "REVIEW2_LOG_CHILD=1")
	var out bytes.Buffer
	cmd.Stdout, cmd.Stderr = &out, &out
	err := cmd.Run()
	s := out.String()
	if err != nil || !strings.Contains(s, "REVIEW2-SURVIVED") {
		head := s
		if len(head) > 300 {
			head = head[:300]
		}
		t.Errorf("VIOLATION: a request whose argument contains itself killed the service that logs its calls: %v\n%s", err, head)
	} else {
		t.Log(s)
	}
}
