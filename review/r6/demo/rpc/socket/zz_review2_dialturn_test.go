package socket_test

import (
	"net"
	"sync/atomic"
	"testing"
	"time"

	"github.com/hprose/hprose-golang/v3/rpc/core"
	socket "github.com/hprose/hprose-golang/v3/rpc/socket"
)

// A panic in the user's OnConnect callback (or anywhere in newConn) leaves the dial turn of
// getConn open for ever: trans.dials[key] is neither deleted nor closed. The panic itself
// reaches the caller (as before), but since e0a1110 every LATER call to that server finds "a
// dial under way" and waits for it until its own context ends - the client never dials again.
func TestReview2OnConnectPanicLeavesDialTurnOpen(t *testing.T) {
	service := core.NewService()
	service.AddFunction(func(name string) string { return "hello " + name }, "hello")
	server, err := net.Listen("tcp", "127.0.0.1:8412")
	if err != nil {
		t.Fatal(err)
	}
	defer server.Close()
	if err = service.Bind(server); err != nil {
		t.Fatal(err)
	}
	time.Sleep(20 * time.Millisecond)

	client := core.NewClient("tcp://127.0.0.1/")
	client.Timeout = 3 * time.Second
	var first int32
	client.GetTransport("socket").(*socket.Transport).OnConnect = func(c net.Conn) net.Conn {
		if atomic.AddInt32(&first, 1) == 1 {
			panic("OnConnect: first connection refused by the application")
		}
		return c
	}
	var proxy struct {
		Hello func(name string) (string, error)
	}
	client.UseService(&proxy)

	func() {
		defer func() {
			if p := recover(); p == nil {
				t.Log("the first call did not panic")
			}
		}()
		_, _ = proxy.Hello("one")
	}()

	start := time.Now()
	result, err := proxy.Hello("two")
	elapsed := time.Since(start)
	if err != nil || result != "hello two" {
		t.Errorf("VIOLATION: after one panic in OnConnect the next call did not dial again: result=%q err=%v after %v (OnConnect ran %d times); the dial turn in Transport.dials was never closed", result, err, elapsed, atomic.LoadInt32(&first))
	}
}
