package socket_test

import (
	"io/ioutil"
	"net"
	"sync"
	"syscall"
	"testing"
	"time"

	"github.com/hprose/hprose-golang/v3/rpc/core"
)

// review2Blackhole listens on 127.0.0.1:8412 with a full accept queue: further SYNs are dropped,
// a connect() to it retries until the kernel gives up (tcp_syn_retries), like to a host that is
// down or behind a dropping firewall.
func review2Blackhole(t *testing.T) (release func()) {
	fd, err := syscall.Socket(syscall.AF_INET, syscall.SOCK_STREAM, 0)
	if err != nil {
		t.Skip(err)
	}
	_ = syscall.SetsockoptInt(fd, syscall.SOL_SOCKET, syscall.SO_REUSEADDR, 1)
	if err = syscall.Bind(fd, &syscall.SockaddrInet4{Port: 8412, Addr: [4]byte{127, 0, 0, 1}}); err != nil {
		t.Skip(err)
	}
	if err = syscall.Listen(fd, 0); err != nil {
		t.Skip(err)
	}
	var held []net.Conn
	for i := 0; i < 8; i++ {
		c, err := net.DialTimeout("tcp", "127.0.0.1:8412", 300*time.Millisecond)
		if err != nil {
			return func() {
				for _, c := range held {
					c.Close()
				}
				syscall.Close(fd)
			}
		}
		held = append(held, c)
	}
	t.Skip("the accept queue did not fill up")
	return nil
}

// Callers without a deadline (Client.Timeout = 0... the library allows it) against a server that
// does not answer: until e0a1110 they all dialled at once and all failed after ONE connect
// time-out; now they dial one after the other, each with its own context, and the n-th fails
// after n connect time-outs.
func TestReview2WaitersDialOneAfterTheOther(t *testing.T) {
	// the connect time-out of this (private) network namespace: 1s + 2s
	if err := ioutil.WriteFile("/proc/sys/net/ipv4/tcp_syn_retries", []byte("1"), 0644); err != nil {
		t.Skip("can not shorten the connect time-out: ", err)
	}
	release := review2Blackhole(t)
	defer release()
	start := time.Now()
	c, err := net.Dial("tcp", "127.0.0.1:8412")
	if err == nil {
		c.Close()
		t.Skip("the blackhole accepts")
	}
	single := time.Since(start)
	t.Logf("one connect attempt fails after %v: %v", single, err)

	client := core.NewClient("tcp://127.0.0.1/")
	client.Timeout = 0 // no deadline
	const n = 4
	var wg sync.WaitGroup
	took := make([]time.Duration, n)
	start = time.Now()
	for i := 0; i < n; i++ {
		wg.Add(1)
		go func(i int) {
			defer wg.Done()
			_, err := client.Invoke("hello", []interface{}{"world"})
			took[i] = time.Since(start)
			if err == nil {
				t.Errorf("call %d succeeded?", i)
			}
		}(i)
	}
	wg.Wait()
	var longest time.Duration
	for _, d := range took {
		if d > longest {
			longest = d
		}
	}
	t.Logf("%d calls started together failed after %v", n, took)
	if longest > 2*single+time.Second {
		t.Errorf("VIOLATION: %d calls started together to a server that does not answer: the last one failed after %v, one connect time-out is %v (they dial one after the other)", n, longest, single)
	}
}
