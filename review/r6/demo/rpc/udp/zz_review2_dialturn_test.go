package udp_test

import (
	"net"
	"sync/atomic"
	"testing"
	"time"

	"github.com/hprose/hprose-golang/v3/rpc/core"
	udp "github.com/hprose/hprose-golang/v3/rpc/udp"
)

// see rpc/socket/zz_review2_dialturn_test.go: the same getConn, the same open dial turn
func TestReview2OnConnectPanicLeavesDialTurnOpen(t *testing.T) {
	service := core.NewService()
	service.AddFunction(func(name string) string { return "hello " + name }, "hello")
	addr, _ := net.ResolveUDPAddr("udp", "127.0.0.1:8412")
	server, err := net.ListenUDP("udp", addr)
	if err != nil {
		t.Fatal(err)
	}
	defer server.Close()
	if err = service.Bind(server); err != nil {
		t.Fatal(err)
	}
	time.Sleep(20 * time.Millisecond)

	client := core.NewClient("udp://127.0.0.1/")
	client.Timeout = 3 * time.Second
	var first int32
	client.GetTransport("udp").(*udp.Transport).OnConnect = func(c net.Conn) net.Conn {
		if atomic.AddInt32(&first, 1) == 1 {
			panic("OnConnect: first connection refused by the application")
		}
		return c
	}
	var proxy struct {
		Hello func(name string) (string, error)
	}
	client.UseService(&proxy)
	func() {
		defer func() { _ = recover() }()
		_, _ = proxy.Hello("one")
	}()
	start := time.Now()
	result, err := proxy.Hello("two")
	if err != nil || result != "hello two" {
		t.Errorf("VIOLATION: after one panic in OnConnect the next call did not dial again: result=%q err=%v after %v (OnConnect ran %d times)", result, err, time.Since(start), atomic.LoadInt32(&first))
	}
}
