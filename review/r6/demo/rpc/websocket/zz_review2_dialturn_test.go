package websocket_test

import (
	"net/http"
	"sync/atomic"
	"testing"
	"time"

	gws "github.com/fasthttp/websocket"
	"github.com/hprose/hprose-golang/v3/rpc/core"
	. "github.com/hprose/hprose-golang/v3/rpc/websocket"
)

// see rpc/socket/zz_review2_dialturn_test.go: the same getConn, the same open dial turn
func TestReview2OnConnectPanicLeavesDialTurnOpen(t *testing.T) {
	service := core.NewService()
	service.AddFunction(func(name string) string { return "hello " + name }, "hello")
	server := &http.Server{Addr: ":8000"}
	if err := service.Bind(server); err != nil {
		t.Fatal(err)
	}
	go server.ListenAndServe()
	defer server.Close()
	time.Sleep(50 * time.Millisecond)

	client := core.NewClient("ws://127.0.0.1:8000/")
	client.Timeout = 3 * time.Second
	var first int32
	client.GetTransport("websocket").(*Transport).OnConnect = func(c *gws.Conn) *gws.Conn {
		if atomic.AddInt32(&first, 1) == 1 {
			panic("OnConnect: first connection refused by the application")
		}
		return c
	}
	var proxy struct {
		Hello func(name string) (string, error)
	}
	client.UseService(&proxy)
	func() {
		defer func() { _ = recover() }()
		_, _ = proxy.Hello("one")
	}()
	start := time.Now()
	result, err := proxy.Hello("two")
	if err != nil || result != "hello two" {
		t.Errorf("VIOLATION: after one panic in OnConnect the next call did not dial again: result=%q err=%v after %v (OnConnect ran %d times)", result, err, time.Since(start), atomic.LoadInt32(&first))
	}
}
