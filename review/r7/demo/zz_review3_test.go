package io_test

import (
	"bytes"
	"fmt"
	"math"
	"math/cmplx"
	"os"
	"reflect"
	"runtime"
	"strconv"
	"strings"
	"testing"
	"time"

	hio "github.com/hprose/hprose-golang/v3/io"
)

type review3M map[string]interface{}

// nestedMapsThenRefs: a list whose first element is a chain of d maps nested one in the
// other, and whose other elements are references to each inner map of the chain.
func review3NestedMapsThenRefs(d int) []byte {
	var b bytes.Buffer
	fmt.Fprintf(&b, "a%d{", d)
	for i := 0; i < d; i++ {
		b.WriteString("m1{ua")
	}
	b.WriteString("n")
	for i := 0; i < d; i++ {
		b.WriteString("}")
	}
	// refs: 0 the list, 1 the outer map (read as review3M), 2..d the inner maps (read into interface{})
	for i := 2; i <= d; i++ {
		fmt.Fprintf(&b, "r%d;", i)
	}
	b.WriteString("}")
	return b.Bytes()
}

// review3Unmarshal reads one value with references on (what the rpc codec does).
func review3Unmarshal(data []byte, p interface{}) error {
	dec := hio.NewDecoder(data).Simple(false)
	dec.Decode(p)
	return dec.Error
}

func review3Measure(f func()) (time.Duration, uint64) {
	var m0, m1 runtime.MemStats
	runtime.GC()
	runtime.ReadMemStats(&m0)
	t0 := time.Now()
	f()
	el := time.Since(t0)
	runtime.ReadMemStats(&m1)
	return el, m1.TotalAlloc - m0.TotalAlloc
}

// 1. recode: every reference to an inner map of a chain re-encodes and re-decodes the rest of
// the chain, and keeps a deep copy of it: quadratic time and memory in the size of the input.
func TestReview3RecodeQuadratic(t *testing.T) {
	var prevAlloc uint64
	for _, d := range []int{500, 1000, 2000, 4000} {
		data := review3NestedMapsThenRefs(d)
		var dest []review3M
		var err error
		el, alloc := review3Measure(func() { err = review3Unmarshal(data, &dest) })
		t.Logf("d=%d stream=%d bytes err=%v len=%d time=%v alloc=%d bytes (%.0f x input)", d, len(data), err, len(dest), el, alloc, float64(alloc)/float64(len(data)))
		if prevAlloc != 0 && alloc > 3*prevAlloc {
			t.Errorf("VIOLATION: recode: input doubled (d=%d, %d bytes), allocation grew %.1fx (%d -> %d bytes): quadratic", d, len(data), float64(alloc)/float64(prevAlloc), prevAlloc, alloc)
		}
		if alloc > 2000*uint64(len(data)) {
			t.Errorf("VIOLATION: recode: a stream of %d bytes allocated %d bytes (%.0fx) in %v", len(data), alloc, float64(alloc)/float64(len(data)), el)
		}
		prevAlloc = alloc
	}
}

// 1b. the same with plain Go types only: destination []map[string]interface{} under the
// default MapType (inner maps come as map[interface{}]interface{}).
func TestReview3RecodeQuadraticPlainTypes(t *testing.T) {
	d := 3000
	data := review3NestedMapsThenRefs(d)
	var dest []map[string]interface{}
	var err error
	el, alloc := review3Measure(func() { err = review3Unmarshal(data, &dest) })
	t.Logf("d=%d stream=%d bytes err=%v len=%d time=%v alloc=%d (%.0fx)", d, len(data), err, len(dest), el, alloc, float64(alloc)/float64(len(data)))
	if alloc > 2000*uint64(len(data)) {
		t.Errorf("VIOLATION: recode into []map[string]interface{}: a stream of %d bytes allocated %d bytes (%.0fx) in %v", len(data), alloc, float64(alloc)/float64(len(data)), el)
	}
}

// 2. decodeLongAsInterface: a long of many digits into an interface{} under the default
// LongTypeInt is now parsed by big.Int.SetString (quadratic); before it was read in one pass.
func TestReview3LongDigitsQuadratic(t *testing.T) {
	var prev time.Duration
	for _, n := range []int{250000, 500000, 1000000, 2000000} {
		data := []byte("l" + strings.Repeat("9", n) + ";")
		var v interface{}
		var err error
		el, _ := review3Measure(func() { err = hio.Unmarshal(data, &v) })
		t.Logf("digits=%d err=%v type=%T time=%v", n, err, v, el)
		if prev > 20*time.Millisecond && el > 3*prev {
			t.Errorf("VIOLATION: long of %d digits into interface{} (default LongType): %v, %.1fx the time of half the digits: quadratic", n, el, float64(el)/float64(prev))
		}
		prev = el
	}
}

// 3. isGrowing: every reference to a slice from an interface{} destination scans the stack of
// growing lists; nested lists of count 17 are all "growing" once listFree is used up.
func review3GrowingChain(d int) []byte {
	var b bytes.Buffer
	b.WriteString("a17{a1{n}") // ref 0 the list, ref 1 a short list that is never growing
	b.WriteString(strings.Repeat("r1;", 15))
	for i := 1; i < d; i++ {
		b.WriteString("a17{")
		b.WriteString(strings.Repeat("r1;", 16))
	}
	b.WriteString("a{}")
	for i := 0; i < d; i++ {
		b.WriteString("}")
	}
	return b.Bytes()
}

func TestReview3IsGrowingQuadratic(t *testing.T) {
	var prev time.Duration
	for _, d := range []int{10000, 20000, 40000} {
		data := review3GrowingChain(d)
		var v interface{}
		var err error
		el, _ := review3Measure(func() { err = review3Unmarshal(data, &v) })
		t.Logf("depth=%d stream=%d bytes err=%v time=%v", d, len(data), err, el)
		if prev > 50*time.Millisecond && el > 3*prev {
			t.Errorf("VIOLATION: isGrowing: depth %d (%d bytes): %v, %.1fx the time of half the depth: quadratic", d, len(data), el, float64(el)/float64(prev))
		}
		prev = el
	}
}

// 4. recode of a container that is still being read: the partial copy is delivered silently
// and cached, and a later reference to the finished container gets the stale partial copy.
type Review3S struct {
	F review3M `hprose:"f"`
}

func TestReview3RecodeUnfinishedContainerCachedStale(t *testing.T) {
	hio.RegisterName("Review3S", (*Review3S)(nil))
	// [ {"a": S{f: ->map}, "b": 1}, S{f: ->map} ]
	data := []byte(`a2{m2{uac8"Review3S"1{s1"f"}o0{r1;}ub1}o0{r1;}}`)
	var v []interface{}
	err := review3Unmarshal(data, &v)
	if err != nil {
		t.Logf("error (acceptable): %v", err)
		return
	}
	if len(v) != 2 {
		t.Fatalf("len %d", len(v))
	}
	s2, ok := v[1].(*Review3S)
	if !ok {
		t.Fatalf("v[1] is %T", v[1])
	}
	t.Logf("v[0]=%v  v[1].F=%v", v[0], s2.F)
	if len(s2.F) != 2 {
		t.Errorf("VIOLATION: a reference to the finished map {a:..., b:1} read into a named map type delivers %v (len %d) without an error: the copy made while the map was still empty was cached", s2.F, len(s2.F))
	}
	if m, ok := v[0].(map[interface{}]interface{}); ok {
		if s1, ok := m["a"].(*Review3S); ok && len(s1.F) != 2 {
			t.Errorf("VIOLATION: a reference from inside a map to the map itself, typed destination: delivered %v (len %d) silently; before the change a cast error", s1.F, len(s1.F))
		}
	}
}

// 5. strConverter: bytes referred to by a named string, when the bytes were read into a typed
// []byte destination (the table holds *[]byte then).
type review3Str string

func TestReview3NamedStringRefersToTypedBytes(t *testing.T) {
	type T1 struct {
		A interface{}
		B review3Str
	}
	type T2 struct {
		A []byte
		B review3Str
	}
	type T3 struct {
		A []byte
		B string
	}
	data := []byte("a2{b3\"\xff\xfe\xfd\"r1;}")
	{
		var a interface{}
		var b review3Str
		dec := hio.NewDecoder([]byte("b3\"\xff\xfe\xfd\"r0;")).Simple(false)
		dec.Decode(&a)
		dec.Decode(&b)
		t.Logf("iface then named string: a=%v b=%q err=%v", a, b, dec.Error)
		if dec.Error != nil || string(b) != "\xff\xfe\xfd" {
			t.Errorf("VIOLATION: bytes in interface{} referred to by named string: %q %v", b, dec.Error)
		}
	}
	{
		var a []byte
		var b review3Str
		dec := hio.NewDecoder([]byte("b3\"\xff\xfe\xfd\"r0;")).Simple(false)
		dec.Decode(&a)
		dec.Decode(&b)
		t.Logf("[]byte then named string: a=%v b=%q err=%v", a, b, dec.Error)
		var a2 []byte
		var b2 string
		dec2 := hio.NewDecoder([]byte("b3\"\xff\xfe\xfd\"r0;")).Simple(false)
		dec2.Decode(&a2)
		dec2.Decode(&b2)
		t.Logf("[]byte then string: a=%v b=%q err=%v", a2, b2, dec2.Error)
		if (dec.Error == nil) != (dec2.Error == nil) || string(b) != b2 {
			t.Errorf("VIOLATION: bytes read into a []byte destination and referred to by a named string: %q err=%v; by a plain string: %q err=%v", b, dec.Error, b2, dec2.Error)
		}
	}
	_ = data
	_, _, _ = T1{}, T2{}, T3{}
}

// 6. writeComplex: a real number that is the result of complex arithmetic (Conj gives an
// imaginary part of -0) is no longer a number on the wire.
func TestReview3ComplexConjRegression(t *testing.T) {
	c := cmplx.Conj(complex(5, 0))
	data, err := hio.Marshal(c)
	t.Logf("Marshal(Conj(5+0i)) = %q err=%v", data, err)
	var f float64
	if err := hio.Unmarshal(data, &f); err != nil || f != 5 {
		t.Errorf("VIOLATION: Marshal(cmplx.Conj(5+0i)) = %q no longer reads into a float64 (got %v, %v); before 647bfa1 it was d5; / 5", data, f, err)
	}
	var v interface{}
	if err := hio.Unmarshal(data, &v); err != nil || reflect.TypeOf(v).Kind() != reflect.Float64 {
		t.Errorf("VIOLATION: Marshal(cmplx.Conj(5+0i)) read into interface{} gives %T %v (was float64 5): peers without a complex type see a list", v, v)
	}
	// round trips that must hold
	for _, c := range []complex128{complex(1, math.Copysign(0, -1)), complex(math.Copysign(0, -1), 0), complex(math.Copysign(0, -1), math.Copysign(0, -1))} {
		data, _ := hio.Marshal(c)
		var back complex128
		err := hio.Unmarshal(data, &back)
		if err != nil || math.Signbit(real(back)) != math.Signbit(real(c)) || math.Signbit(imag(back)) != math.Signbit(imag(c)) || back != c {
			t.Errorf("VIOLATION: complex128 %v -> %q -> %v (%v)", c, data, back, err)
		}
		c64 := complex64(c)
		data, _ = hio.Marshal(c64)
		var back64 complex64
		err = hio.Unmarshal(data, &back64)
		if err != nil || math.Signbit(float64(real(back64))) != math.Signbit(real(c)) || math.Signbit(float64(imag(back64))) != math.Signbit(imag(c)) {
			t.Errorf("VIOLATION: complex64 %v -> %q -> %v (%v)", c64, data, back64, err)
		}
	}
	// map keys
	m := map[complex128]int{complex(1, 0): 1, complex(1, math.Copysign(0, -1)): 2}
	data, err = hio.Marshal(m)
	var mb map[complex128]int
	err = hio.Unmarshal(data, &mb)
	t.Logf("map keys: %q -> %v (%v)", data, mb, err)
}

// 7. decodeLongAsInterface edge cases against what a typed destination makes of the same text.
func TestReview3LongEdges(t *testing.T) {
	type c struct {
		text string
		lt   hio.LongType
		want interface{}
	}
	maxU := uint64(math.MaxUint64)
	cases := []c{
		{"l9223372036854775807;", hio.LongTypeInt, int(math.MaxInt64)},
		{"l9223372036854775808;", hio.LongTypeInt, uint64(1 << 63)},
		{"l-9223372036854775808;", hio.LongTypeInt, int(math.MinInt64)},
		{"l-9223372036854775809;", hio.LongTypeInt, nil},
		{"l18446744073709551615;", hio.LongTypeInt, maxU},
		{"l18446744073709551615;", hio.LongTypeInt64, maxU},
		{"l18446744073709551615;", hio.LongTypeUint, uint(maxU)},
		{"l18446744073709551616;", hio.LongTypeUint64, nil},
		{"l-5;", hio.LongTypeUint, int64(-5)},
		{"l-5;", hio.LongTypeUint64, int64(-5)},
		{"l-0;", hio.LongTypeUint64, uint64(0)},
		{"l+5;", hio.LongTypeUint64, uint64(5)},
		{"l0000000000000000000000000005;", hio.LongTypeInt, 5},
		{"l-0000000000000000000000000005;", hio.LongTypeInt64, int64(-5)},
		{"l999999999999999999;", hio.LongTypeInt, 999999999999999999},
		{"l-99999999999999999;", hio.LongTypeInt, -99999999999999999},
		{"l9223372036854775807;", hio.LongTypeUint, uint(math.MaxInt64)},
	}
	for _, tc := range cases {
		dec := hio.NewDecoder([]byte(tc.text))
		dec.LongType = tc.lt
		var v interface{}
		dec.Decode(&v)
		if tc.want == nil {
			if _, ok := v.(interface{ Sign() int }); !ok || dec.Error != nil {
				t.Errorf("VIOLATION: %s LongType=%d: got %T %v err=%v, want *big.Int", tc.text, tc.lt, v, v, dec.Error)
			} else if fmt.Sprint(v) != strings.TrimSuffix(strings.TrimPrefix(tc.text, "l"), ";") {
				t.Errorf("VIOLATION: %s: big %v", tc.text, v)
			}
			continue
		}
		if dec.Error != nil || !reflect.DeepEqual(v, tc.want) {
			t.Errorf("VIOLATION: %s LongType=%d: got %T %v err=%v, want %T %v", tc.text, tc.lt, v, v, dec.Error, tc.want, tc.want)
		}
	}
	// texts that are not numbers: interface{} against a typed int destination
	for _, text := range []string{"l;", "l-;", "l+;", "l1x;", "l 1;", "l1_0;", "l0x10;", "l1e3;", "l--1;", "l"} {
		var v interface{}
		errI := hio.Unmarshal([]byte(text), &v)
		var i int
		errT := hio.Unmarshal([]byte(text), &i)
		var i64 int64
		dec := hio.NewDecoder([]byte(text))
		dec.LongType = hio.LongTypeInt64
		var v64 interface{}
		dec.Decode(&v64)
		t.Logf("%q: interface{} -> %T %v (%v); int -> %v (%v); LongTypeInt64 interface{} -> %T %v (%v)", text, v, v, errI, i, errT, v64, v64, dec.Error)
		_ = i64
	}
	_ = strconv.Itoa
}

// 8. recode loses the identity of what the item contains: the item "written in full at that
// place" would write an object inside it as a reference to the one object; the recoded copy
// holds a copy of the object.
type Review3T struct {
	X int `hprose:"x"`
}

func TestReview3RecodeLosesIdentityOfContents(t *testing.T) {
	hio.RegisterName("Review3T", (*Review3T)(nil))
	// what a sender writes for f(a interface{}, b []*Review3T, c *Review3T) called with one
	// *[]*Review3T{obj} for a and b and obj for c
	obj := &Review3T{X: 1}
	list := &[]*Review3T{obj}
	enc := new(hio.Encoder).Simple(false)
	enc.Encode(list)
	enc.Encode(list)
	enc.Encode(obj)
	data := enc.Bytes()
	t.Logf("stream: %q", data)
	dec := hio.NewDecoder(data).Simple(false)
	var a interface{}
	var b []*Review3T
	var c *Review3T
	dec.Decode(&a)
	dec.Decode(&b)
	dec.Decode(&c)
	if dec.Error != nil {
		t.Logf("error (the behaviour before e31f4bb): %v", dec.Error)
		return
	}
	ai, _ := a.([]interface{})
	if len(ai) != 1 || len(b) != 1 {
		t.Fatalf("a=%v b=%v", a, b)
	}
	a0, _ := ai[0].(*Review3T)
	t.Logf("a[0]=%p b[0]=%p c=%p", a0, b[0], c)
	if a0 != b[0] || b[0] != c {
		t.Errorf("VIOLATION: one object sent once and referred to: a[0]=%p, b[0]=%p, c=%p - the []*T argument holds a copy of the object, not the object (b[0].X=7 is not seen through c)", a0, b[0], c)
	}
	// the same with the list written in full at the second place (what recode says it equals)
	enc2 := new(hio.Encoder).Simple(false)
	enc2.Encode(list)
	l2 := []*Review3T{obj}
	enc2.Encode(l2)
	dec2 := hio.NewDecoder(enc2.Bytes()).Simple(false)
	var a2 interface{}
	var b2 []*Review3T
	dec2.Decode(&a2)
	dec2.Decode(&b2)
	if dec2.Error == nil {
		x, _ := a2.([]interface{})[0].(*Review3T)
		t.Logf("written in full at the second place (%q): a[0]=%p b[0]=%p same=%v", enc2.Bytes(), x, b2[0], x == b2[0])
	}
}

// 9. recode runs an encoder and a second decoder on top of the stack of the decoder that found
// the reference, and the second decoder counts its depth from zero: a reference found deep in
// the input to an item that is itself deep adds the two. Fatal (stack overflow is not
// recoverable), so it runs only with REVIEW3_CRASH=1; REVIEW3_D1/REVIEW3_D2 set the depths.
type Review3C struct {
	N interface{} `hprose:"n"`
	F review3L    `hprose:"f"`
}
type review3L []interface{}

func review3Env(name string, def int) int {
	if s := os.Getenv(name); s != "" {
		if n, err := strconv.Atoi(s); err == nil {
			return n
		}
	}
	return def
}

func TestReview3RecodeDeepOnDeepStack(t *testing.T) {
	if os.Getenv("REVIEW3_CRASH") == "" {
		t.Skip("set REVIEW3_CRASH=1 (a stack overflow kills the test binary)")
	}
	hio.RegisterName("Review3C", (*Review3C)(nil))
	d1 := review3Env("REVIEW3_D1", 199000) // the depth of the item (lists in an interface{})
	d2 := review3Env("REVIEW3_D2", 199000) // the depth at which the typed reference to it stands
	var b bytes.Buffer
	b.WriteString("a2{")
	if os.Getenv("REVIEW3_MAPS") != "" {
		b.WriteString(strings.Repeat("m1{ua", d1)) // ref 1 is the outermost map of the chain
	} else {
		b.WriteString(strings.Repeat("a1{", d1)) // ref 1 is the outermost list of the chain
	}
	b.WriteString("n")
	b.WriteString(strings.Repeat("}", d1))
	b.WriteString(`c8"Review3C"2{s1"n"s1"f"}`)
	b.WriteString(strings.Repeat("o0{", d2-1))
	b.WriteString("o0{nr1;}")
	b.WriteString(strings.Repeat("n}", d2-1))
	b.WriteString("}")
	data := b.Bytes()
	t.Logf("stream %d bytes, item depth %d, reference at depth %d", len(data), d1, d2)
	var v interface{}
	t0 := time.Now()
	err := review3Unmarshal(data, &v)
	t.Logf("survived: err=%v in %v", err, time.Since(t0))
}

// 10. recode unfolds shared structure: references from interface{} positions to a list or a map
// share it (no copy), so a few bytes per level build a DAG of 2^n paths; the decoder never
// walked it before, recode's encoder writes slices and maps by value and so writes all 2^n.
func review3Laughs(n int) []byte {
	var b bytes.Buffer
	// [ {ua: K1, ub: K2, ...}, ->Kn ]   K1 = {}, Ki = {ua: ->K(i-1), ub: ->K(i-1)}
	b.WriteString("a2{")
	fmt.Fprintf(&b, "m%d{", n)
	// refs: 0 the list, 1 the outer map, 2 = K1, 3 = K2, ...
	b.WriteString("i1;m1{uan}") // K1 = {a: nil}, ref 2
	for i := 2; i <= n; i++ {
		fmt.Fprintf(&b, "i%d;m2{uar%d;ubr%d;}", i, i, i) // Ki is ref i+1, K(i-1) is ref i
	}
	b.WriteString("}")
	fmt.Fprintf(&b, "r%d;", n+1)
	b.WriteString("}")
	return b.Bytes()
}

func TestReview3RecodeBillionLaughs(t *testing.T) {
	var prev uint64
	for _, n := range []int{12, 14, 16, 18} {
		data := review3Laughs(n)
		var dest []map[string]interface{}
		var err error
		el, alloc := review3Measure(func() { err = review3Unmarshal(data, &dest) })
		t.Logf("levels=%d stream=%d bytes err=%v time=%v alloc=%d bytes (%.0fx input)", n, len(data), err, el, alloc, float64(alloc)/float64(len(data)))
		if prev != 0 && alloc > 3*prev {
			t.Errorf("VIOLATION: recode: two more levels (%d bytes of input in all) and the allocation grew %.1fx to %d bytes, %v: exponential (2^levels)", len(data), float64(alloc)/float64(prev), alloc, el)
		}
		prev = alloc
	}
}
