#!/bin/bash
# Run once after a fresh restore, offline: builds the tools that do not depend on /repo's sources and
# warms the Go build cache so that the first check does not pay for a cold standard-library build.
set -e
cd "$(dirname "$0")"
export GOFLAGS=-mod=mod GOPROXY=off GOSUMDB=off GOTOOLCHAIN=local
mkdir -p bin evidence replays
if [ -d mcrewrite ]; then
  (cd mcrewrite && go build -o ../bin/mcrewrite .)
fi
(cd lib && go build ./...)
# the litmus suite validates the scheduler model (trusted base): it must pass before any verdict is believed
(cd vs && go build ./... && go test -count=1 ./litmus/)
cp /repo/go.sum mc/go.sum 2>/dev/null || true
(cd mc && go build ./... ) || true
echo "setup done"
