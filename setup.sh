#!/bin/bash
# Run once after a fresh restore, offline: builds the tools that do not depend on /repo's sources and
# warms the Go build cache so that the first check does not pay for a cold standard-library build.
set -e
cd "$(dirname "$0")"
export GOFLAGS=-mod=mod GOPROXY=off GOSUMDB=off GOTOOLCHAIN=local
mkdir -p bin evidence replays
if [ -d mcrewrite ]; then
  (cd mcrewrite && go build -o ../bin/mcrewrite .)
fi
(cd lib && go build ./...)
if [ -d vs ]; then (cd vs && go build ./... && go vet ./... >/dev/null 2>&1 || true); fi
cp /repo/go.sum mc/go.sum 2>/dev/null || true
(cd mc && go build ./... ) || true
echo "setup done"
