#!/bin/bash
# tools/huntrun.sh <tree> <hunt id> <demo file> <package dir> <-run pattern> [timeout_s]
# copies hunt/<id>/demo/<file> into <tree>/<package dir>, runs the named tests in a private network namespace,
# removes the copy, prints PASS or FAIL and the VIOLATION lines.
tree=$1; id=$2; file=$3; pkg=$4; pat=$5; to=${6:-180}
export GOFLAGS=-mod=mod GOPROXY=off GOSUMDB=off GOTOOLCHAIN=local
cp /verif/hunt/$id/demo/$file $tree/$pkg/zz_$file || exit 2
out=$(cd $tree && timeout $to unshare -n sh -c "ip link set lo up; go test -vet=off -count=1 -run '$pat' ./$pkg/" 2>&1); rc=$?
rm -f $tree/$pkg/zz_$file
if [ $rc -eq 0 ]; then echo "PASS $id $pat"; else echo "FAIL($rc) $id $pat"; echo "$out" | grep -m6 "VIOLATION\|panic:\|fatal error\|^--- FAIL" | cut -c1-220; fi
