ENGINES = [
 {"name": "enum", "path": "/verif/mc", "serves_properties": ["C01"], "kind_free_text": "bounded-exhaustive enumeration of finite input/configuration spaces against a reference model, sharded over crash-isolating worker processes (lib/shard)"},
]
NOTES = "Every check is `./check <ID> quick|thorough`; it rebuilds from /repo's working tree. known_findings.json lists recorded and fixed genuine defects."
NOT_YET = {}
chk("C01", "exploration",
    "Exhaustive inside a stated scope: every type up to constructor depth d over 35 leaf types (plus named structs and the 210 specialised maps) x derived boundary-value alphabets x 4 entry-point/mode combinations x (for interface{} destinations) all 240 decoder-setting tuples is round-tripped; oracle = canonical form with exactly the normalisations the property allows. A sample of examples cannot reach this; a bounded-exhaustive space can, but only inside the bound.",
    "Scope hypothesis (depth, alphabet, container sizes); the canonical-form function gen.Canon is the trusted oracle; settings that cannot represent a value (e.g. LongTypeInt for 2^64) are skipped and counted.",
    "bounded-exhaustive enumeration of types x values x configurations against a normalising reference equality", "DESIGN.md 3 C01", "enum")
