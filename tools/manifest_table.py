ENGINES = [
 {"name": "enum", "path": "/verif/mc", "serves_properties": ["C01"], "kind_free_text": "bounded-exhaustive enumeration of finite input/configuration spaces against a reference model, sharded over crash-isolating worker processes (lib/shard)"},
]
NOTES = "Every check is `./check <ID> quick|thorough`; it rebuilds from /repo's working tree. known_findings.json lists recorded and fixed genuine defects."
NOT_YET = {}
chk("C01", "exploration",
    "Exhaustive inside a stated scope: every type up to constructor depth d over 35 leaf types (plus named structs and the 210 specialised maps) x derived boundary-value alphabets x 4 entry-point/mode combinations x (for interface{} destinations) all 240 decoder-setting tuples is round-tripped; oracle = canonical form with exactly the normalisations the property allows. A sample of examples cannot reach this; a bounded-exhaustive space can, but only inside the bound.",
    "Scope hypothesis (depth, alphabet, container sizes); the canonical-form function gen.Canon is the trusted oracle; settings that cannot represent a value (e.g. LongTypeInt for 2^64) are skipped and counted.",
    "bounded-exhaustive enumeration of types x values x configurations against a normalising reference equality", "DESIGN.md 3 C01", "enum")

ENGINES.append({"name": "mcgo", "path": "/verif/vs, /verif/mcrewrite, /verif/mcgo", "serves_properties": ["C09", "C10", "C14", "C15", "C16", "C17", "C18", "C19", "C20"],
  "kind_free_text": "stateless model checking of the implementation: type-aware source rewriter (sync, atomics, channels, select, go, time, context, rand, dialing -> vs shims) + controlled scheduler (one goroutine at a time, virtual clock) + depth-first explorer with iterative deviation bounding, happens-before state cache, subtree sharding with dynamic load balancing, replay with divergence detection; explicit-state / exhaustive-history parts call the real handlers under the virtual clock"})

MC_NOTE = "Trusted base: sequentially consistent memory; the vs shims model Go's sync/channel/select/timer semantics; data races on plain memory are invisible to a cooperative scheduler; exhaustive only within the deviation bound completed per scenario (reported in the evidence, with caps hit); the state cache is cross-checked against an uncached run per scenario."

def mc(pid, text, tech, design):
    chk(pid, "model_checking", text, MC_NOTE, tech, design, "mcgo")

mc("C09", "Every schedule (up to the completed preemption bound) of 2-3 callers multiplexed on one real socket/udp client connection, with the scripted peer answering now or later in every order, stray and duplicated identifiers and udp identifier wrap-around, and of the real socket server handler demultiplexing 2-3 requests; oracle: each caller gets f(own request), each request is answered exactly once under its own identifier. Ordering bugs between real goroutines need exactly this kind of exhaustive interleaving coverage.",
   "stateless model checking of the rewritten implementation under a controlled scheduler (preemption-bounded DFS with happens-before caching)", "DESIGN.md 4 C09")
mc("C10", "Every schedule (bounded) of 1-2 callers x 24 peer fault scripts (position x action) x time-out none/finite (lazy virtual timer) x Abort / cancel threads on the real socket, udp and mock client transports; oracle: no foreground call blocked at quiescence unless the statement allows it, a call whose connection is lost ends without its own time-out timer firing (virtual time), follow-up calls succeed on a new connection, no pending entries left.",
   "stateless model checking of the rewritten client transports with fault-scripted connections and a virtual clock", "DESIGN.md 4 C10")
mc("C14", "Every schedule (bounded) of 2-3 concurrent first uses of fresh nested/recursive struct types (registries reset per execution) against the sequential result; every sequence up to depth 3/4 over 16 pooled-coder operations against the result on fresh coders (LIFO pool: maximal reuse); plus an auxiliary free-running part: input-buffer aliasing over the C01 depth-1 universe and a -race pass (complement, not deciding).",
   "stateless model checking of first-use interleavings + exhaustive operation sequences over pooled coders", "DESIGN.md 3 C14")
mc("C15", "Breadth-first search over Use/Unuse/Call sequences (depth 5/6 with state deduplication on the list model, depth 3/4 without) on a real client and service over the mock transport, 11 handlers incl. two-sided plugins, short-circuiting and rewriting handlers; every schedule (bounded) of Use/Unuse racing with calls; oracle: recorded onion trace equals the list model.",
   "explicit-state BFS over operation sequences replayed on fresh real instances + stateless model checking of Use/Unuse vs Call", "DESIGN.md 4 C15")
mc("C16", "Every outcome script (S/E/P)^<=7 (9 thorough) consumed by up to three consecutive calls x 210 configurations (mode, retry 0..3, idempotent default and per-call overrides, 1..3 servers) against a reference retry loop; every schedule (bounded) and every outcome vector of Forking and Broadcast over 2-3 servers and of two calls racing on one failover instance.",
   "exhaustive outcome histories against a reference model + stateless model checking of the fan-out modes", "DESIGN.md 4 C16")
mc("C17", "Every schedule (bounded) of 2-3 requests through the real ConcurrentLimiter with limit 1-2, outcomes ok/error/panic as data choices, wait time-outs as eager virtual timers; every sequence up to depth 5 (7) of clock advances and acquires on the real RateLimiter x 4 burst x 3 time-out settings against a reference token bucket; 2-3 concurrent acquirers against the sequential multiset of admission instants.",
   "stateless model checking with a virtual clock + exhaustive operation sequences against a reference token bucket", "DESIGN.md 5 C17")
mc("C18", "All 340 (780) weight vectors x all map iteration orders: full cycles of round-robin, weighted and smooth weighted round-robin; every value of every random draw of the random balancers; every history up to depth 5 of start/finish(S/E/P) operations with calls parked in flight on all seven balancers against in-flight and effective-weight models (accessors injected); every schedule (bounded) of 3-4 concurrent calls.",
   "exhaustive configurations and histories with all random draws enumerated as explorer data choices + stateless model checking of concurrent calls", "DESIGN.md 5 C18")
mc("C19", "Every schedule (bound 2/3) of a polling consumer, 1-2 publishers (unicast/multicast/broadcast), poll time-outs as eager virtual timers and an unsubscribe/re-subscribe thread on the real Broker (rewritten with the third-party concurrent-map); oracle: accepted == delivered (+ handed to OnUnsubscribe) as multisets, exactly once, per-publisher order, nothing foreign; plus the Prosumer poll loop and dispatch.",
   "stateless model checking with eager virtual timers", "DESIGN.md 5 C19")
mc("C20", "Every history up to depth 5 (6) over (clock advance in {0, rt-1, rt, rt+1}) x (downstream S/E/P) x thresholds 0..3 x mock service on/off on the real breaker under the virtual clock against the state machine the property describes; every schedule (bounded) of 2-3 concurrent callers with all outcome choices.",
   "exhaustive histories against a reference state machine + stateless model checking of concurrent callers", "DESIGN.md 5 C20")

ENGINES[0]["serves_properties"] = ["C01", "C02", "C03", "C04", "C05", "C06", "C07"]
ENGINES.append({"name": "netlab", "path": "/verif/mc/netlab, /verif/mc/rpclab", "serves_properties": ["C08", "C11", "C12", "C13"],
  "kind_free_text": "enumerated fault / input spaces against the real transports on ephemeral loopback ports and temp-dir unix sockets, raw TCP/UDP/HTTP/WebSocket peers, one worker process per scenario group (a dead worker convicts one scenario)"})

chk("C03", "exploration",
    "Exhaustive inside a stated scope: every value of the C01 universe (depth 2, thorough 3) x {simple, reference} x {Encode, Write} plus sequences of three values on one encoder with and without Reset is parsed by an independent reader of the published grammar (hpref.Parse: tags, decimal syntax, UTF-16 unit counts, byte counts, element counts, class-before-object, reference indices) and compared with an independent denotation of the Go value (hpref.Denote).",
    "hpref is my reading of the grammar (assumptions listed in the evidence); scope hypothesis as in C01.",
    "bounded-exhaustive enumeration against an independent reference reader and denotation", "DESIGN.md 3 C03", "enum")
chk("C07", "exploration",
    "Exhaustive inside a stated scope: argument lists of 0..3 values over a 12-type alphabet x 13 parameter-list shapes x 7 return-type shapes x 6 header sets x 15 names x 15 errors x client/service Simple x Debug x the 120 decoder-setting tuples, driven through the real client and service codecs (hprose and JSON-RPC) without transport; oracle: method identity, headers, arguments, results equal by the normalising canonical form, error messages exact, no panic.",
    "Scope hypothesis; cases a decoder setting cannot represent are skipped and counted; gen.Canon is the trusted equality.",
    "bounded-exhaustive enumeration of codec round trips against the input values", "DESIGN.md 3 C07", "enum")
chk("C08", "exploration",
    "Exhaustive inside a stated scope: 45 published functions covering the signature shapes x argument tuples from the reduced C01 alphabet x 5 name spellings x 4 entry points (proxy with/without error result, typed/untyped Invoke) x 7 transports x codec simple/ref x pool on/off; oracle: the local call of the same function (reference model), invocation counter advanced by exactly one, recorded arguments equal, errors and panics arrive as errors with the message.",
    "Real sockets on loopback (ephemeral ports); sequential calls; values the serializer alone cannot carry are skipped and counted.",
    "bounded-exhaustive enumeration of calls against the local call as reference model", "DESIGN.md 4 C08", "netlab")
chk("C11", "fault_enumeration",
    "Every element of a finite fault alphabet (panics at 4 sites x 9 panic values, wrong-type and undecodable arguments, short / corrupted / length-lying frames, oversize requests and responses, malformed responses towards the client) x transports x pool on/off x 3 sentinel placements, each scenario in its own process; oracle: the process is alive, sentinel calls are correct, the faulty call returns an error within its time-out plus generous slack.",
    "Real sockets on loopback; one-sided timing oracle with slack; client and server share the scenario process (which side died is read from the stack).",
    "exhaustive fault enumeration with process-level isolation", "DESIGN.md 4 C11", "netlab")
chk("C12", "fault_enumeration",
    "Every payload length 0..4200 (thorough 0..20000) plus the boundary set up to 1 MiB x 5 content patterns x 10 client/server pairings x both directions through an IO-level echo; every single-bit flip (thorough: plus 2-bit flips) of the socket and udp frame headers for 64 (256) length/index pairs; every declared-versus-actual length pair on tcp/unix/udp/websocket/HTTP with a marker frame of another client sent first; oracle: delivered bytes == submitted bytes or rejection, the marker never surfaces.",
    "Real sockets on loopback; raw peers send exactly the prescribed bytes; the raw-frame scenarios use an inline worker pool.",
    "exhaustive enumeration of lengths, header corruptions and length lies against real transports", "DESIGN.md 4 C12", "netlab")
chk("C13", "fault_enumeration",
    "limits {8, 64, 1024} (thorough 9 limits) x sizes {L-1, L, L+1, 4L, 1 MiB, 4 MiB} x 11 client/server pairings x declaration {truthful, absent (chunked / streamed), smaller, larger}; a counting IO handler and a counting function must see nothing above the limit, at or below it the call works, above it the real client gets the too-large error.",
    "Real sockets on loopback; the caller-side error for large refused bodies depends on a write/read race (recorded as a known finding).",
    "exhaustive enumeration of limit x size x declaration x transport", "DESIGN.md 4 C13", "netlab")

chk("C02", "exploration",
    "Exhaustive inside a stated scope: every pointer graph on n <= 4 nodes with two outgoing edges per node over struct-field and interface edges, n <= 3 (thorough 4) over slice, map and pointer-to-pointer/array edges, decoded into typed and interface{} destinations; every sequence of <= 3 of 20 reference-consuming item kinds followed by a repeated string and a shared pointer in 4 container positions. Oracles: decoded graph has the unfolding of the original (bisimulation on Go values), the stream parsed by the independent reader denotes the graph, each distinct reachable object is written once, termination.",
    "Scope hypothesis (node count, out-degree 2); gen.Bisimilar and hpref are the trusted oracles.",
    "bounded-exhaustive enumeration of pointer graphs and reference-table prefixes against bisimulation and an independent reader", "DESIGN.md 3 C02", "enum")

chk("C06", "exploration",
    "Exhaustive inside a stated scope: 79 hand-built wire token spellings (including forms this encoder never emits: long-form small integers, single-character and empty strings in long form, references to strings / bytes / lists / field names, objects with extra, missing and reordered fields, maps standing for objects) x 62 destination types x 7 container positions x {simple, reference}; oracles: position independence (differential), exact-or-error for the cells of the conversion table with defined semantics, no panic.",
    "The exact-or-error table is deliberately small; undefined cells are only subject to position independence and no-panic. The lenient numeric narrowing of the decoder is recorded as known findings (asserted by the repository's own tests).",
    "bounded-exhaustive enumeration of token x destination x position against a differential oracle and a conversion table", "DESIGN.md 3 C06", "enum")

chk("C04", "exploration",
    "Exhaustive inside a stated scope: every string over a 37-symbol alphabet drawn from the decoder's switch labels up to length 3 (thorough 4); every truncation, deletion, substitution and insertion from that alphabet of 320 valid corpus streams; grammar-aware replacement of every count / length / index field by boundary numbers; nesting bombs; x 25 destinations x {reader, coder, marshal/formatter} x {simple, ref}, plus service request decoding (Service.Handle) and client response decoding; oracles: no panic, no process death (crash-isolating workers), no out-of-bounds write (guard areas), reads past EOF and allocation bounded by 1 MiB + 256 x len(input).",
    "Length-bounded input space; bytes outside the alphabet are represented by two symbols; the allocation / loop bounds are fixed constants, not asymptotic proofs.",
    "bounded-exhaustive enumeration of byte strings and mutations in crash-isolating workers", "DESIGN.md 3 C04", "enum")
chk("C05", "exploration",
    "Environment-answer exploration: corpus streams, two-value sequences, truncations and boundary streams that put every token byte on a 256/512(/1024)-byte buffer boundary x every two-way split, every fixed chunk size, every pattern with <= 1 (thorough 2) deviations ('read #j returns k bytes', k in {0,1,2,3}) x 6 buffer configurations x last-chunk-with-EOF; oracle: values (canonical form), error presence and remaining bytes identical to decoding the same bytes from a contiguous slice; no panic.",
    "The reader's answers are the only nondeterminism and are enumerated; after an error on both sides only error presence is compared.",
    "exhaustive enumeration of fragmentation patterns (environment answers) against the in-memory decode", "DESIGN.md 3 C05", "enum")
