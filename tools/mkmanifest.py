#!/usr/bin/env python3
# Generates /verif/MANIFEST.json from the table below (kept in one place so that the manifest is always valid).
import json, os
V = '/verif'
checks = {}
def chk(pid, cat, text, note, technique, design, engine):
    checks[pid] = {
        "property_id": pid,
        "quick_cmd": f"./check {pid} quick",
        "thorough_cmd": f"./check {pid} thorough",
        "evidence_file": f"/verif/evidence/{pid}.json",
        "replay_cmd_template": f"./check {pid} --replay {{path}}",
        "engine": engine,
        "level_claimed": {"category": cat, "text": text, "design_ref": design},
        "level_note": note,
        "technique": technique,
    }
exec(open(os.path.join(V, 'tools', 'manifest_table.py')).read())
allp = [json.loads(l)['id'] for l in open(os.path.join(V, 'properties.jsonl'))]
man = {
    "version": 1,
    "setup_cmd": "./setup.sh",
    "hooks": {
        "guard": "verif",
        "enable": "no guarded code is committed to /repo: files under /verif/inject/<pkgpath>/ (//go:build verif) are added to the build by `go build -overlay` (free-running checks) or copied next to the rewritten sources (controlled-scheduler checks), with -tags verif",
        "baseline_off_cmd": "cd /repo && GOFLAGS=-mod=mod go test -vet=off -count=1 -timeout 25m ./...",
        "source_commits": [],
        "add_only": True,
    },
    "engines": ENGINES,
    "checks": [checks[p] for p in allp if p in checks],
    "not_applicable": [{"property_id": p, "reason": NOT_YET.get(p, "check not built yet in this round; nothing is claimed")} for p in allp if p not in checks],
    "notes": NOTES,
}
json.dump(man, open(os.path.join(V, 'MANIFEST.json'), 'w'), indent=1)
print("claimed:", [p for p in allp if p in checks])
