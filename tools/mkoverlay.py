#!/usr/bin/env python3
# usage: mkoverlay.py <injectdir> <repo>  -> overlay JSON on stdout: every inject/<pkgpath>/<f>.go appears
# in the build as <repo>/<pkgpath>/zz_verif_<f>.go (files are //go:build verif; /repo itself is untouched).
import json, os, sys
inj, repo = sys.argv[1], sys.argv[2]
rep = {}
for root, _, files in os.walk(inj):
    for f in files:
        if f.endswith('.go'):
            rel = os.path.relpath(root, inj)
            rep[os.path.join(repo, rel, 'zz_verif_' + f)] = os.path.join(root, f)
json.dump({'Replace': rep}, sys.stdout, indent=1)
