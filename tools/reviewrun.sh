#!/bin/bash
# tools/reviewrun.sh <tree> <review dir r2|r3|r4> <demo subpath (file)> <package dir> <pattern> [timeout]
# like huntrun.sh, for the deliverables of the review wave (review/<r>/demo/...)
tree=$1; r=$2; file=$3; pkg=$4; pat=$5; to=${6:-180}
export GOFLAGS=-mod=mod GOPROXY=off GOSUMDB=off GOTOOLCHAIN=local
base=$(basename $file)
cp /verif/review/$r/demo/$file $tree/$pkg/$base || exit 2
extra=""
for h in /verif/review/$r/demo/$(dirname $file)/*helper*.go /verif/review/$r/demo/$(dirname $file)/*util*_test.go /verif/review/$r/demo/$(dirname $file)/zz_review_model_test.go; do [ -f "$h" ] && [ "$(basename $h)" != "$base" ] && cp $h $tree/$pkg/ && extra="$extra $(basename $h)"; done
out=$(cd $tree && timeout $to unshare -n sh -c "ip link set lo up; go test -vet=off -count=1 -run '$pat' ./$pkg/" 2>&1); rc=$?
rm -f $tree/$pkg/$base; for e in $extra; do rm -f $tree/$pkg/$e; done
if [ $rc -eq 0 ]; then echo "PASS $r $pat"; else echo "FAIL($rc) $r $pat"; echo "$out" | grep -m8 "VIOLATION\|panic:\|fatal error\|^--- FAIL" | cut -c1-260; fi
