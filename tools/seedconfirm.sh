#!/bin/bash
# tools/seedconfirm.sh <seed-id>... : confirm a seeded change in a scratch worktree of /repo at HEAD:
#   (1) the demonstration fails with the change, (2) it passes without it, (3) the repository builds and its
#   whole test suite passes with the change (private network namespace: the suite uses fixed ports).
# Prints one line per seed; writes the details to seeded/<id>/confirm.log. The worktree is removed afterwards.
set -u
export GOFLAGS=-mod=mod GOPROXY=off GOSUMDB=off GOTOOLCHAIN=local
VERIF=${VERIF_DIR:-/verif}
WT=/var/tmp/seedconfirm-wt
git -C /repo worktree remove --force $WT 2>/dev/null
git -C /repo worktree add -q --detach $WT HEAD || exit 2
trap 'git -C /repo worktree remove --force $WT; git -C /repo worktree prune' EXIT
for id in "$@"; do
  d=$VERIF/seeded/$id
  log=$d/confirm.log
  : > $log
  # where each demo file goes: "cp _seed/demo/<file> <dest>" pairs of the meta's demo_how_to_run; -run pattern; packages
  python3 - "$d/meta.json" > /var/tmp/seedconfirm.plan <<'PY'
import json,re,sys
m=json.load(open(sys.argv[1]))
how=m['demo_how_to_run']
for a,b in re.findall(r'cp _seed/demo/(\S+) ([^\s;]+)',how): print('CP',a,b)
r=re.search(r"go test ([^;]*?)(?: ;|;|$| \()",how)
print('TEST',r.group(1).strip().rstrip("'").strip())
PY
  cps=$(grep '^CP' /var/tmp/seedconfirm.plan)
  testargs=$(grep '^TEST' /var/tmp/seedconfirm.plan | cut -d' ' -f2-)
  place() { echo "$cps" | while read _ a b; do cp $d/demo/$a $WT/$b; done; }
  unplace() { echo "$cps" | while read _ a b; do case $b in */) rm -f $WT/$b$a;; *) rm -f $WT/$b;; esac; done; }
  rundemo() { (cd $WT && eval "unshare -n sh -c 'ip link set lo up; go test $testargs'") >> $log 2>&1; }
  git -C $WT checkout -q -- . ; git -C $WT clean -fdq
  git -C $WT apply $d/patch.diff || { echo "seed=$id patch does not apply"; continue; }
  echo "=== build + full suite with the change" >> $log
  (cd $WT && go build ./... && unshare -n sh -c 'ip link set lo up; go test -vet=off -count=1 -p 1 ./...') >> $log 2>&1; suite=$?
  place; echo "=== demo with the change: go test $testargs" >> $log; rundemo; with=$?
  git -C $WT apply -R $d/patch.diff
  echo "=== demo without the change" >> $log; rundemo; without=$?
  unplace
  verdict=CONFIRMED
  [ $suite -eq 0 ] && [ $with -ne 0 ] && [ $without -eq 0 ] || verdict=NOT-CONFIRMED
  echo "seed=$id suite_with_change_exit=$suite demo_with_change_exit=$with demo_without_change_exit=$without $verdict" | tee -a $log
done
