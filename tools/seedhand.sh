#!/bin/bash
# tools/seedhand.sh <seed> <python-file>   resets the scratch worktree to /repo's HEAD, runs the python edit script in it
# (cwd = worktree), builds, and stores the resulting diff as seeded/<seed>/patch.diff (delivered patch kept).
d=$1; py=$2
WT=/var/tmp/seedtest-wt
export GOFLAGS=-mod=mod GOPROXY=off GOSUMDB=off GOTOOLCHAIN=local
git -C $WT checkout -q --detach "$(git -C /repo rev-parse HEAD)"; git -C $WT checkout -q -- .; git -C $WT clean -fdq
(cd $WT && python3 $py) || exit 1
(cd $WT && gofmt -l . | head -3; go build ./...) || { echo BUILD-FAILS; exit 1; }
[ -f /verif/seeded/$d/patch.as-delivered.diff ] || cp /verif/seeded/$d/patch.diff /verif/seeded/$d/patch.as-delivered.diff
git -C $WT diff > /verif/seeded/$d/patch.diff
echo "hand-rebased $d: $(grep -c '^[-+][^-+]' /verif/seeded/$d/patch.diff) changed lines"
git -C $WT checkout -q -- .
