#!/bin/bash
# tools/seedmatrix.sh: run every kept seeded change against the check of its own property and the related ones
# (quick tier, scratch worktree: see seedtest.sh) and record the verdicts in seeded/RESULTS.tsv
# (seed, check, exit code, number of violation signatures, first signature).
cd /verif
out=seeded/RESULTS.tsv
printf "seed\tcheck\texit\tsignatures\tfirst_signature\n" > $out
run() { s=$1; shift; tools/seedtest.sh $s "$@" | grep '^seed=' | sed -E 's/^seed=(\S+) check=(\S+) exit=(\S+) violations=(\S+) *(signature: )?(.*)$/\1\t\2\t\3\t\4\t\6/' >> $out; }
for s in C01 C02 C03 C04 C05 C06 C07; do run $s C01 C02 C03 C04 C05 C06 C07; done
for s in C01b C02b C03b C04b C05b C06b; do run $s C01 C02 C03 C04 C05 C06; done
run C07b C07 C08
run C08 C08 C07 C11
run C08b C08
run C09 C09 C10
run C09b C09 C12
run C10 C10 C09 C11
run C10b C10 C09
run C11 C11 C10
run C11b C11 C12
run C13 C13 C12
run C13b C13 C12
run C14 C14 C01
run C14b C14
run C15 C15
run C15b C15
run C16 C16
run C16b C16
run C17 C17
run C17b C17
run C18 C18
run C18b C18
run C19 C19
run C19b C19
run C20 C20
run C20b C20
run C12 C12 C11
run C12b C12 C09
cat $out
