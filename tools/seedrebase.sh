#!/bin/bash
# tools/seedrebase.sh <seed> [context]   applies seeded/<seed>/patch.diff with reduced context to a scratch worktree at
# /repo's HEAD and prints the resulting diff; with a third argument "keep" it replaces patch.diff by that diff (the
# delivered one is kept as patch.as-delivered.diff).
d=$1; ctx=${2:-1}; keep=$3
WT=/var/tmp/seedtest-wt
[ -d $WT ] || git -C /repo worktree add -q --detach $WT HEAD
git -C $WT checkout -q --detach "$(git -C /repo rev-parse HEAD)"; git -C $WT checkout -q -- .; git -C $WT clean -fdq
git -C $WT apply -C$ctx /verif/seeded/$d/patch.diff || exit 1
(cd $WT && go build ./... ) || { echo BUILD-FAILS; exit 1; }
if [ "$keep" = keep ]; then
  [ -f /verif/seeded/$d/patch.as-delivered.diff ] || cp /verif/seeded/$d/patch.diff /verif/seeded/$d/patch.as-delivered.diff
  git -C $WT diff > /verif/seeded/$d/patch.diff
  echo "rebased $d"
else
  git -C $WT diff
fi
git -C $WT checkout -q -- .
