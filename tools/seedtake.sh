#!/bin/bash
# tools/seedtake.sh <id>: copy the deliverables of a seeding agent from its scratch worktree into seeded/<id>/
id=$1
mkdir -p /verif/seeded/$id
cp -r /tmp/seed-$id/_seed/patch.diff /tmp/seed-$id/_seed/demo /tmp/seed-$id/_seed/meta.json /verif/seeded/$id/ && ls /verif/seeded/$id /verif/seeded/$id/demo
