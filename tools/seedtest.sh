#!/bin/bash
# usage: tools/seedtest.sh <seed-dir-name> <check ids...>   applies seeded/<name>/patch.diff to /repo, runs the quick
# tier of the named checks, prints the verdicts, and restores /repo (never commits anything there).
name=$1; shift
cd /verif
git -C /repo diff --quiet || { echo "/repo has uncommitted changes"; exit 2; }
git -C /repo apply /verif/seeded/$name/patch.diff || exit 2
for c in "$@"; do
  out=$(./check $c quick 2>&1)
  rc=$?
  nsig=$(echo "$out" | grep -c "^VIOLATION")
  echo "seed=$name check=$c exit=$rc violations=$nsig $(echo "$out" | grep -m1 'signature:' | cut -c1-160)"
done
git -C /repo checkout -- .
git -C /repo status --short | head -3
