#!/bin/bash
# usage: tools/seedtest.sh <seed-dir-name> <check ids...>   applies seeded/<name>/patch.diff to a scratch worktree of
# /repo at HEAD (never to /repo itself), runs the quick tier of the named checks against that worktree
# (VERIF_REPO), prints the verdicts. The worktree (/var/tmp/seedtest-wt) is reused and reset on every call;
# remove it with `git -C /repo worktree remove --force /var/tmp/seedtest-wt` when done.
name=$1; shift
cd /verif
WT=/var/tmp/seedtest-wt
exec 8>/var/tmp/seedtest.lock; flock 8
if [ ! -d $WT ]; then git -C /repo worktree add -q --detach $WT HEAD || exit 2; fi
git -C $WT checkout -q --detach "$(git -C /repo rev-parse HEAD)" || exit 2
git -C $WT checkout -q -- . ; git -C $WT clean -fdq
git -C $WT apply /verif/seeded/$name/patch.diff || exit 2
for c in "$@"; do
  # evidence of a seeded run must not overwrite the committed evidence: keep and restore it
  cp evidence/$c.json /var/tmp/seedtest-evidence-$c.json 2>/dev/null
  out=$(VERIF_REPO=$WT ./check $c quick 2>&1)
  rc=$?
  cp /var/tmp/seedtest-evidence-$c.json evidence/$c.json 2>/dev/null
  nsig=$(echo "$out" | grep -c "^VIOLATION")
  echo "seed=$name check=$c exit=$rc violations=$nsig $(echo "$out" | grep -m1 'signature:' | cut -c1-160)"
done
git -C $WT checkout -q -- .
