package vs

import (
	"runtime"
	"unsafe"
)

// Channels stay real `chan T` values in the rewritten code but serve only as identities: all state
// (buffer, closed flag, parked senders and receivers) lives in chanState, keyed by the channel pointer.

type chanState struct {
	v      uint64
	keep   interface{} // keeps the real channel alive so that the pointer is not reused
	cap    int
	buf    []interface{}
	closed bool
	recvq  []*selCase
	sendq  []*selCase
}

type selCase struct {
	t    *Thread
	idx  int
	cs   *chanState
	send bool
	val  interface{}
}

func chanPtr[T any](ch chan T) unsafe.Pointer { return *(*unsafe.Pointer)(unsafe.Pointer(&ch)) }

func stateOf(p unsafe.Pointer, keep interface{}, capacity int) *chanState {
	if p == nil {
		return nil
	}
	cs := S.chans[p]
	if cs == nil {
		cs = &chanState{keep: keep, cap: capacity}
		S.chans[p] = cs
	}
	return cs
}

func chanOf[T any](ch <-chan T) *chanState {
	if ch == nil {
		return nil
	}
	return stateOf(*(*unsafe.Pointer)(unsafe.Pointer(&ch)), ch, cap(ch))
}
func chanOfS[T any](ch chan<- T) *chanState {
	if ch == nil {
		return nil
	}
	return stateOf(*(*unsafe.Pointer)(unsafe.Pointer(&ch)), ch, cap(ch))
}

func (c *selCase) ready() bool {
	cs := c.cs
	if cs == nil {
		return false
	}
	if c.send {
		// a parked receiver can be served directly only when the buffer is empty (FIFO)
		return cs.closed || len(cs.buf) < cs.cap || (len(cs.buf) == 0 && len(cs.recvq) > 0)
	}
	return len(cs.buf) > 0 || cs.closed || len(cs.sendq) > 0
}

func dequeue(t *Thread) {
	for _, c := range t.sel {
		if c.cs == nil {
			continue
		}
		q := &c.cs.recvq
		if c.send {
			q = &c.cs.sendq
		}
		for i, x := range *q {
			if x == c {
				*q = append((*q)[:i:i], (*q)[i+1:]...)
				break
			}
		}
	}
	t.sel = nil
}

// doSelect parks the running thread on the cases and completes exactly one of them. It returns the
// index of the completed case (-1 = default). A parked case that a partner completes (direct hand-off,
// as in Go) commits the thread to that case.
func doSelect(cases []*selCase, hasDefault bool, what string) (int, interface{}, bool) {
	s := S
	if s.killed {
		runtime.Goexit()
	}
	t := s.cur
	t.served = false
	for _, c := range cases {
		c.t = t
		if c.cs == nil {
			continue
		}
		if c.send {
			c.cs.sendq = append(c.cs.sendq, c)
		} else {
			c.cs.recvq = append(c.cs.recvq, c)
		}
	}
	t.sel = cases
	point(what, func() bool {
		if t.served || hasDefault {
			return true
		}
		for _, c := range cases {
			if c.selfReady(t) {
				return true
			}
		}
		return false
	})
	if t.served {
		touch(nil, uint64(100+t.selIdx))
		return t.selIdx, t.rval, t.rok
	}
	dequeue(t)
	var rdy []*selCase
	for _, c := range cases {
		if c.ready() {
			rdy = append(rdy, c)
		}
	}
	if len(rdy) == 0 {
		touch(nil, 99)
		return -1, nil, false
	}
	c := rdy[0]
	if len(rdy) > 1 {
		c = rdy[Choose(len(rdy), "select")]
	}
	cs := c.cs
	touch(&cs.v, uint64(200+c.idx))
	if c.send {
		if cs.closed {
			panic("send on closed channel")
		}
		if len(cs.recvq) > 0 && len(cs.buf) == 0 {
			p := cs.recvq[0]
			pt := p.t
			dequeue(pt)
			pt.served, pt.selIdx, pt.rval, pt.rok = true, p.idx, c.val, true
			pt.h = mix(pt.h, S.ver(&cs.v), 300)
		} else {
			cs.buf = append(cs.buf, c.val)
		}
		return c.idx, nil, false
	}
	if len(cs.buf) > 0 {
		v := cs.buf[0]
		cs.buf = cs.buf[1:]
		if len(cs.sendq) > 0 { // a parked sender moves its value into the freed slot
			p := cs.sendq[0]
			pt := p.t
			dequeue(pt)
			cs.buf = append(cs.buf, p.val)
			pt.served, pt.selIdx = true, p.idx
			pt.h = mix(pt.h, S.ver(&cs.v), 301)
		}
		return c.idx, v, true
	}
	if len(cs.sendq) > 0 {
		p := cs.sendq[0]
		pt := p.t
		dequeue(pt)
		pt.served, pt.selIdx = true, p.idx
		pt.h = mix(pt.h, S.ver(&cs.v), 302)
		return c.idx, p.val, true
	}
	return c.idx, nil, false // closed and drained
}

// selfReady is ready() from the point of view of the parked thread itself: its own parked cases on the
// same channel (a select that both sends and receives on one channel) do not count as partners.
func (c *selCase) selfReady(t *Thread) bool {
	cs := c.cs
	if cs == nil {
		return false
	}
	other := func(q []*selCase) bool {
		for _, x := range q {
			if x.t != t {
				return true
			}
		}
		return false
	}
	if c.send {
		return cs.closed || len(cs.buf) < cs.cap || (len(cs.buf) == 0 && other(cs.recvq))
	}
	return len(cs.buf) > 0 || cs.closed || other(cs.sendq)
}

func Send[T any](ch chan<- T, v T) {
	if S == nil {
		ch <- v
		return
	}
	doSelect([]*selCase{{cs: chanOfS(ch), send: true, val: v}}, false, "chan.send")
}

func Recv[T any](ch <-chan T) T { v, _ := Recv2(ch); return v }

func Recv2[T any](ch <-chan T) (T, bool) {
	if S == nil {
		v, ok := <-ch
		return v, ok
	}
	_, v, ok := doSelect([]*selCase{{cs: chanOf(ch)}}, false, "chan.recv")
	var z T
	if !ok || v == nil {
		return z, ok
	}
	return v.(T), ok
}

func Close[T any](ch chan<- T) {
	if S == nil {
		close(ch)
		return
	}
	point("chan.close", always)
	cs := chanOfS(ch)
	if cs == nil {
		panic("close of nil channel")
	}
	if cs.closed {
		panic("close of closed channel")
	}
	cs.closed = true
	touch(&cs.v, 13)
}

func Len[T any](ch chan T) int {
	if S == nil {
		return len(ch)
	}
	point("chan.len", always)
	cs := chanOf((<-chan T)(ch))
	if cs == nil {
		return 0
	}
	touch(&cs.v, 14)
	return len(cs.buf)
}

func Cap[T any](ch chan T) int { return cap(ch) }

// ---- select ----

type Sel struct {
	I  int
	V  interface{}
	OK bool
}

type Caser interface{ mk(i int) *selCase }
type RecvCase[T any] struct{ ch <-chan T }
type SendCase[T any] struct {
	ch chan<- T
	v  T
}

func CaseRecv[T any](ch <-chan T) RecvCase[T]      { return RecvCase[T]{ch} }
func CaseSend[T any](ch chan<- T, v T) SendCase[T] { return SendCase[T]{ch, v} }
func (c RecvCase[T]) mk(i int) *selCase            { return &selCase{idx: i, cs: chanOf(c.ch)} }
func (c SendCase[T]) mk(i int) *selCase {
	return &selCase{idx: i, cs: chanOfS(c.ch), send: true, val: c.v}
}
func (c RecvCase[T]) Val(s Sel) T {
	var z T
	if !s.OK || s.V == nil {
		return z
	}
	return s.V.(T)
}
func (c RecvCase[T]) Val2(s Sel) (T, bool) { return c.Val(s), s.OK }

func Select(hasDefault bool, cases ...Caser) Sel {
	if S == nil {
		panic("vs.Select outside an exploration")
	}
	scs := make([]*selCase, len(cases))
	for i, c := range cases {
		scs[i] = c.mk(i)
	}
	i, v, ok := doSelect(scs, hasDefault, "select")
	return Sel{I: i, V: v, OK: ok}
}
