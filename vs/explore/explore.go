// Package explore is the stateless depth-first explorer of the mcgo engine: it enumerates every
// execution of a scenario up to a deviation bound (preemptions and eager timer firings cost 1, data
// choices and switches at blocking points are free), with optional happens-before state caching, prefix
// replay with hard divergence errors, and subtree sharding.
package explore

import (
	"fmt"
	"time"

	"verif/vs"
)

type rec struct {
	d vs.Decision
	c int
}

func cost(d vs.Decision, c int) int {
	if c == 0 || d.Kind != "sched" {
		return 0
	}
	if d.Timer && c == d.N-1 {
		return 1 // firing a timer early is a deviation
	}
	if d.SelfFirst {
		return 1 // switching away from a runnable thread is a preemption
	}
	return 0
}

// chooser replays a prefix and then takes choice 0 everywhere.
type chooser struct {
	prefix []int
	recs   []rec
	cost   int
	cache  map[uint64]int8
	div    string
}

func (r *chooser) Choose(d vs.Decision) int {
	c := 0
	if len(r.recs) < len(r.prefix) {
		c = r.prefix[len(r.recs)]
		if c >= d.N {
			r.div = fmt.Sprintf("replay divergence at choice %d: recorded %d, only %d alternatives (%s)", len(r.recs), c, d.N, d.Kind)
			c = 0
		}
	}
	r.recs = append(r.recs, rec{d, c})
	r.cost += cost(d, c)
	return c
}

func (r *chooser) Visit(key uint64, running int) bool {
	if r.cache == nil || len(r.recs) < len(r.prefix) {
		return true
	}
	key ^= uint64(running+2) * 0x9E3779B97F4A7C15
	if c, ok := r.cache[key]; ok && int(c) <= r.cost {
		return false
	}
	r.cache[key] = int8(r.cost)
	return true
}

func (r *chooser) choices() []int {
	out := make([]int, len(r.recs))
	for i, x := range r.recs {
		out[i] = x.c
	}
	return out
}

// Exec is one complete execution handed to the scenario's oracle.
type Exec struct {
	Sched   *vs.Sched
	Choices []int
	Cost    int
}

// RunFunc builds a fresh instance of the scenario and runs it under the chooser.
type RunFunc func(ch vs.Chooser, trace bool) *vs.Sched

type Stats struct {
	Executions int64 `json:"executions"`
	Steps      int64 `json:"steps"`
	Pruned     int64 `json:"pruned"`
	States     int64 `json:"states"`
	Capped     bool  `json:"capped"`  // deadline or execution cap hit: not exhaustive for this bound
	Aborted    int64 `json:"aborted"` // executions cut by the step horizon
}

func (s *Stats) Add(o Stats) {
	s.Executions += o.Executions
	s.Steps += o.Steps
	s.Pruned += o.Pruned
	s.States += o.States
	s.Capped = s.Capped || o.Capped
	s.Aborted += o.Aborted
}

type Explorer struct {
	Run      RunFunc
	Check    func(x *Exec) // oracle, called for every complete (not pruned) execution
	Bound    int
	UseCache bool
	Deadline time.Time
	MaxExecs int64
	Stats    Stats
	cache    map[uint64]int8
	Err      string // infrastructure error (replay divergence)
}

func (e *Explorer) capped() bool {
	if e.Stats.Capped {
		return true
	}
	if (e.MaxExecs > 0 && e.Stats.Executions >= e.MaxExecs) || (!e.Deadline.IsZero() && e.Stats.Executions%64 == 0 && time.Now().After(e.Deadline)) {
		e.Stats.Capped = true
	}
	return e.Stats.Capped
}

// one runs the execution determined by prefix and returns its children (prefixes one deviation deeper).
func (e *Explorer) one(prefix []int) (children [][]int) {
	if e.UseCache && e.cache == nil {
		e.cache = map[uint64]int8{}
	}
	ch := &chooser{prefix: prefix}
	if e.UseCache {
		ch.cache = e.cache
	}
	s := e.Run(ch, false)
	e.Stats.Executions++
	e.Stats.Steps += int64(s.Steps)
	if ch.div != "" {
		e.Err = ch.div
		return nil
	}
	if len(ch.recs) < len(prefix) {
		e.Err = fmt.Sprintf("replay divergence: execution ended after %d choices, prefix has %d", len(ch.recs), len(prefix))
		return nil
	}
	if s.Pruned {
		e.Stats.Pruned++
	} else {
		if s.Aborted != "" {
			e.Stats.Aborted++
		}
		e.Check(&Exec{Sched: s, Choices: ch.choices(), Cost: ch.cost})
	}
	c := 0
	for i, r := range ch.recs {
		if i >= len(prefix) {
			for alt := 1; alt < r.d.N; alt++ {
				if c+cost(r.d, alt) > e.Bound {
					continue
				}
				np := make([]int, i+1)
				for j := 0; j < i; j++ {
					np[j] = ch.recs[j].c
				}
				np[i] = alt
				children = append(children, np)
			}
		}
		c += cost(r.d, r.c)
	}
	return children
}

// Subtree explores the subtree rooted at prefix (including the execution of prefix itself).
func (e *Explorer) Subtree(prefix []int) {
	if e.Err != "" || e.capped() {
		return
	}
	for _, c := range e.one(prefix) {
		e.Subtree(c)
	}
	if e.cache != nil {
		e.Stats.States = int64(len(e.cache))
	}
}

// Budgeted explores the subtrees rooted at the given prefixes depth-first with an explicit stack and stops
// after about maxExecs executions; it returns the prefixes of the subtrees that are still unexplored (the
// coordinator hands them out again: dynamic load balancing across worker processes).
func (e *Explorer) Budgeted(prefixes [][]int, maxExecs int64) (rest [][]int) {
	stack := append([][]int{}, prefixes...)
	start := e.Stats.Executions
	for len(stack) > 0 && e.Err == "" {
		if e.Stats.Executions-start >= maxExecs || e.capped() {
			break
		}
		p := stack[len(stack)-1]
		stack = stack[:len(stack)-1]
		ch := e.one(p)
		for i := len(ch) - 1; i >= 0; i-- { // children in order: the earliest branch point is explored first
			stack = append(stack, ch[i])
		}
	}
	if e.cache != nil {
		e.Stats.States = int64(len(e.cache))
	}
	return stack
}

// Expand explores breadth-first from the root until at least `want` unexplored subtrees are pending (or
// the tree is exhausted) and returns their prefixes. The executions run during expansion are checked.
func (e *Explorer) Expand(want int) [][]int {
	frontier := [][]int{nil}
	for len(frontier) > 0 && len(frontier) < want && e.Err == "" && !e.capped() {
		p := frontier[0]
		frontier = append(frontier[1:], e.one(p)...)
	}
	if e.cache != nil {
		e.Stats.States = int64(len(e.cache))
	}
	return frontier
}

// Replay runs exactly the recorded choice list with tracing on.
func Replay(run RunFunc, choices []int) (*vs.Sched, string) {
	ch := &chooser{prefix: choices}
	s := run(ch, true)
	if ch.div != "" {
		return s, ch.div
	}
	if len(ch.recs) < len(choices) {
		return s, fmt.Sprintf("replay divergence: execution ended after %d choices, %d recorded", len(ch.recs), len(choices))
	}
	for i := len(choices); i < len(ch.recs); i++ {
		if ch.recs[i].c != 0 {
			return s, "replay divergence: non-default choice after the recorded list"
		}
	}
	return s, ""
}
