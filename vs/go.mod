module verif/vs

go 1.21
