package litmus

// Litmus suite for the vs runtime (trusted-base validation, DESIGN.md appendix C): every litmus is explored
// under vs without bound (set V of final outcomes) and compared with the hand-written expected set; for the
// litmuses that can run on the real runtime, the outcomes seen for real (set R) must be a subset of V.

import (
	"context"
	"fmt"
	"sort"
	"strings"
	"sync"
	"sync/atomic"
	"testing"
	"time"

	"verif/vs"
	"verif/vs/explore"
)

func exploreAll(t *testing.T, cfg vs.Config, body func(out *string)) map[string]int {
	t.Helper()
	outs := map[string]int{}
	var last string
	var hang bool
	for _, cache := range []bool{false, true} {
		seen := map[string]int{}
		ex := &explore.Explorer{Bound: 50, UseCache: cache, Run: func(ch vs.Chooser, trace bool) *vs.Sched {
			last = ""
			c := cfg
			c.Trace = trace
			s := vs.Run(ch, c, func() { body(&last) })
			hang = len(s.Hangs) > 0
			return s
		}}
		ex.Check = func(x *explore.Exec) {
			o := last
			if hang {
				o += "+deadlock"
			}
			seen[o]++
		}
		ex.Subtree(nil)
		if ex.Err != "" {
			t.Fatal(ex.Err)
		}
		if !cache {
			outs = seen
		} else {
			// the state cache must not lose an outcome
			for o := range outs {
				if seen[o] == 0 {
					t.Errorf("state cache lost outcome %q", o)
				}
			}
			for o := range seen {
				if outs[o] == 0 {
					t.Errorf("state cache invented outcome %q", o)
				}
			}
		}
	}
	return outs
}

func expect(t *testing.T, got map[string]int, want ...string) {
	t.Helper()
	var g []string
	for o := range got {
		g = append(g, o)
	}
	sort.Strings(g)
	sort.Strings(want)
	if strings.Join(g, " | ") != strings.Join(want, " | ") {
		t.Errorf("outcomes %v, want %v", g, want)
	}
}

func realSubset(t *testing.T, v map[string]int, rounds int, f func() string) {
	t.Helper()
	seen := map[string]bool{}
	for i := 0; i < rounds; i++ {
		seen[f()] = true
	}
	for o := range seen {
		if v[o] == 0 {
			t.Errorf("the real runtime produced %q, which the model never does (model: %v)", o, v)
		}
	}
}

func TestLostUpdate(t *testing.T) {
	v := exploreAll(t, vs.Config{}, func(out *string) {
		var x int64
		var wg vs.WaitGroup
		wg.Add(2)
		for i := 0; i < 2; i++ {
			vs.GoFG(fmt.Sprint("t", i), func() { defer wg.Done(); vs.StoreInt64(&x, vs.LoadInt64(&x)+1) })
		}
		wg.Wait()
		*out = fmt.Sprint(x)
	})
	expect(t, v, "1", "2")
	realSubset(t, v, 20000, func() string {
		var x int64
		var wg sync.WaitGroup
		wg.Add(2)
		for i := 0; i < 2; i++ {
			go func() { defer wg.Done(); atomic.StoreInt64(&x, atomic.LoadInt64(&x)+1) }()
		}
		wg.Wait()
		return fmt.Sprint(x)
	})
}

func TestMutexProtects(t *testing.T) {
	v := exploreAll(t, vs.Config{}, func(out *string) {
		var x int
		var mu vs.Mutex
		var wg vs.WaitGroup
		wg.Add(2)
		for i := 0; i < 2; i++ {
			vs.GoFG(fmt.Sprint("t", i), func() { defer wg.Done(); mu.Lock(); x = x + 1; mu.Unlock() })
		}
		wg.Wait()
		*out = fmt.Sprint(x)
	})
	expect(t, v, "2")
}

func TestRWMutexReaderReentryWithWaitingWriter(t *testing.T) {
	v := exploreAll(t, vs.Config{}, func(out *string) {
		var rw vs.RWMutex
		var wg vs.WaitGroup
		wg.Add(2)
		vs.GoFG("reader", func() { defer wg.Done(); rw.RLock(); vs.Point("between"); rw.RLock(); rw.RUnlock(); rw.RUnlock() })
		vs.GoFG("writer", func() { defer wg.Done(); rw.Lock(); rw.Unlock() })
		wg.Wait()
		*out = "done"
	})
	// a writer arriving between the two RLocks blocks the second one: Go's documented deadlock
	expect(t, v, "done", "+deadlock")
}

func TestUnbufferedChannelAndSelect(t *testing.T) {
	v := exploreAll(t, vs.Config{}, func(out *string) {
		a, b := make(chan int), make(chan int)
		vs.GoFG("sa", func() { vs.Send(a, 1) })
		vs.GoFG("sb", func() { vs.Send(b, 2) })
		ca, cb := vs.CaseRecv((<-chan int)(a)), vs.CaseRecv((<-chan int)(b))
		r := vs.Select(false, ca, cb)
		first := r.I
		// drain the other one so that nobody hangs
		if first == 0 {
			vs.Recv(b)
		} else {
			vs.Recv(a)
		}
		*out = fmt.Sprint("first=", first)
	})
	expect(t, v, "first=0", "first=1")
	realSubset(t, v, 5000, func() string {
		a, b := make(chan int), make(chan int)
		go func() { a <- 1 }()
		go func() { b <- 2 }()
		first := 0
		select {
		case <-a:
			<-b
		case <-b:
			first = 1
			<-a
		}
		return fmt.Sprint("first=", first)
	})
}

func TestBufferedChannelCapacityAndClose(t *testing.T) {
	v := exploreAll(t, vs.Config{}, func(out *string) {
		ch := make(chan int, 1)
		var sent int64
		vs.GoFG("sender", func() {
			for i := 0; i < 3; i++ {
				vs.Send(ch, i)
				vs.AddInt64(&sent, 1)
			}
			vs.Close(ch)
		})
		n := vs.Len(ch)
		var got []int
		for {
			x, ok := vs.Recv2(ch)
			if !ok {
				break
			}
			got = append(got, x)
		}
		*out = fmt.Sprintf("len-at-start<=1:%v got=%v", n <= 1, got)
	})
	expect(t, v, "len-at-start<=1:true got=[0 1 2]")
}

func TestSendOnClosedPanicsAndNilBlocks(t *testing.T) {
	v := exploreAll(t, vs.Config{}, func(out *string) {
		ch := make(chan int, 1)
		vs.Close(ch)
		func() {
			defer func() {
				if r := recover(); r != nil {
					*out = "panic"
				}
			}()
			vs.Send(ch, 1)
		}()
		var nilch chan int
		vs.GoFG("blocked-forever", func() { vs.Recv(nilch) })
	})
	expect(t, v, "panic+deadlock")
}

func TestOnceAndWaitGroup(t *testing.T) {
	v := exploreAll(t, vs.Config{}, func(out *string) {
		var once vs.Once
		var n, seenInit int64
		var wg vs.WaitGroup
		wg.Add(2)
		for i := 0; i < 2; i++ {
			vs.GoFG(fmt.Sprint("t", i), func() {
				defer wg.Done()
				once.Do(func() { vs.Point("initialising"); vs.AddInt64(&n, 1) })
				if vs.LoadInt64(&n) == 1 {
					vs.AddInt64(&seenInit, 1)
				}
			})
		}
		wg.Wait()
		*out = fmt.Sprintf("init=%d both-saw-it=%v", n, seenInit == 2)
	})
	expect(t, v, "init=1 both-saw-it=true")
}

func TestSyncMapLoadOrStore(t *testing.T) {
	v := exploreAll(t, vs.Config{}, func(out *string) {
		var m vs.Map
		var winners int64
		var wg vs.WaitGroup
		wg.Add(3)
		for i := 0; i < 3; i++ {
			i := i
			vs.GoFG(fmt.Sprint("t", i), func() {
				defer wg.Done()
				if _, loaded := m.LoadOrStore("k", i); !loaded {
					vs.AddInt64(&winners, 1)
				}
			})
		}
		wg.Wait()
		*out = fmt.Sprint("winners=", winners)
	})
	expect(t, v, "winners=1")
}

func TestContextAndTimers(t *testing.T) {
	v := exploreAll(t, vs.Config{}, func(out *string) {
		parent, cancelParent := vs.WithCancel(context.Background())
		child, cancelChild := vs.WithTimeout(parent, 5*time.Second)
		defer cancelParent()
		defer cancelChild()
		early := vs.After(2 * time.Second)
		vs.Recv(child.Done())
		*out = fmt.Sprintf("child=%v parent-alive=%v elapsed=%v early-fired-first=%v", child.Err(), parent.Err() == nil, vs.Elapsed(), vs.Len(make(chan int)) == 0 && len(early) == 0)
	})
	expect(t, v, "child=context deadline exceeded parent-alive=true elapsed=5s early-fired-first=true")
	w := exploreAll(t, vs.Config{}, func(out *string) {
		parent, cancelParent := vs.WithCancel(context.Background())
		child, cancelChild := vs.WithTimeout(parent, 5*time.Second)
		defer cancelChild()
		vs.GoFG("canceller", func() { cancelParent() })
		vs.Recv(child.Done())
		*out = fmt.Sprintf("child=%v elapsed=%v timers-left=%d", child.Err(), vs.Elapsed(), len(vs.PendingTimers()))
	})
	expect(t, w, "child=context canceled elapsed=0s timers-left=1")
}

func TestSelectDefaultAndGoschedLoop(t *testing.T) {
	v := exploreAll(t, vs.Config{}, func(out *string) {
		ch := make(chan int)
		r := vs.Select(true, vs.CaseRecv((<-chan int)(ch)))
		var flag int64
		vs.GoFG("setter", func() { vs.StoreInt64(&flag, 1) })
		spins := 0
		for vs.LoadInt64(&flag) == 0 {
			vs.Gosched()
			spins++
		}
		*out = fmt.Sprintf("default=%v terminated=true", r.I == -1)
	})
	expect(t, v, "default=true terminated=true")
}

func TestGoArgumentsAndEagerTimer(t *testing.T) {
	// an eager timer may fire at any scheduling point: both "timed out" and "got the value" are reachable
	v := exploreAll(t, vs.Config{EagerHorizon: time.Second}, func(out *string) {
		ch := make(chan int, 1)
		ctx, cancel := vs.WithTimeout(context.Background(), time.Second)
		defer cancel()
		vs.GoFG("producer", func() { vs.Send(ch, 7) })
		r := vs.Select(false, vs.CaseRecv(ctx.Done()), vs.CaseRecv((<-chan int)(ch)))
		*out = fmt.Sprint("case=", r.I)
	})
	expect(t, v, "case=0", "case=1")
}

func TestMapOrderIsExplored(t *testing.T) {
	v := exploreAll(t, vs.Config{}, func(out *string) {
		m := map[string]int{"a": 1, "b": 2}
		*out = fmt.Sprint(vs.MapKeys(m))
	})
	expect(t, v, "[a b]", "[b a]")
}
