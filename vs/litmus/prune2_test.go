package litmus

import (
	"testing"

	"verif/vs"
	"verif/vs/explore"
)

func TestCachePrunesWithWaitGroup(t *testing.T) {
	for _, cache := range []bool{false, true} {
		ex := &explore.Explorer{Bound: 2, UseCache: cache, Run: func(ch vs.Chooser, trace bool) *vs.Sched {
			return vs.Run(ch, vs.Config{Trace: trace}, func() {
				var x, y int64
				var wg vs.WaitGroup
				wg.Add(2)
				vs.GoFG("a", func() { defer wg.Done(); vs.AddInt64(&x, 1); vs.Point("p"); vs.AddInt64(&x, 1) })
				vs.GoFG("b", func() { defer wg.Done(); vs.AddInt64(&y, 1); vs.Point("p"); vs.AddInt64(&y, 1) })
				wg.Wait()
			})
		}}
		ex.Check = func(x *explore.Exec) {}
		ex.Subtree(nil)
		t.Logf("cache=%v executions=%d pruned=%d states=%d", cache, ex.Stats.Executions, ex.Stats.Pruned, ex.Stats.States)
	}
}
