package litmus

import (
	"testing"

	"verif/vs"
	"verif/vs/explore"
)

func TestCachePrunesIndependentOps(t *testing.T) {
	for _, cache := range []bool{false, true} {
		ex := &explore.Explorer{Bound: 4, UseCache: cache, Run: func(ch vs.Chooser, trace bool) *vs.Sched {
			return vs.Run(ch, vs.Config{Trace: trace}, func() {
				var x, y int64
				vs.GoFG("a", func() { vs.AddInt64(&x, 1); vs.AddInt64(&x, 1); vs.AddInt64(&x, 1) })
				vs.GoFG("b", func() { vs.AddInt64(&y, 1); vs.AddInt64(&y, 1); vs.AddInt64(&y, 1) })
			})
		}}
		ex.Check = func(x *explore.Exec) {}
		ex.Subtree(nil)
		t.Logf("cache=%v executions=%d pruned=%d states=%d", cache, ex.Stats.Executions, ex.Stats.Pruned, ex.Stats.States)
	}
}
