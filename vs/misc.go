package vs

import (
	"fmt"
	"math/rand"
	"sort"
)

// ---- math/rand: every draw is an explorer data choice over all values ----

const MaxRandFan = 16

func Seed(int64)                         {}
func Shuffle(n int, swap func(i, j int)) {}
func Intn(n int) int {
	if S == nil {
		return rand.Intn(n)
	}
	if n > MaxRandFan {
		S.Vars["rand-capped"] = true
		return Choose(MaxRandFan, "rand") * (n / MaxRandFan)
	}
	return Choose(n, "rand")
}
func Int63n(n int64) int64 { return int64(Intn(int(n))) }
func Int31n(n int32) int32 { return int32(Intn(int(n))) }
func Int63() int64         { return int64(Choose(2, "rand63")) * 0x3fffffffffffffff }
func Int() int             { return int(Int63()) }
func Float64() float64     { return float64(Choose(2, "randf")) * 0.75 }

// MapKeysSorted returns the keys of m in canonical (sorted by printed form) order.
func MapKeysSorted[K comparable, V any](m map[K]V) []K {
	keys := make([]K, 0, len(m))
	for k := range m {
		keys = append(keys, k)
	}
	sort.Slice(keys, func(i, j int) bool { return fmt.Sprint(keys[i]) < fmt.Sprint(keys[j]) })
	return keys
}

// MapKeys returns the keys of m in a canonical (sorted by printed form) order. With at most three keys
// the explorer chooses the iteration order; above that the sorted order is used and the cap is recorded.
func MapKeys[K comparable, V any](m map[K]V) []K {
	keys := make([]K, 0, len(m))
	for k := range m {
		keys = append(keys, k)
	}
	sort.Slice(keys, func(i, j int) bool { return fmt.Sprint(keys[i]) < fmt.Sprint(keys[j]) })
	if S == nil || len(keys) < 2 {
		return keys
	}
	if len(keys) > 3 {
		S.Vars["maporder-capped"] = true
		return keys
	}
	// permutation by successive choices
	out := make([]K, 0, len(keys))
	rest := keys
	for len(rest) > 1 {
		i := Choose(len(rest), "maporder")
		out = append(out, rest[i])
		rest = append(append([]K{}, rest[:i]...), rest[i+1:]...)
	}
	return append(out, rest[0])
}
