package vs

import (
	"context"
	"errors"
	"io"
	"net"
	"time"
)

// Conn is what the fake dialer hands to the code under test.
type Conn = net.Conn

// Dialer replaces net.Dialer: a dial is a scheduling point and returns the harness's scripted connection.
type Dialer struct {
	Timeout   time.Duration
	KeepAlive time.Duration
	DualStack bool
	Deadline  time.Time
	LocalAddr net.Addr
}

func (d *Dialer) DialContext(ctx context.Context, network, addr string) (net.Conn, error) {
	point("dial", always)
	touch(nil, 19)
	if S == nil || S.Dial == nil {
		return nil, errors.New("vs: no dial hook")
	}
	return S.Dial(network, addr)
}
func (d *Dialer) Dial(network, addr string) (net.Conn, error) {
	return d.DialContext(context.Background(), network, addr)
}

type fakeAddr string

func (a fakeAddr) Network() string { return "fake" }
func (a fakeAddr) String() string  { return string(a) }

var ErrClosed = errors.New("use of closed network connection")

// ScriptConn is a connection whose peer is a pure function of the bytes written so far (no peer thread):
// React is called after every Write with all unconsumed bytes; it returns how many it consumed, bytes to
// deliver to the reader, and whether the peer closes after that. Deliver lets the harness (or a peer
// decision taken at a later point) push bytes or EOF at any time.
type ScriptConn struct {
	v        uint64
	Name     string
	in       []byte
	rbuf     []byte
	closed   bool // closed locally
	eof      bool // peer closed / reset
	rerr     error
	WriteErr error // when set, writes fail with it
	React    func(c *ScriptConn, in []byte) (consumed int, out []byte, closeAfter bool)
	OnClose  func(c *ScriptConn)
	Reads    int
	Writes   int
	// ChunkReads: when > 0, a Read returns at most this many bytes (short reads)
	ChunkReads int
}

func (p *ScriptConn) Read(b []byte) (int, error) {
	point(p.Name+".read", func() bool { return len(p.rbuf) > 0 || p.closed || p.eof })
	touch(&p.v, 16)
	p.Reads++
	if p.closed {
		return 0, ErrClosed
	}
	if len(p.rbuf) == 0 {
		if p.rerr != nil {
			return 0, p.rerr
		}
		return 0, io.EOF
	}
	n := len(b)
	if p.ChunkReads > 0 && n > p.ChunkReads {
		n = p.ChunkReads
	}
	n = copy(b[:n], p.rbuf)
	p.rbuf = p.rbuf[n:]
	return n, nil
}

func (p *ScriptConn) Write(b []byte) (int, error) {
	point(p.Name+".write", always)
	touch(&p.v, 17)
	p.Writes++
	if p.closed {
		return 0, ErrClosed
	}
	if p.eof {
		return 0, errors.New("write: broken pipe")
	}
	if p.WriteErr != nil {
		return 0, p.WriteErr
	}
	p.in = append(p.in, b...)
	p.pump()
	return len(b), nil
}

func (p *ScriptConn) pump() {
	for p.React != nil && !p.eof {
		n, out, cl := p.React(p, p.in)
		p.rbuf = append(p.rbuf, out...)
		if cl {
			p.eof = true
		}
		if n == 0 {
			break
		}
		p.in = p.in[n:]
	}
}

// Deliver makes bytes readable (called by harness threads or timer bodies; touches the connection).
func (p *ScriptConn) Deliver(out []byte) { touch(&p.v, 17); p.rbuf = append(p.rbuf, out...) }

// PeerClose makes the peer end the connection (EOF after the buffered bytes, or err if not nil).
func (p *ScriptConn) PeerClose(err error) { touch(&p.v, 18); p.eof = true; p.rerr = err }

func (p *ScriptConn) Close() error {
	point(p.Name+".close", always)
	touch(&p.v, 18)
	if p.closed {
		return ErrClosed
	}
	p.closed = true
	if p.OnClose != nil {
		p.OnClose(p)
	}
	return nil
}
func (p *ScriptConn) IsClosed() bool                     { return p.closed }
func (p *ScriptConn) Unconsumed() []byte                 { return p.in }
func (p *ScriptConn) LocalAddr() net.Addr                { return fakeAddr("local") }
func (p *ScriptConn) RemoteAddr() net.Addr               { return fakeAddr("remote") }
func (p *ScriptConn) SetDeadline(t time.Time) error      { return nil }
func (p *ScriptConn) SetReadDeadline(t time.Time) error  { return nil }
func (p *ScriptConn) SetWriteDeadline(t time.Time) error { return nil }

// DgramConn is the datagram counterpart of ScriptConn: every Write is one datagram handed to React, every
// Read returns one queued datagram.
type DgramConn struct {
	v      uint64
	Name   string
	queue  [][]byte
	closed bool
	rerr   error
	dead   bool
	React  func(c *DgramConn, datagram []byte) (out [][]byte)
	Writes int
}

func (p *DgramConn) Read(b []byte) (int, error) {
	point(p.Name+".read", func() bool { return len(p.queue) > 0 || p.closed || p.dead })
	touch(&p.v, 16)
	if p.closed {
		return 0, ErrClosed
	}
	if len(p.queue) == 0 {
		if p.rerr != nil {
			return 0, p.rerr
		}
		return 0, errors.New("read: connection refused")
	}
	n := copy(b, p.queue[0])
	p.queue = p.queue[1:]
	return n, nil
}

func (p *DgramConn) Write(b []byte) (int, error) {
	point(p.Name+".write", always)
	touch(&p.v, 17)
	p.Writes++
	if p.closed {
		return 0, ErrClosed
	}
	if p.React != nil {
		p.queue = append(p.queue, p.React(p, append([]byte{}, b...))...)
	}
	return len(b), nil
}

// Deliver queues a datagram for the reader.
func (p *DgramConn) Deliver(d []byte) { touch(&p.v, 17); p.queue = append(p.queue, d) }

// Fail makes further reads fail with err (e.g. ICMP port unreachable surfacing as ECONNREFUSED).
func (p *DgramConn) Fail(err error) { touch(&p.v, 18); p.dead = true; p.rerr = err }

func (p *DgramConn) Close() error {
	point(p.Name+".close", always)
	touch(&p.v, 18)
	if p.closed {
		return ErrClosed
	}
	p.closed = true
	return nil
}
func (p *DgramConn) IsClosed() bool                     { return p.closed }
func (p *DgramConn) LocalAddr() net.Addr                { return fakeAddr("local") }
func (p *DgramConn) RemoteAddr() net.Addr               { return fakeAddr("remote") }
func (p *DgramConn) SetDeadline(t time.Time) error      { return nil }
func (p *DgramConn) SetReadDeadline(t time.Time) error  { return nil }
func (p *DgramConn) SetWriteDeadline(t time.Time) error { return nil }
