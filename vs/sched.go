// Package vs is the controlled-scheduler runtime of the mcgo engine: the rewritten copy of the repository
// calls these shims instead of sync / sync/atomic / channel operations / go statements / time / context /
// math/rand / net dialing. Inside Run exactly one goroutine executes at a time and every scheduling or
// data choice is taken by a Chooser (the explorer), so an execution is a pure function of its choice
// list. Outside Run (package init) the shims execute directly.
package vs

import (
	"fmt"
	"runtime"
	"sync"
	"time"
	"unsafe"
)

type Thread struct {
	id     int
	name   string
	wake   chan struct{}
	en     func() bool // enabledness of the pending operation (nil = not at a scheduling point)
	what   string
	done   bool
	fg     bool // foreground (harness) thread: blocked at quiescence = hang
	yield  bool // pending op is a yield: other threads are preferred
	served bool // a channel partner completed one of this thread's parked cases
	selIdx int
	rval   interface{}
	rok    bool
	sel    []*selCase
	h      uint64
}

func (t *Thread) Name() string { return t.name }

// Decision describes one choice the explorer has to take.
type Decision struct {
	N         int    // number of alternatives; alternative 0 is the default
	SelfFirst bool   // alternative 0 = "the running thread continues"; any other choice is a preemption
	Timer     bool   // the last alternative is "fire the earliest timer now" (an eager timer; costs like a preemption)
	Kind      string // "sched" or the name of a data choice ("select", "rand", "peer-order", ...)
}

// Chooser is implemented by the explorer.
type Chooser interface {
	Choose(d Decision) int
	// Visit is called before every scheduling decision with more than one alternative; returning false
	// prunes the execution (this state has been fully explored with at least as much budget left).
	Visit(key uint64, running int) bool
}

type Sched struct {
	threads  []*Thread
	cur      *Thread
	chooser  Chooser
	chans    map[unsafe.Pointer]*chanState
	atoms    map[unsafe.Pointer]*uint64
	timers   []*timer
	now      int64
	clkh     uint64 // hash of the clock as an actor (timer bodies)
	clkv     uint64 // version of the clock as an object (timer list, current time)
	tag      uint64
	killed   bool
	finished chan struct{}
	wg       sync.WaitGroup
	tseq     int
	resets   []func()

	// results of the execution
	Steps    int
	TraceOn  bool
	Trace    []string
	Hangs    []string // foreground threads blocked at quiescence
	Leaked   []string // background threads blocked at quiescence
	Panics   []string // panics that escaped a thread
	Pruned   bool
	Aborted  string // horizon / step limit hit
	MaxSteps int

	EagerHorizon int64 // timers due within this many ns may fire at any scheduling point (an explorer choice)
	Dial         func(network, addr string) (Conn, error)
	Vars         map[string]interface{} // scratch space for harnesses
}

// S is the scheduler of the execution in progress (nil outside Run).
var S *Sched

// Epoch is the virtual wall-clock time at the start of every execution.
var Epoch = time.Date(2022, 2, 27, 12, 0, 0, 0, time.UTC)

type Config struct {
	EagerHorizon time.Duration
	MaxSteps     int // default 20000
	Trace        bool
	Dial         func(network, addr string) (Conn, error)
}

// Run executes body as the main foreground thread under the chooser and returns when the execution is
// quiescent (all threads done or blocked and no timer left), pruned or aborted.
func Run(ch Chooser, cfg Config, body func()) *Sched {
	s := &Sched{chooser: ch, chans: map[unsafe.Pointer]*chanState{}, atoms: map[unsafe.Pointer]*uint64{},
		finished: make(chan struct{}), EagerHorizon: int64(cfg.EagerHorizon), MaxSteps: cfg.MaxSteps, TraceOn: cfg.Trace,
		Dial: cfg.Dial, Vars: map[string]interface{}{}}
	if cfg.EagerHorizon == 0 {
		s.EagerHorizon = -1
	}
	if s.MaxSteps == 0 {
		s.MaxSteps = 20000
	}
	if S != nil {
		panic("vs.Run: nested")
	}
	runCounter++
	s.tag = runCounter%65535 + 1
	S = s
	t := s.newThread("main", true)
	s.cur = t
	s.wg.Add(1)
	go s.threadMain(t, body)
	t.wake <- struct{}{}
	<-s.finished
	s.killed = true
	for _, th := range s.threads {
		if !th.done {
			select {
			case th.wake <- struct{}{}:
			default:
			}
		}
	}
	s.wg.Wait()
	// global lock objects (package-level mutexes of the code under test) must not stay locked by a thread
	// that was cut off at the end of this execution
	for _, r := range s.resets {
		r()
	}
	s.resets = nil
	S = nil
	return s
}

func mix(a, b, c uint64) uint64 {
	h := a*0x9E3779B97F4A7C15 ^ (b + 0x7F4A7C159E3779B9 + (a << 6) + (a >> 2))
	h ^= c * 0xC2B2AE3D27D4EB4F
	h ^= h >> 29
	h *= 0xBF58476D1CE4E5B9
	h ^= h >> 32
	return h
}

// Object version hashes are tagged with the execution they were written in: an object that survives
// from an earlier execution (package-level registries, pools, locks of the code under test) starts every
// execution with version 0, so that equal states of different executions hash equally.
const verMask = 1<<48 - 1

var runCounter uint64

func (s *Sched) ver(obj *uint64) uint64 {
	if *obj>>48 != s.tag {
		return 0
	}
	return *obj & verMask
}

// touch records that the running thread (or the clock, when a timer fires) performed operation `code` on
// the object whose version hash is *obj: the happens-before hash used by the explorer's state cache.
func touch(obj *uint64, code uint64) {
	s := S
	if s == nil {
		return
	}
	hp := &s.clkh
	if s.cur != nil {
		hp = &s.cur.h
	}
	if obj == nil {
		*hp = mix(*hp, 0, code)
		return
	}
	*hp = mix(*hp, s.ver(obj), code)
	*obj = *hp&verMask | s.tag<<48
}

func (s *Sched) key() uint64 {
	var k uint64 = 1469598103934665603
	for _, t := range s.threads {
		d := uint64(0)
		if t.done {
			d = 1
		}
		k = mix(k, t.h, uint64(t.id)<<1|d)
	}
	return mix(mix(k, s.clkh, uint64(s.now)), s.ver(&s.clkv), 0)
}

func (s *Sched) newThread(name string, fg bool) *Thread {
	t := &Thread{id: len(s.threads), name: name, wake: make(chan struct{}, 1), fg: fg}
	if s.cur != nil {
		s.cur.h = mix(s.cur.h, 0, 77)
		t.h = mix(s.cur.h, uint64(t.id), 78)
	}
	s.threads = append(s.threads, t)
	return t
}

type killed struct{}

func (s *Sched) threadMain(t *Thread, body func()) {
	defer s.wg.Done()
	<-t.wake
	if s.killed {
		return
	}
	defer func() {
		r := recover()
		if s.killed {
			return
		}
		if r != nil {
			if _, ok := r.(killed); !ok {
				buf := make([]byte, 2048)
				buf = buf[:runtime.Stack(buf, false)]
				s.Panics = append(s.Panics, fmt.Sprintf("%s: %v\n%s", t.name, r, buf))
			}
		}
		t.done = true
		t.en = nil
		touch(nil, 79)
		s.dispatch(nil)
	}()
	body()
}

func (s *Sched) enabled(self *Thread) []*Thread {
	var e []*Thread
	if self != nil && self.en != nil && !self.yield && self.en() {
		e = append(e, self)
	}
	for _, t := range s.threads {
		if t != self && !t.done && t.en != nil && t.en() {
			e = append(e, t)
		}
	}
	if len(e) == 0 && self != nil && self.en != nil && self.yield && self.en() {
		// fair scheduling of yields (as in fair stateless model checking): a thread that yields is not
		// schedulable while another thread can make a step; otherwise spin-wait loops unroll forever.
		e = append(e, self)
	}
	return e
}

func (s *Sched) finish(self *Thread) {
	close(s.finished)
	if self != nil {
		<-self.wake // parked until killed
		runtime.Goexit()
	}
}

func (s *Sched) trace(format string, a ...interface{}) {
	if s.TraceOn {
		s.Trace = append(s.Trace, fmt.Sprintf(format, a...))
	}
}

// dispatch picks the next thread to run; self == nil when the caller is exiting. It returns true when
// self was chosen (and simply continues).
func (s *Sched) dispatch(self *Thread) bool {
	for {
		e := s.enabled(self)
		if len(e) == 0 {
			if s.fireTimer(false) {
				continue
			}
			for _, t := range s.threads {
				if !t.done {
					if t.fg {
						s.Hangs = append(s.Hangs, fmt.Sprintf("%s blocked at %s", t.name, t.what))
					} else {
						s.Leaked = append(s.Leaked, fmt.Sprintf("%s blocked at %s", t.name, t.what))
					}
				}
			}
			s.finish(self)
			return false
		}
		if s.Steps >= s.MaxSteps {
			s.Aborted = fmt.Sprintf("step limit %d", s.MaxSteps)
			s.finish(self)
			return false
		}
		n := len(e)
		et := s.eagerTimer()
		if et != nil {
			n++
		}
		i := 0
		if n > 1 {
			selfFirst := self != nil && e[0] == self
			run := -1
			if selfFirst {
				run = self.id
			}
			if !s.chooser.Visit(s.key(), run) {
				s.Pruned = true
				s.finish(self)
				return false
			}
			i = s.chooser.Choose(Decision{N: n, SelfFirst: selfFirst, Timer: et != nil, Kind: "sched"})
		}
		if et != nil && i == n-1 {
			s.fire(et, true)
			continue
		}
		next := e[i]
		s.Steps++
		if s.TraceOn {
			s.Trace = append(s.Trace, next.name+":"+next.what)
		}
		s.cur = next
		if next == self {
			return true
		}
		next.wake <- struct{}{}
		return false
	}
}

// point is a scheduling point of the running thread: the pending operation is enabled when en() holds.
func point(what string, en func() bool) {
	pointY(what, en, false)
}

func pointY(what string, en func() bool, yield bool) {
	s := S
	if s == nil {
		if !en() {
			panic("vs: blocking operation outside an exploration: " + what)
		}
		return
	}
	if s.killed {
		runtime.Goexit()
	}
	t := s.cur
	t.en, t.what, t.yield = en, what, yield
	if !s.dispatch(t) {
		<-t.wake
		if s.killed {
			runtime.Goexit()
		}
	}
	t.en = nil
	t.yield = false
	t.h = mix(t.h, 0, 55) // passing a point is progress even if the operation touches no object
}

func always() bool { return true }

// Go starts a background thread (what the rewritten `go` statement calls).
func Go(f func()) {
	s := S
	if s == nil {
		go f()
		return
	}
	if s.killed {
		runtime.Goexit()
	}
	s.tseq++
	s.spawn(fmt.Sprintf("g%d", s.tseq), false, f)
}

// GoFG starts a named foreground (harness) thread.
func GoFG(name string, f func()) {
	S.spawn(name, true, f)
}

func (s *Sched) spawn(name string, fg bool, f func()) {
	t := s.newThread(name, fg)
	t.en, t.what = always, "start"
	s.wg.Add(1)
	go s.threadMain(t, func() { t.en = nil; f() })
}

// Gosched is a yield: every other enabled thread is preferred, so spin-wait loops terminate.
func Gosched() { pointY("gosched", always, true) }

// Choose is a data choice owned by the explorer (select case, random draw, peer behaviour ...).
func Choose(n int, kind string) int {
	if S == nil || n <= 1 {
		return 0
	}
	if S.killed {
		runtime.Goexit()
	}
	c := S.chooser.Choose(Decision{N: n, Kind: kind})
	touch(nil, uint64(1000+c))
	if S.TraceOn {
		S.Trace = append(S.Trace, fmt.Sprintf("%s:choose(%s)=%d/%d", curName(), kind, c, n))
	}
	return c
}

func curName() string {
	if S != nil && S.cur != nil {
		return S.cur.name
	}
	return "-"
}

// Note appends a harness annotation to the trace.
func Note(format string, a ...interface{}) {
	if S != nil && S.TraceOn {
		S.Trace = append(S.Trace, curName()+":"+fmt.Sprintf(format, a...))
	}
}

// Var is a shared variable of a harness or fake, tracked so that the state cache sees accesses to it.
type Var[T any] struct {
	v uint64
	x T
}

func (v *Var[T]) Get() T  { touch(&v.v, 20); return v.x }
func (v *Var[T]) Set(x T) { touch(&v.v, 21); v.x = x }

// Active reports whether an exploration is in progress.
func Active() bool { return S != nil && !S.killed }

// NumThreads returns (alive, total) thread counts of the current execution.
func NumThreads() (alive, total int) {
	for _, t := range S.threads {
		if !t.done {
			alive++
		}
	}
	return alive, len(S.threads)
}

// Point is a plain scheduling point for harness code (e.g. "inside the downstream handler").
func Point(name string) { point(name, always) }

// Zero is the chooser that always takes the default alternative (sequential runs under the virtual clock).
type Zero struct{}

func (Zero) Choose(Decision) int    { return 0 }
func (Zero) Visit(uint64, int) bool { return true }

// Seq runs body as a single execution with default choices (used by explicit-state parts that need the
// virtual clock but no schedule exploration).
func Seq(cfg Config, body func()) *Sched { return Run(Zero{}, cfg, body) }

// PointWhen is a scheduling point of harness fakes whose operation is enabled only when en() holds.
func PointWhen(name string, en func() bool) { point(name, en) }
