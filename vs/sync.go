package vs

import (
	"sync"
	"unsafe"
)

// ---- sync.Mutex / RWMutex / Once / WaitGroup ----

type Mutex struct {
	held bool
	reg  bool
	v    uint64
}

func (m *Mutex) Lock() {
	point("Mutex.Lock", func() bool { return !m.held })
	m.held = true
	touch(&m.v, 1)
	if S != nil && !m.reg {
		m.reg = true
		S.resets = append(S.resets, func() { m.held, m.reg = false, false })
	}
}
func (m *Mutex) TryLock() bool {
	point("Mutex.TryLock", always)
	touch(&m.v, 1)
	if m.held {
		return false
	}
	m.held = true
	return true
}
func (m *Mutex) Unlock() {
	if !m.held && S != nil && !S.killed {
		panic("sync: unlock of unlocked mutex")
	}
	m.held = false
	touch(&m.v, 2)
}

// RWMutex models Go's writer preference: a waiting writer blocks new readers (this is what makes
// recursive read locking deadlock-prone, so it must be modelled).
type RWMutex struct {
	v        uint64
	w        bool
	r        int
	wwaiting int
	reg      bool
}

func (m *RWMutex) regReset() {
	if S != nil && !m.reg {
		m.reg = true
		S.resets = append(S.resets, func() { m.w, m.r, m.wwaiting, m.reg = false, 0, 0, false })
	}
}

func (m *RWMutex) Lock() {
	m.regReset()
	point("RWMutex.Lock", always) // arrival
	if !m.w && m.r == 0 {
		m.w = true
		touch(&m.v, 3)
		return
	}
	m.wwaiting++
	touch(&m.v, 3)
	point("RWMutex.Lock(wait)", func() bool { return !m.w && m.r == 0 })
	m.wwaiting--
	m.w = true
	touch(&m.v, 3)
}
func (m *RWMutex) Unlock() {
	if !m.w && S != nil && !S.killed {
		panic("sync: Unlock of unlocked RWMutex")
	}
	m.w = false
	touch(&m.v, 4)
}
func (m *RWMutex) RLock() {
	point("RWMutex.RLock", func() bool { return !m.w && m.wwaiting == 0 })
	m.r++
	touch(&m.v, 5)
	m.regReset()
}
func (m *RWMutex) RUnlock() {
	if m.r <= 0 && S != nil && !S.killed {
		panic("sync: RUnlock of unlocked RWMutex")
	}
	m.r--
	touch(&m.v, 6)
}
func (m *RWMutex) RLocker() sync.Locker { return rlocker{m} }

type rlocker struct{ m *RWMutex }

func (r rlocker) Lock()   { r.m.RLock() }
func (r rlocker) Unlock() { r.m.RUnlock() }

type Once struct {
	v     uint64
	state int // 0 idle, 1 running, 2 done
}

func (o *Once) Do(f func()) {
	point("Once.Do", func() bool { return o.state != 1 })
	touch(&o.v, 7)
	if o.state == 2 {
		return
	}
	o.state = 1
	if S != nil {
		S.resets = append(S.resets, func() {
			if o.state == 1 {
				o.state = 0
			}
		})
	}
	defer func() { o.state = 2; touch(&o.v, 7) }()
	f()
}

type WaitGroup struct {
	n int
	v uint64
}

func (w *WaitGroup) Add(d int) {
	point("WaitGroup.Add", always)
	w.n += d
	if w.n < 0 {
		panic("sync: negative WaitGroup counter")
	}
	touch(&w.v, 8)
}
func (w *WaitGroup) Done() { w.Add(-1) }
func (w *WaitGroup) Wait() { point("WaitGroup.Wait", func() bool { return w.n == 0 }); touch(&w.v, 9) }

// ---- sync.Map: insertion-ordered map (Range order is deterministic) ----

type Map struct {
	v    uint64
	keys []interface{}
	m    map[interface{}]interface{}
}

func (m *Map) op(what string) { point(what, always); touch(&m.v, 10) }

func (m *Map) Load(k interface{}) (interface{}, bool) {
	m.op("Map.Load")
	v, ok := m.m[k]
	return v, ok
}
func (m *Map) store(k, v interface{}) {
	if m.m == nil {
		m.m = map[interface{}]interface{}{}
	}
	if _, ok := m.m[k]; !ok {
		m.keys = append(m.keys, k)
	}
	m.m[k] = v
}
func (m *Map) Store(k, v interface{}) { m.op("Map.Store"); m.store(k, v) }
func (m *Map) LoadOrStore(k, v interface{}) (interface{}, bool) {
	m.op("Map.LoadOrStore")
	if old, ok := m.m[k]; ok {
		return old, true
	}
	m.store(k, v)
	return v, false
}
func (m *Map) del(k interface{}) {
	if _, ok := m.m[k]; ok {
		delete(m.m, k)
		for i, kk := range m.keys {
			if kk == k {
				m.keys = append(m.keys[:i:i], m.keys[i+1:]...)
				break
			}
		}
	}
}
func (m *Map) LoadAndDelete(k interface{}) (interface{}, bool) {
	m.op("Map.LoadAndDelete")
	v, ok := m.m[k]
	m.del(k)
	return v, ok
}
func (m *Map) Delete(k interface{}) { m.op("Map.Delete"); m.del(k) }
func (m *Map) Range(f func(k, v interface{}) bool) {
	m.op("Map.Range")
	keys := append([]interface{}{}, m.keys...)
	for _, k := range keys {
		if v, ok := m.m[k]; ok {
			if !f(k, v) {
				return
			}
		}
	}
}

// Len is for accessors injected into verification builds.
func (m *Map) Len() int { return len(m.m) }

// ---- sync.Pool: LIFO shared by all threads (maximal reuse: the adversarial case for state leaks) ----

type Pool struct {
	v     uint64
	New   func() interface{}
	items []interface{}
}

func (p *Pool) Get() interface{} {
	point("Pool.Get", always)
	touch(&p.v, 11)
	if n := len(p.items); n > 0 {
		x := p.items[n-1]
		p.items = p.items[:n-1]
		return x
	}
	if p.New != nil {
		return p.New()
	}
	return nil
}
func (p *Pool) Put(x interface{}) {
	point("Pool.Put", always)
	touch(&p.v, 11)
	p.items = append(p.items, x)
}

// Drain empties the pool (harness set-up between executions).
func (p *Pool) Drain() { p.items = nil }

// ---- sync/atomic ----

func atom(p unsafe.Pointer) *uint64 {
	s := S
	if s == nil {
		return nil
	}
	v := s.atoms[p]
	if v == nil {
		v = new(uint64)
		s.atoms[p] = v
	}
	return v
}
func apoint(p unsafe.Pointer, what string) {
	point(what, always)
	if S != nil {
		touch(atom(p), 12)
	}
}
func AddInt32(p *int32, d int32) int32 { apoint(unsafe.Pointer(p), "atomic.Add"); *p += d; return *p }
func AddInt64(p *int64, d int64) int64 { apoint(unsafe.Pointer(p), "atomic.Add"); *p += d; return *p }
func AddUint32(p *uint32, d uint32) uint32 {
	apoint(unsafe.Pointer(p), "atomic.Add")
	*p += d
	return *p
}
func AddUint64(p *uint64, d uint64) uint64 {
	apoint(unsafe.Pointer(p), "atomic.Add")
	*p += d
	return *p
}
func LoadInt32(p *int32) int32        { apoint(unsafe.Pointer(p), "atomic.Load"); return *p }
func LoadInt64(p *int64) int64        { apoint(unsafe.Pointer(p), "atomic.Load"); return *p }
func LoadUint32(p *uint32) uint32     { apoint(unsafe.Pointer(p), "atomic.Load"); return *p }
func LoadUint64(p *uint64) uint64     { apoint(unsafe.Pointer(p), "atomic.Load"); return *p }
func StoreInt32(p *int32, v int32)    { apoint(unsafe.Pointer(p), "atomic.Store"); *p = v }
func StoreInt64(p *int64, v int64)    { apoint(unsafe.Pointer(p), "atomic.Store"); *p = v }
func StoreUint32(p *uint32, v uint32) { apoint(unsafe.Pointer(p), "atomic.Store"); *p = v }
func StoreUint64(p *uint64, v uint64) { apoint(unsafe.Pointer(p), "atomic.Store"); *p = v }
func SwapInt32(p *int32, v int32) int32 {
	apoint(unsafe.Pointer(p), "atomic.Swap")
	o := *p
	*p = v
	return o
}
func SwapInt64(p *int64, v int64) int64 {
	apoint(unsafe.Pointer(p), "atomic.Swap")
	o := *p
	*p = v
	return o
}
func CompareAndSwapInt32(p *int32, o, n int32) bool {
	apoint(unsafe.Pointer(p), "atomic.CAS")
	if *p == o {
		*p = n
		return true
	}
	return false
}
func CompareAndSwapInt64(p *int64, o, n int64) bool {
	apoint(unsafe.Pointer(p), "atomic.CAS")
	if *p == o {
		*p = n
		return true
	}
	return false
}
func CompareAndSwapUint32(p *uint32, o, n uint32) bool {
	apoint(unsafe.Pointer(p), "atomic.CAS")
	if *p == o {
		*p = n
		return true
	}
	return false
}
func CompareAndSwapUint64(p *uint64, o, n uint64) bool {
	apoint(unsafe.Pointer(p), "atomic.CAS")
	if *p == o {
		*p = n
		return true
	}
	return false
}
