package vs

import (
	"context"
	"sort"
	"time"
)

// Virtual clock. Timers never fire out of deadline order. A timer fires (a) when nothing else is enabled:
// time jumps to the earliest deadline; or (b) eagerly, as an explorer choice at a scheduling point, when
// it is due within EagerHorizon (costs one unit of the bound, like a preemption).

type timer struct {
	at   int64
	seq  int
	f    func()
	dead bool
	name string
}

func (s *Sched) addTimer(d time.Duration, name string, f func()) *timer {
	if d < 0 {
		d = 0
	}
	t := &timer{at: s.now + int64(d), seq: len(s.timers), f: f, name: name}
	s.timers = append(s.timers, t)
	touch(&s.clkv, 30)
	return t
}

func (s *Sched) earliest() *timer {
	var best *timer
	for _, t := range s.timers {
		if !t.dead && (best == nil || t.at < best.at || (t.at == best.at && t.seq < best.seq)) {
			best = t
		}
	}
	return best
}

func (s *Sched) eagerTimer() *timer {
	if s.EagerHorizon < 0 {
		return nil
	}
	if t := s.earliest(); t != nil && t.at-s.now <= s.EagerHorizon {
		return t
	}
	return nil
}

func (s *Sched) fire(t *timer, eager bool) {
	t.dead = true
	if t.at > s.now {
		s.now = t.at
	}
	if s.TraceOn {
		k := "timer"
		if eager {
			k = "timer(eager)"
		}
		s.Trace = append(s.Trace, k+":"+t.name)
	}
	cur := s.cur
	s.cur = nil // timer bodies are attributed to the clock in the happens-before hash
	touch(&s.clkv, uint64(31+t.seq))
	t.f()
	s.cur = cur
	// compact
	if len(s.timers) > 64 {
		live := s.timers[:0]
		for _, x := range s.timers {
			if !x.dead {
				live = append(live, x)
			}
		}
		s.timers = live
	}
}

func (s *Sched) fireTimer(eager bool) bool {
	t := s.earliest()
	if t == nil {
		return false
	}
	s.fire(t, eager)
	return true
}

func stopTimer(t *timer) bool {
	was := !t.dead
	t.dead = true
	touch(&S.clkv, 32)
	return was
}

// PendingTimers lists the names of timers that have not fired (for leak oracles).
func PendingTimers() []string {
	var out []string
	for _, t := range S.timers {
		if !t.dead {
			out = append(out, t.name)
		}
	}
	sort.Strings(out)
	return out
}

func Now() time.Time {
	if S == nil {
		return time.Now()
	}
	touch(&S.clkv, 33)
	return Epoch.Add(time.Duration(S.now))
}
func Since(t time.Time) time.Duration { return Now().Sub(t) }
func Until(t time.Time) time.Duration { return t.Sub(Now()) }

// Elapsed returns the virtual time elapsed in this execution.
func Elapsed() time.Duration { return time.Duration(S.now) }

func Sleep(d time.Duration) {
	if S == nil {
		time.Sleep(d)
		return
	}
	if d <= 0 {
		Gosched()
		return
	}
	fired := false
	S.addTimer(d, "sleep", func() { fired = true })
	point("sleep", func() bool { return fired })
}

func After(d time.Duration) <-chan time.Time {
	if S == nil {
		return time.After(d)
	}
	ch := make(chan time.Time, 1)
	cs := chanOf((<-chan time.Time)(ch))
	S.addTimer(d, "After", func() {
		cs.buf = append(cs.buf, Epoch.Add(time.Duration(S.now)))
		touch(&cs.v, 34)
	})
	return ch
}

type Timer struct {
	C <-chan time.Time
	t *timer
	f func()
	c chan time.Time
}

func NewTimer(d time.Duration) *Timer {
	ch := make(chan time.Time, 1)
	tm := &Timer{C: ch, c: ch}
	tm.arm(d)
	return tm
}
func (tm *Timer) arm(d time.Duration) {
	if tm.f != nil {
		f := tm.f
		tm.t = S.addTimer(d, "AfterFunc", func() { Go(f) })
		return
	}
	cs := chanOf((<-chan time.Time)(tm.c))
	tm.t = S.addTimer(d, "Timer", func() {
		if len(cs.buf) == 0 {
			cs.buf = append(cs.buf, Epoch.Add(time.Duration(S.now)))
			touch(&cs.v, 34)
		}
	})
}
func AfterFunc(d time.Duration, f func()) *Timer {
	tm := &Timer{f: f}
	tm.arm(d)
	return tm
}
func (tm *Timer) Stop() bool { point("Timer.Stop", always); return stopTimer(tm.t) }
func (tm *Timer) Reset(d time.Duration) bool {
	point("Timer.Reset", always)
	was := stopTimer(tm.t)
	tm.arm(d)
	return was
}

// ---- context ----

type vctx struct {
	parent   context.Context
	done     chan struct{}
	err      error
	children []*vctx
	deadline time.Time
	hasDL    bool
	key, val interface{}
	isValue  bool
	v        uint64
}

type ctxKey struct{}

func Background() context.Context { return context.Background() }
func TODO() context.Context       { return context.TODO() }

func (c *vctx) Deadline() (time.Time, bool) {
	if c.hasDL {
		return c.deadline, true
	}
	return c.parent.Deadline()
}
func (c *vctx) Done() <-chan struct{} {
	if c.isValue {
		return c.parent.Done()
	}
	return c.done
}
func (c *vctx) Err() error {
	if c.isValue {
		return c.parent.Err()
	}
	touch(&c.v, 40)
	return c.err
}
func (c *vctx) Value(k interface{}) interface{} {
	if c.isValue {
		if k == c.key {
			return c.val
		}
		return c.parent.Value(k)
	}
	if _, ok := k.(ctxKey); ok {
		return c
	}
	return c.parent.Value(k)
}

func (c *vctx) cancel(err error) {
	if c.err != nil {
		return
	}
	c.err = err
	touch(&c.v, 41)
	if S != nil {
		dcs := chanOf((<-chan struct{})(c.done))
		dcs.closed = true
		touch(&dcs.v, 15)
	} else {
		close(c.done)
	}
	for _, ch := range c.children {
		ch.cancel(err)
	}
}

func newCtx(parent context.Context) *vctx {
	c := &vctx{parent: parent, done: make(chan struct{})}
	if p, ok := parent.Value(ctxKey{}).(*vctx); ok {
		if p.err != nil {
			c.cancel(p.err)
		} else {
			p.children = append(p.children, c)
			touch(&p.v, 42)
		}
	} else if parent.Done() != nil {
		panic("vs: foreign cancellable parent context")
	}
	return c
}

func WithValue(parent context.Context, key, val interface{}) context.Context {
	return &vctx{parent: parent, key: key, val: val, isValue: true}
}

func WithCancel(parent context.Context) (context.Context, context.CancelFunc) {
	c := newCtx(parent)
	return c, func() { point("ctx.cancel", always); c.cancel(context.Canceled) }
}

func WithDeadline(parent context.Context, d time.Time) (context.Context, context.CancelFunc) {
	return WithTimeout(parent, d.Sub(Now()))
}

func WithTimeout(parent context.Context, d time.Duration) (context.Context, context.CancelFunc) {
	if S == nil {
		panic("vs.WithTimeout outside an exploration")
	}
	c := newCtx(parent)
	dl := Epoch.Add(time.Duration(S.now) + d)
	if pd, ok := parent.Deadline(); ok && pd.Before(dl) {
		dl = pd
	}
	c.deadline, c.hasDL = dl, true
	tm := S.addTimer(d, "ctx.timeout", func() { c.cancel(context.DeadlineExceeded) })
	return c, func() { point("ctx.cancel", always); stopTimer(tm); c.cancel(context.Canceled) }
}

// AddTimer registers a virtual timer for harness fakes (e.g. "the peer answers what it still holds once
// everybody is blocked"): f runs when the timer fires, attributed to the clock.
func AddTimer(d time.Duration, name string, f func()) { S.addTimer(d, name, f) }
